import os, sys; sys.path.insert(0, os.getcwd())

"""
Differential demonstration for refactor 8 (tables SN resolution behind
TableGroupCacheManager.get_table_group).

What pybufrkit answers - the pair of SNs, the directories it probes and the
warnings it logs, in the order they happen - is compared with a reference that
is written here from the documentation of the fallback rules (pathlib, no
pybufrkit code), over a grid of hand-made table directories that reaches every
branch. Then the same through TableGroupCacheManager.get_table_group (keys,
identity of cached groups, small cache limits, failing loads) and through whole
decodes after long histories.

Exits 0 when every check holds (unpatched and patched), 1 otherwise.
"""
import copy
import itertools
import json
import logging
import pathlib
import shutil
import tempfile

import pybufrkit
from pybufrkit import tables as tables_module
from pybufrkit.constants import DEFAULT_TABLES_DIR
from pybufrkit.decoder import Decoder
from pybufrkit.tables import (TableGroupCache, TableGroupCacheManager, TableGroupKey, get_tables_sn,
                              normalize_tables_sn)

assert os.path.dirname(os.path.abspath(pybufrkit.__file__)) == os.path.join(os.getcwd(), 'pybufrkit'), \
    'run me from the worktree root'

FAILURES = []
N_CHECKS = [0]


def check(label, got, expected):
    N_CHECKS[0] += 1
    if got != expected:
        FAILURES.append(label)
        print('FAIL', label, '\n   got     ', repr(got)[:600], '\n   expected', repr(expected)[:600])


def outcome(func, *args, **kwargs):
    try:
        return 'ok', func(*args, **kwargs)
    except Exception as e:
        return 'raise', type(e).__name__


# ----------------------------------------------------------------------------
# One trace for the two kinds of things the resolution does to the outside
# world: directories probed and warnings logged, in the order they happen.
# ----------------------------------------------------------------------------
TRACE = []
REAL_ISDIR = os.path.isdir


def tracing_isdir(path):
    TRACE.append(('isdir', path))
    return REAL_ISDIR(path)


class TraceHandler(logging.Handler):
    def emit(self, record):
        TRACE.append((record.levelname, record.getMessage()))


tables_module.log.addHandler(TraceHandler(level=logging.WARNING))
tables_module.log.setLevel(logging.WARNING)
tables_module.log.propagate = False


def traced(func, *args, **kwargs):
    del TRACE[:]
    os.path.isdir = tracing_isdir
    try:
        result = outcome(func, *args, **kwargs)
    finally:
        os.path.isdir = REAL_ISDIR
    return result, list(TRACE)


# ----------------------------------------------------------------------------
# Hand-made tables root: (master table number / centres / version) directories
# ----------------------------------------------------------------------------
ROOT = tempfile.mkdtemp(prefix='w7t_C13_demo8_')
MINIMAL_B = {'001001': ['WMO BLOCK NUMBER', 'NUMERIC', 0, 0, 7, 'NUMERIC', 0, 2],
             '031001': ['DELAYED DESCRIPTOR REPLICATION FACTOR', 'NUMERIC', 0, 0, 8, 'NUMERIC', 0, 3]}
TREE = [
    # master table 0: WMO versions 13 and 33 (33 is the default), local tables for centre 7
    '0/0_0/13', '0/0_0/33',
    '0/7_0/1',        # default sub-centre only      -> fallback for 7_5 v1
    '0/7_5/2',        # exact sub-centre only        -> no fallback needed for 7_5 v2
    '0/7_0/3', '0/7_5/3',  # both                    -> exact wins
    '0/7_0/0',        # a local version called "0", only reachable with a non-integer zero
    # master table 10 exists but has no version 33 and one local centre
    '10/0_0/13', '10/9_0/4',
    # master table 11 exists and is empty
    '11',
    # the string forms of odd values
    '0/0_0/None', '0/0_0/True', '0/7_5/1.0', '0/None_None/5',
]
for rel in TREE:
    os.makedirs(os.path.join(ROOT, rel))
    if rel.count('/') == 2:
        number, centres, version = rel.split('/')
        with open(os.path.join(ROOT, rel, 'TableB.json'), 'w') as outs:
            json.dump(dict(MINIMAL_B, **({'001192': ['LOCAL ' + rel, 'NUMERIC', 0, 0, 9, 'NUMERIC', 0, 3]}
                                         if centres != '0_0' else {})), outs)
        with open(os.path.join(ROOT, rel, 'TableD.json'), 'w') as outs:
            json.dump({'301001': ['BLOCK ' + rel, ['001001']]}, outs)
# a plain file where a directory is looked for
with open(os.path.join(ROOT, '0', '0_0', '20'), 'w') as outs:
    outs.write('not a directory')
with open(os.path.join(ROOT, '12'), 'w') as outs:
    outs.write('not a directory')


def reference_normalize(root, number, centre, subcentre, version, local_version):
    """
    The documented rules, with the trace they should leave:
    1. unknown master table number -> 0 (warning);
    2. WMO tables <number>/0_0/<version>, unknown version -> 33 (warning), whether or not that exists;
    3. local tables only when the local version is not zero: <number>/<centre>_<subcentre>/<local version>, else
       <number>/<centre>_0/<local version> (warning), else none (warning).
    """
    trace = []
    root = pathlib.Path(root)

    def there(*parts):
        p = root.joinpath(*parts)
        trace.append(('isdir', str(p)))
        return p.is_dir()

    number, version, local = '%s' % (number,), '%s' % (version,), '%s' % (local_version,)
    if not there(number):
        trace.append(('WARNING', 'Fallback to default master table number: 0 (%s not found)' % number))
        number = '0'
    if there(number, '0_0', version):
        wmo = (number, '0_0', version)
    else:
        trace.append(('WARNING', 'Fallback to default master table version 33 (%s not found)' % version))
        wmo = (number, '0_0', '33')
    if local_version == 0:  # also 0.0 and False
        return (wmo, None), trace
    exact, fallback = '%s_%s' % (centre, subcentre), '%s_0' % (centre,)
    if there(number, exact, local):
        return (wmo, (number, exact, local)), trace
    if there(number, fallback, local):
        trace.append(('WARNING', 'Fallback to default local sub-centre 0 (%s not found)' % (subcentre,)))
        return (wmo, (number, fallback, local)), trace
    trace.append(('WARNING', 'Cannot find sub-centre %s nor valid default. Local table not in use.' % (subcentre,)))
    return (wmo, None), trace


NUMBERS = [0, 10, 11, 12, 5, '0', None]
CENTRES = [(7, 5), (7, 0), (7, 8), (9, 1), (9, 0), (3, 3), (None, None), ('7', '5')]
VERSIONS = [13, 33, 20, 29, None, True, '13']
LOCAL_VERSIONS = [0, 1, 2, 3, 4, 5, 9, 0.0, False, '0', 1.0, None]

n_cases = 0
seen_shapes = set()
for number, (centre, subcentre), version, local_version in itertools.product(NUMBERS, CENTRES, VERSIONS, LOCAL_VERSIONS):
    got = traced(normalize_tables_sn, ROOT, number, centre, subcentre, version, local_version)
    wanted_value, wanted_trace = reference_normalize(ROOT, number, centre, subcentre, version, local_version)
    check('normalize{}'.format((number, centre, subcentre, version, local_version)), got, (('ok', wanted_value), wanted_trace))
    n_cases += 1
    seen_shapes.add(tuple(kind if kind == 'isdir' else text.split(' (')[0].split(' sub-centre')[0]
                          for kind, text in wanted_trace))
    # the result is made of plain tuples of str
    if got[0][0] == 'ok':
        wmo, local = got[0][1]
        assert type(wmo) is tuple and all(type(x) is str for x in wmo)
        assert local is None or (type(local) is tuple and all(type(x) is str for x in local))
check('normalize.grid size', n_cases, len(NUMBERS) * len(CENTRES) * len(VERSIONS) * len(LOCAL_VERSIONS))
# every path through the rules has been taken: 2 (number) x 2 (version) x 4 (no local / exact / fallback / none)
check('normalize.all 16 paths taken', len(seen_shapes), 16)

# a few of them written out by hand, not trusting the reference either
J = lambda *parts: os.path.join(ROOT, *parts)
HAND = [
    ((0, 7, 5, 13, 0), (('0', '0_0', '13'), None),
     [('isdir', J('0')), ('isdir', J('0', '0_0', '13'))]),
    ((0, 7, 5, 13, 2), (('0', '0_0', '13'), ('0', '7_5', '2')),
     [('isdir', J('0')), ('isdir', J('0', '0_0', '13')), ('isdir', J('0', '7_5', '2'))]),
    ((0, 7, 5, 13, 1), (('0', '0_0', '13'), ('0', '7_0', '1')),
     [('isdir', J('0')), ('isdir', J('0', '0_0', '13')), ('isdir', J('0', '7_5', '1')), ('isdir', J('0', '7_0', '1')),
      ('WARNING', 'Fallback to default local sub-centre 0 (5 not found)')]),
    ((0, 7, 5, 13, 3), (('0', '0_0', '13'), ('0', '7_5', '3')),
     [('isdir', J('0')), ('isdir', J('0', '0_0', '13')), ('isdir', J('0', '7_5', '3'))]),
    ((0, 7, 0, 13, 9), (('0', '0_0', '13'), None),  # the two candidates are the same directory, probed twice
     [('isdir', J('0')), ('isdir', J('0', '0_0', '13')), ('isdir', J('0', '7_0', '9')), ('isdir', J('0', '7_0', '9')),
      ('WARNING', 'Cannot find sub-centre 0 nor valid default. Local table not in use.')]),
    ((5, 7, 5, 29, 1), (('0', '0_0', '33'), ('0', '7_0', '1')),
     [('isdir', J('5')), ('WARNING', 'Fallback to default master table number: 0 (5 not found)'),
      ('isdir', J('0', '0_0', '29')), ('WARNING', 'Fallback to default master table version 33 (29 not found)'),
      ('isdir', J('0', '7_5', '1')), ('isdir', J('0', '7_0', '1')),
      ('WARNING', 'Fallback to default local sub-centre 0 (5 not found)')]),
    ((10, 9, 1, 33, 4), (('10', '0_0', '33'), ('10', '9_0', '4')),  # the default version need not exist
     [('isdir', J('10')), ('isdir', J('10', '0_0', '33')),
      ('WARNING', 'Fallback to default master table version 33 (33 not found)'),
      ('isdir', J('10', '9_1', '4')), ('isdir', J('10', '9_0', '4')),
      ('WARNING', 'Fallback to default local sub-centre 0 (1 not found)')]),
    ((12, 7, 5, 20, '0'), (('0', '0_0', '33'), ('0', '7_0', '0')),  # files are not directories; '0' is not 0
     [('isdir', J('12')), ('WARNING', 'Fallback to default master table number: 0 (12 not found)'),
      ('isdir', J('0', '0_0', '20')), ('WARNING', 'Fallback to default master table version 33 (20 not found)'),
      ('isdir', J('0', '7_5', '0')), ('isdir', J('0', '7_0', '0')),
      ('WARNING', 'Fallback to default local sub-centre 0 (5 not found)')]),
    ((0, 7, 5, 13, False), (('0', '0_0', '13'), None), [('isdir', J('0')), ('isdir', J('0', '0_0', '13'))]),
    ((0, 7, 5, 13, 1.0), (('0', '0_0', '13'), ('0', '7_5', '1.0')),
     [('isdir', J('0')), ('isdir', J('0', '0_0', '13')), ('isdir', J('0', '7_5', '1.0'))]),
    ((None, None, None, None, None), (('0', '0_0', 'None'), None),
     [('isdir', J('None')), ('WARNING', 'Fallback to default master table number: 0 (None not found)'),
      ('isdir', J('0', '0_0', 'None')), ('isdir', J('0', 'None_None', 'None')), ('isdir', J('0', 'None_0', 'None')),
      ('WARNING', 'Cannot find sub-centre None nor valid default. Local table not in use.')]),
]
for args, wanted_value, wanted_trace in HAND:
    check('normalize.hand{}'.format(args), traced(normalize_tables_sn, ROOT, *args), (('ok', wanted_value), wanted_trace))

# failures: a root that cannot be joined
check('normalize.err.root None', traced(normalize_tables_sn, None, 0, 0, 0, 33, 0), (('raise', 'TypeError'), []))
check('normalize.err.root bytes', traced(normalize_tables_sn, b'/tmp', 0, 0, 0, 33, 0), (('raise', 'TypeError'), []))
check('normalize.root that does not exist', traced(normalize_tables_sn, J('nope'), 4, 1, 2, 3, 0),
      (('ok', (('0', '0_0', '33'), None)),
       [('isdir', J('nope', '4')), ('WARNING', 'Fallback to default master table number: 0 (4 not found)'),
        ('isdir', J('nope', '0', '0_0', '3')), ('WARNING', 'Fallback to default master table version 33 (3 not found)')]))
check('normalize.keywords', normalize_tables_sn(
    tables_root_dir=ROOT, master_table_number=0, originating_centre=7, originating_subcentre=5,
    master_table_version=13, local_table_version=3), (('0', '0_0', '13'), ('0', '7_5', '3')))

# ----------------------------------------------------------------------------
# get_tables_sn: no look at the disk at all
# ----------------------------------------------------------------------------
for args, wanted in [
    ((0, 7, 5, 13, 0), (('0', '0_0', '13'), None)),
    ((0, 7, 5, 13, 2), (('0', '0_0', '13'), ('0', '7_5', '2'))),
    ((3, 98, 0, 99, 77), (('3', '0_0', '99'), ('3', '98_0', '77'))),
    ((0, 7, 5, 13, 0.0), (('0', '0_0', '13'), None)),
    ((0, 7, 5, 13, False), (('0', '0_0', '13'), None)),
    ((0, 7, 5, 13, '0'), (('0', '0_0', '13'), ('0', '7_5', '0'))),
    ((0, 7, 5, 13, None), (('0', '0_0', '13'), ('0', '7_5', 'None'))),
    ((None, None, None, None, None), (('None', '0_0', 'None'), ('None', 'None_None', 'None'))),
    (('a', 'b', 'c', 'd', 'e'), (('a', '0_0', 'd'), ('a', 'b_c', 'e'))),
]:
    check('get_tables_sn{}'.format(args), traced(get_tables_sn, *args), (('ok', wanted), []))
check('get_tables_sn.keywords', get_tables_sn(master_table_number=1, originating_centre=2, originating_subcentre=3,
                                              master_table_version=4, local_table_version=5),
      (('1', '0_0', '4'), ('1', '2_3', '5')))


class Loud(object):
    """An odd value whose conversions are counted, to pin down how often and in which order values are used"""

    def __init__(self, text, log_, equals_zero=False):
        self.text, self.log, self.equals_zero = text, log_, equals_zero

    def __str__(self):
        self.log.append('str ' + self.text)
        return self.text

    def __format__(self, spec):
        self.log.append('format ' + self.text)
        return self.text

    def __ne__(self, other):
        self.log.append('ne ' + self.text)
        return not self.equals_zero

    def __eq__(self, other):
        self.log.append('eq ' + self.text)
        return self.equals_zero

    __hash__ = None


for zero in (False, True):
    events = []
    args = [Loud(t, events, zero) for t in ('N', 'C', 'S', 'V', 'L')]
    check('get_tables_sn.order of use (local version {} zero)'.format('is' if zero else 'is not'),
          (get_tables_sn(*args), events),
          ((('N', '0_0', 'V'), None), ['str N', 'str V', 'ne L']) if zero else
          ((('N', '0_0', 'V'), ('N', 'C_S', 'L')), ['str N', 'str V', 'ne L', 'str N', 'format C', 'format S', 'str L']))
    events = []
    args = [Loud(t, events, zero) for t in ('0', '7', '5', '13', '3')]
    check('normalize.order of use (local version {} zero)'.format('is' if zero else 'is not'),
          (normalize_tables_sn(ROOT, *args), events),
          ((('0', '0_0', '13'), None), ['str 0', 'str 13', 'str 3', 'ne 3']) if zero else
          ((('0', '0_0', '13'), ('0', '7_5', '3')),
           ['str 0', 'str 13', 'str 3', 'ne 3', 'format 7', 'format 5', 'format 7']))

# ----------------------------------------------------------------------------
# TableGroupCacheManager.get_table_group: keys, identity, eviction, failing loads
# ----------------------------------------------------------------------------
TableGroupCacheManager._TABLE_GROUP_CACHE = TableGroupCache()
GET = TableGroupCacheManager.get_table_group


def key_of(*args, **kwargs):
    result = outcome(GET, *args, **kwargs)
    return (result[0], result[1].key) if result[0] == 'ok' else result


D = DEFAULT_TABLES_DIR
for label, args, kwargs, wanted in [
    ('defaults', (), {}, TableGroupKey(D, ('0', '0_0', '33'), None)),
    ('empty root string', ('',), {}, TableGroupKey(D, ('0', '0_0', '33'), None)),
    ('version 29', (), {'master_table_version': 29}, TableGroupKey(D, ('0', '0_0', '29'), None)),
    ('version 0 means default', (), {'master_table_version': 0}, TableGroupKey(D, ('0', '0_0', '33'), None)),
    ('unknown version', (), {'master_table_version': 99}, TableGroupKey(D, ('0', '0_0', '33'), None)),
    ('unknown number', (), {'master_table_number': 6, 'master_table_version': 13}, TableGroupKey(D, ('0', '0_0', '13'), None)),
    ('ecmwf exact', (None, 0, 98, 0, 13, 1), {}, TableGroupKey(D, ('0', '0_0', '13'), ('0', '98_0', '1'))),
    ('ecmwf fallback', (None, 0, 98, 4, 13, 1), {}, TableGroupKey(D, ('0', '0_0', '13'), ('0', '98_0', '1'))),
    ('no such centre', (None, 0, 97, 4, 13, 1), {}, TableGroupKey(D, ('0', '0_0', '13'), None)),
    ('hand root exact', (ROOT, 0, 7, 5, 13, 2), {}, TableGroupKey(ROOT, ('0', '0_0', '13'), ('0', '7_5', '2'))),
    ('hand root fallback', (ROOT, 0, 7, 5, 13, 1), {}, TableGroupKey(ROOT, ('0', '0_0', '13'), ('0', '7_0', '1'))),
    ('hand root no local', (ROOT, 0, 7, 5, 13, 9), {}, TableGroupKey(ROOT, ('0', '0_0', '13'), None)),
    ('hand root both wrong', (ROOT, 5, 7, 5, 29, 0), {}, TableGroupKey(ROOT, ('0', '0_0', '33'), None)),
    ('hand root table 10', (ROOT, 10, 9, 1, 13, 4), {}, TableGroupKey(ROOT, ('10', '0_0', '13'), ('10', '9_0', '4'))),
    ('as is', (ROOT, 0, 7, 5, 13, 2), {'normalize': False}, TableGroupKey(ROOT, ('0', '0_0', '13'), ('0', '7_5', '2'))),
    ('as is, zero local', (ROOT, 0, 7, 5, 13, 0), {'normalize': 0}, TableGroupKey(ROOT, ('0', '0_0', '13'), None)),
    ('normalize given as 1', (ROOT, 0, 7, 5, 13, 1), {'normalize': 1}, TableGroupKey(ROOT, ('0', '0_0', '13'), ('0', '7_0', '1'))),
]:
    check('get_table_group.key.' + label, key_of(*args, **kwargs), ('ok', wanted))
for label, args, kwargs, wanted in [
    ('as is, no defaults filled in', (), {'normalize': False}, ('raise', 'FileNotFoundError')),
    ('as is, no fallback', (ROOT, 0, 7, 5, 13, 1), {'normalize': False}, ('raise', 'FileNotFoundError')),
    ('as is, unknown version', (ROOT, 0, 7, 5, 29, 0), {'normalize': False}, ('raise', 'FileNotFoundError')),
    ('normalised to a default that is not there', (ROOT, 10, 9, 1, 33, 4), {}, ('raise', 'FileNotFoundError')),
]:
    check('get_table_group.err.' + label, key_of(*args, **kwargs), wanted)
    check('get_table_group.err.' + label + ' (again)', key_of(*args, **kwargs), wanted)

# one object per key, however the key was arrived at
a = GET(ROOT, 0, 7, 5, 13, 1)
check('get_table_group.identity.fallback and exact spelling', a is GET(ROOT, 0, 7, 0, 13, 1), True)
check('get_table_group.identity.normalised and as is', a is GET(ROOT, 0, 7, 0, 13, 1, normalize=False), True)
check('get_table_group.identity.by key', a is TableGroupCacheManager.get_table_group_by_key(
    TableGroupKey(ROOT, ('0', '0_0', '13'), ('0', '7_0', '1'))), True)
check('get_table_group.identity.unknown number', GET(ROOT, 5, 7, 5, 13, 0) is GET(ROOT, 0, 1, 1, 13, 0), True)
check('get_table_group.identity.defaults', GET() is GET(D, 0, 0, 0, 33, 0), True)
check('get_table_group.local entries are read', (a.lookup(1192).name, a.lookup(301001).name, GET(ROOT, 0, 7, 5, 13, 2).lookup(1192).name),
      ('LOCAL 0/7_0/1', 'BLOCK 0/7_0/1', 'LOCAL 0/7_5/2'))
check('get_table_group.no local entries', type(GET(ROOT, 0, 7, 5, 13, 9).lookup(1192)).__name__, 'UndefinedElementDescriptor')


def shape(group, *ids):
    """A template of the group, written down without any object identity"""
    def walk(d):
        members = getattr(d, 'members', None)
        factor = getattr(d, 'factor', None)
        return (type(d).__name__, d.id, getattr(d, 'name', None), getattr(d, 'nbits', None),
                None if factor is None else walk(factor), None if members is None else [walk(m) for m in members])
    return [walk(m) for m in group.template_from_ids(*ids).members]


REQUESTS = [
    ((ROOT, 0, 7, 5, 13, 1), (301001, 1192, 101000, 31001, 1001)),
    ((ROOT, 0, 7, 5, 13, 2), (301001, 1192)),
    ((ROOT, 0, 7, 5, 13, 3), (301001, 1192)),
    ((ROOT, 0, 7, 0, 33, 3), (301001, 1192)),
    ((ROOT, 10, 9, 1, 13, 4), (301001, 1192)),
    ((ROOT, 0, 7, 5, 29, 0), (301001, 1192)),
    ((None, 0, 98, 0, 13, 1), (301011, 1192, 102002, 1001, 1002)),
    ((None, 0, 98, 7, 29, 101), (301011, 307080)),
    ((None, 0, 0, 0, 25, 0), (309052,)),
    ((None, 0, 0, 0, 0, 0), (309052,)),
]
TableGroupCacheManager._TABLE_GROUP_CACHE = TableGroupCache()
FRESH_SHAPES = []
for args, ids in REQUESTS:
    TableGroupCacheManager.invalidate()
    FRESH_SHAPES.append(shape(GET(*args), *ids))
check('get_table_group.fresh.hand written', FRESH_SHAPES[0], [
    ('SequenceDescriptor', 301001, 'BLOCK 0/7_0/1', None, None, [('ElementDescriptor', 1001, 'WMO BLOCK NUMBER', 7, None, None)]),
    ('ElementDescriptor', 1192, 'LOCAL 0/7_0/1', 9, None, None),
    ('DelayedReplicationDescriptor', 101000, None, None,
     ('ElementDescriptor', 31001, 'DELAYED DESCRIPTOR REPLICATION FACTOR', 8, None, None),
     [('ElementDescriptor', 1001, 'WMO BLOCK NUMBER', 7, None, None)])])

real_limit = tables_module.MAXIMUM_NUMBER_OF_CACHED_TABLE_GROUPS
check('limit', real_limit, 50)
for limit in (1, 2, 3, real_limit):
    tables_module.MAXIMUM_NUMBER_OF_CACHED_TABLE_GROUPS = limit
    TableGroupCacheManager._TABLE_GROUP_CACHE = TableGroupCache()
    order = list(range(len(REQUESTS)))
    schedule = order + order[::-1] + order[::2] + order[1::2] + order + [0, 0, 1, 0, 2, 1, 0]
    bad, biggest = 0, 0
    for step, i in enumerate(schedule):
        if step % 7 == 3:  # failing loads in between
            check('history[{}].failing load {}'.format(limit, step), key_of(ROOT, 10, 9, 1, 33, 4), ('raise', 'FileNotFoundError'))
        args, ids = REQUESTS[i]
        group = GET(*args)
        if shape(group, *ids) != FRESH_SHAPES[i]:
            bad += 1
        biggest = max(biggest, len(TableGroupCacheManager._TABLE_GROUP_CACHE._groups))
        # asked again straight away: the cached object
        if GET(*args) is not group:
            bad += 1
    check('history[{}].same as fresh'.format(limit), bad, 0)
    check('history[{}].cache stays within the limit'.format(limit), biggest <= limit, True)
tables_module.MAXIMUM_NUMBER_OF_CACHED_TABLE_GROUPS = real_limit

# ----------------------------------------------------------------------------
# Whole decodes: the key a message ends up with, fresh and after a history
# ----------------------------------------------------------------------------
SAMPLES = {}
for name in ['207003', 'contrived', 'jaso_214', 'uegabe', 'b005_89', 'IUSK73_AMMC_182300', 'profiler_european',
             'amv2_87', 'mpco_217']:
    with open(os.path.join('tests', 'data', name + '.bufr'), 'rb') as ins:
        SAMPLES[name] = ins.read()


def section1(s):
    """master table number, centre, sub-centre, master version, local version - sliced out of the bytes"""
    edition = s[7]
    if edition == 4:
        return s[11], int.from_bytes(s[12:14], 'big'), int.from_bytes(s[14:16], 'big'), s[21], s[22]
    if edition == 3:
        return s[11], s[13], s[12], s[18], s[19]
    if edition == 2:
        return s[11], int.from_bytes(s[12:14], 'big'), 0, s[18], s[19]
    raise ValueError(edition)


def u(n, nbytes):
    return n.to_bytes(nbytes, 'big')


def build_message(centre, subcentre, version, local_version, number=0, descriptors=(0x0101,), data=b'\x54'):
    """Edition 4, one subset, by default template 001001 with value 42"""
    body = (u(number, 1) + u(centre, 2) + u(subcentre, 2) + u(0, 1) + u(0, 1) + u(0, 1) + u(0, 1) + u(0, 1) +
            u(version, 1) + u(local_version, 1) + u(2020, 2) + bytes([12, 31, 23, 59, 58]))
    s1 = u(3 + len(body), 3) + body
    s3 = u(7 + 2 * len(descriptors), 3) + b'\x00' + u(1, 2) + b'\x80' + b''.join(u(d, 2) for d in descriptors)
    s4 = u(4 + len(data), 3) + b'\x00' + data
    rest = s1 + s3 + s4 + b'7777'
    return b'BUFR' + u(8 + len(rest), 3) + u(4, 1) + rest


# 001192 is 9 bits wide in the hand-made local tables: value 300 -> 100101100
HAND_MESSAGES = {
    'exact local': (build_message(7, 5, 13, 2, descriptors=(0x0101, 0x01C0), data=u((42 << 9 | 300) << 0, 2)),
                    TableGroupKey(ROOT, ('0', '0_0', '13'), ('0', '7_5', '2')), [42, 300]),
    'fallback local': (build_message(7, 5, 13, 1, descriptors=(0x0101, 0x01C0), data=u(42 << 9 | 300, 2)),
                       TableGroupKey(ROOT, ('0', '0_0', '13'), ('0', '7_0', '1')), [42, 300]),
    'both present': (build_message(7, 5, 13, 3, descriptors=(0xC101,), data=b'\x54'),
                     TableGroupKey(ROOT, ('0', '0_0', '13'), ('0', '7_5', '3')), [42]),
    'local not found': (build_message(7, 5, 13, 9), TableGroupKey(ROOT, ('0', '0_0', '13'), None), [42]),
    'unknown version': (build_message(7, 5, 29, 0), TableGroupKey(ROOT, ('0', '0_0', '33'), None), [42]),
    'unknown number': (build_message(7, 5, 13, 0, number=5), TableGroupKey(ROOT, ('0', '0_0', '13'), None), [42]),
    'table 10': (build_message(9, 1, 13, 4, number=10), TableGroupKey(ROOT, ('10', '0_0', '13'), ('10', '9_0', '4')), [42]),
    'version 0 is the default': (build_message(0, 0, 0, 0), TableGroupKey(ROOT, ('0', '0_0', '33'), None), [42]),
}
# the two-descriptor data are 16 bits: 7 + 9
for name, (s, _, _) in HAND_MESSAGES.items():
    assert int.from_bytes(s[4:7], 'big') == len(s), name


def observe(message):
    td = message.template_data.value
    return (message.table_group_key, repr(td.decoded_values_all_subsets), repr(td.decoded_descriptors_all_subsets))


def decode(decoder, s):
    result = outcome(decoder.process, s)
    return ('ok', observe(result[1])) if result[0] == 'ok' else result


def fresh_decode(root, s):
    TableGroupCacheManager._TABLE_GROUP_CACHE = TableGroupCache()
    return decode(Decoder(tables_root_dir=root), s)


POOL = []
for name, s in sorted(SAMPLES.items()):
    number, centre, subcentre, version, local_version = section1(s)
    wanted_sn = reference_normalize(D, number or 0, centre or 0, subcentre or 0, version or 33, local_version or 0)[0]
    fresh = fresh_decode(None, s)
    check('decode.sample.{}.key'.format(name), fresh[1][0], TableGroupKey(D, *wanted_sn))
    POOL.append((name, None, s, fresh))
for name, (s, wanted_key, wanted_values) in sorted(HAND_MESSAGES.items()):
    fresh = fresh_decode(ROOT, s)
    check('decode.hand.{}.key'.format(name), fresh[1][0], wanted_key)
    check('decode.hand.{}.values'.format(name), fresh[1][1], repr([wanted_values]))
    POOL.append((name, ROOT, s, fresh))
# failing ones: default version missing under table 10; truncated
for name, root, s in [('default version missing', ROOT, build_message(9, 1, 33, 4, number=10)),
                      ('truncated', None, SAMPLES['jaso_214'][:200])]:
    fresh = fresh_decode(root, s)
    check('decode.failing.{}'.format(name), fresh[0], 'raise')
    POOL.append((name, root, s, fresh))
check('decode.failing.kind', [f[1] for n, r, s, f in POOL[-2:]], ['FileNotFoundError', 'BitReadError'])

for limit in (1, 2, real_limit):
    for cache_max in (None, 0, 1, 2, 100):
        tables_module.MAXIMUM_NUMBER_OF_CACHED_TABLE_GROUPS = limit
        TableGroupCacheManager._TABLE_GROUP_CACHE = TableGroupCache()
        decoders = {None: Decoder(compiled_template_cache_max=cache_max),
                    ROOT: Decoder(tables_root_dir=ROOT, compiled_template_cache_max=cache_max)}
        order = list(range(len(POOL)))
        schedule = order + order[::-1] + order[::3] + order[1::3] + order[2::3]
        bad = 0
        for i in schedule:
            name, root, s, fresh = POOL[i]
            if decode(decoders[root], s) != fresh:
                bad += 1
                print('   differs from fresh:', name)
        check('decode.history[limit {}, compiled {}] same as fresh ({} steps)'.format(limit, cache_max, len(schedule)), bad, 0)
tables_module.MAXIMUM_NUMBER_OF_CACHED_TABLE_GROUPS = real_limit
TableGroupCacheManager._TABLE_GROUP_CACHE = TableGroupCache()

shutil.rmtree(ROOT, ignore_errors=True)
print('{} checks, {} failed'.format(N_CHECKS[0], len(FAILURES)))
sys.exit(1 if FAILURES else 0)
