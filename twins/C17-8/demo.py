import os, sys; sys.path.insert(0, os.getcwd())
"""
Differential demonstration for refactor 8 (generate_bufr_message: the scanned string and the position
in it become a small cursor class, the resynchronisation after an error a method of it).

Streams are assembled from hand-packed messages (all field values, lengths and defects known by
construction) with junk between them. For every stream and every combination of
info_only x continue_on_error x filter x ignore_value_expectation the library is compared with a
model of the documented scanning rules written here, on

* the sequence of decoder.process calls (offset in the stream, metadata-only or not, extra arguments),
* the messages yielded (their bytes: declared length in metadata-only mode, decoded extent otherwise),
* the number of "Continuing on next message" lines on stderr and the exception that ends the scan.

The sample files under tests/data are scanned as well; there the expected spans come from reading the
declared lengths directly from the bytes.

Run from the worktree root:  /venv/bin/python _out/8/demo.py     (exit status 0 = all checks passed)
"""
import contextlib
import glob
import io
import itertools
import logging

import pybufrkit
from pybufrkit.decoder import Decoder, generate_bufr_message
from pybufrkit.errors import PyBufrKitError, BitReadError
from pybufrkit.mdquery import MetadataExprParser, MetadataQuerent

assert os.path.dirname(os.path.abspath(pybufrkit.__file__)) == os.path.join(os.getcwd(), 'pybufrkit'), \
    'run from the worktree root'

logging.disable(logging.CRITICAL)  # the warnings about table definitions are not what is compared here

N_CHECKS = [0]


def check(condition, what):
    N_CHECKS[0] += 1
    if not condition:
        print('FAILED: {}'.format(what))
        sys.exit(1)


# ---------------------------------------------------------------------------------------------
# Messages packed by hand
# ---------------------------------------------------------------------------------------------
def pack(fields):
    """fields: list of (nbits, int) -> bytes (total must be whole octets)"""
    total, acc = 0, 0
    for nbits, value in fields:
        assert 0 <= value < (1 << nbits), (nbits, value)
        acc = (acc << nbits) | value
        total += nbits
    assert total % 8 == 0
    return acc.to_bytes(total // 8, 'big')


class Msg(object):
    """A message and what is known about it by construction"""

    def __init__(self, kind, marker, edition=4, category=0, section2=None):
        self.kind, self.marker, self.edition, self.category = kind, marker, edition, category
        self.n_subsets = {'baddata': 1000, 'nosubsets': 0}.get(kind, 1)
        descriptors = (1001, 1002)
        data = b'' if kind == 'nosubsets' else b'\x12\x34\x80'
        has2 = section2 is not None
        year = 2021 if edition == 4 else 21
        if edition == 4:
            head = [(24, 22), (8, 0), (16, 260), (16, 513), (8, 3)]
            tail = [(8, category), (8, 6), (8, 7), (8, 25), (8, 0), (16, year)]
        elif edition == 3:
            head = [(24, 18), (8, 0), (8, 9), (8, 98), (8, 3)]
            tail = [(8, category), (8, 7), (8, 13), (8, 0), (8, year)]
        else:
            assert edition == 2
            head = [(24, 18), (8, 0), (16, 98), (8, 3)]
            tail = [(8, category), (8, 7), (8, 13), (8, 0), (8, year)]
        s1 = pack(head + [(1, int(has2)), (7, 0)] + tail + [(8, 11), (8, 30), (8, 23), (8, 59), (8, marker)])
        s2 = pack([(24, 4 + len(section2)), (8, 0)]) + section2 if has2 else b''
        n3 = 7 + 2 * len(descriptors)
        s3 = pack([(24, 5 if kind == 'bads3' else n3), (8, 0), (16, self.n_subsets), (8, 0x80)]) + \
            b''.join(pack([(2, d // 100000), (6, d // 1000 % 100), (8, d % 1000)]) for d in descriptors)
        s4 = pack([(24, 4 + len(data)), (8, 0)]) + data
        body = s1 + s2 + s3 + s4 + (b'6666' if kind == 'badend' else b'7777')
        self.actual = 8 + len(body)
        self.declared = self.actual + {'long': 5, 'short': -10}.get(kind, 0)
        self.bytes = b'BUFR' + pack([(24, self.declared), (8, edition)]) + body
        assert self.bytes.count(b'BUFR') == 1 and len(self.bytes) == self.actual

    def fails(self, info_only, ignore):
        """Whether decoding this message fails (with a PyBufrKitError)"""
        if self.kind == 'bads3':  # section 3 declares less than it holds
            return True
        if info_only:
            return False
        return self.kind == 'baddata' or (self.kind == 'badend' and not ignore)


class Fail(Exception):
    """What PyBufrKitError is in the library"""


def model(stream, catalog, info_only, continue_on_error, wanted_category, ignore, calls, errors):
    """
    The scanning rules, as a generator of (offset, bytes of the message, fully decoded?).

    * a message starts at the next start signature at or behind the position;
    * with a filter the metadata are decoded first; what is selected is decoded again in full unless only
      metadata are asked for;
    * in metadata-only mode the message extends over its declared length, otherwise over what was decoded
      (for a message of which only the metadata were decoded: up to the end of the data section);
    * a category 11 message with subsets is decoded in full even if the filter rejects it;
    * after an error (if errors are to be survived): one byte on in metadata-only mode, else by the declared
      length if the metadata can be decoded, else one byte on.
    """
    def decode(pos, info):
        calls.append((pos, info))
        m = catalog.get(pos)
        if m is None or m.fails(info, ignore):
            raise Fail()
        return m

    pos = 0
    while pos < len(stream):
        pos = stream.find(b'BUFR', pos)
        if pos == -1:
            break
        try:
            if wanted_category is not None:
                m = decode(pos, True)
                selected = m.category == wanted_category
                full = selected and not info_only
                if full:
                    decode(pos, False)
            else:
                m = decode(pos, info_only)
                selected, full = True, not info_only
            if info_only:
                extent = stream[pos: pos + m.declared]
            else:
                if m.category == 11 and m.n_subsets > 0 and not selected:
                    decode(pos, False)
                    full = True
                extent = m.bytes if full else m.bytes[:-4]
            start, pos = pos, pos + len(extent)
            if selected:
                yield start, extent, full
        except Fail:
            if not continue_on_error:
                raise
            errors.append(pos)
            if info_only:
                pos += 1
            else:
                try:
                    pos += decode(pos, True).declared
                except Fail:
                    pos += 1


class RecordingDecoder(Decoder):
    def __init__(self, stream_length):
        super(RecordingDecoder, self).__init__()
        self.stream_length = stream_length
        self.calls = []
        self.extras = []

    def process(self, s, *args, **kwargs):
        self.calls.append((self.stream_length - len(s), kwargs.get('info_only')))
        self.extras.append((args, {k: v for k, v in kwargs.items() if k != 'info_only'}))
        return super(RecordingDecoder, self).process(s, *args, **kwargs)


def drive(generator, throw_after, exception_type):
    """Exhaust a generator, throwing into it behind the given number of items; (items, how it ended)"""
    items = []
    try:
        while True:
            if throw_after is not None and len(items) == throw_after:
                throw_after = None
                items.append(generator.throw(exception_type('thrown in')))
            else:
                items.append(next(generator))
    except StopIteration:
        return items, 'exhausted'
    except (PyBufrKitError, Fail) as e:
        return items, 'error'


def run_both(stream, catalog, info_only, continue_on_error, wanted_category, ignore, label,
             throw_after=None, file_path=None):
    # the model
    calls, errors = [], []
    expected, expected_end = drive(
        model(stream, catalog, info_only, continue_on_error, wanted_category, ignore, calls, errors), throw_after, Fail)

    # the library
    decoder = RecordingDecoder(len(stream))
    filter_expr = None if wanted_category is None else '${%data_category} == ' + str(wanted_category)
    args = (info_only, continue_on_error, filter_expr) + (() if file_path is None else (file_path,))
    kwargs = {'ignore_value_expectation': True} if ignore else {}
    stderr = io.StringIO()
    with contextlib.redirect_stderr(stderr):
        got, got_end = drive(generate_bufr_message(decoder, stream, *args, **kwargs), throw_after, PyBufrKitError)

    label = '{} info_only={} continue={} filter={} ignore={} throw={}'.format(
        label, info_only, continue_on_error, wanted_category, ignore, throw_after)
    check(decoder.calls == calls, 'decoder calls {}:\n  got  {}\n  want {}'.format(label, decoder.calls, calls))
    check(got_end == expected_end, 'how the scan ends {}: {} / {}'.format(label, got_end, expected_end))
    check(len(got) == len(expected), 'number of messages {}: {} / {}'.format(label, len(got), len(expected)))
    querent = MetadataQuerent(MetadataExprParser())
    for bufr_message, (start, extent, full) in zip(got, expected):
        m = catalog[start]
        check(bufr_message.serialized_bytes == extent, 'bytes of the message at {} {}'.format(start, label))
        check(hasattr(bufr_message, '_template_data') == full, 'decoded in full or not, at {} {}'.format(start, label))
        check([s.get_metadata('index') for s in bufr_message.sections][-1] == (5 if full else 4), 'last section')
        check((querent.query(bufr_message, '%length'), querent.query(bufr_message, '%0.edition'),
               querent.query(bufr_message, '%data_category'), querent.query(bufr_message, '%1.second'),
               querent.query(bufr_message, '%3.n_subsets')) ==
              (m.declared, m.edition, m.category, m.marker, m.n_subsets), 'metadata at {} {}'.format(start, label))
        check(bufr_message.filename == ('<string>' if file_path is None else file_path), 'file path')
    lines = [l for l in stderr.getvalue().splitlines() if l.startswith('Continuing on next message and ignoring error: Error: ')]
    check(len(lines) == len(errors) and len(lines) == len(stderr.getvalue().splitlines()),
          'lines on stderr {}: {} / {}'.format(label, len(lines), len(errors)))
    expected_extra = (() if file_path is None else (file_path,),
                      dict({'start_signature': None}, **kwargs))
    check(all(extra == expected_extra for extra in decoder.extras), 'extra arguments reach every call {}'.format(label))
    return len(got), len(errors)


def make_stream(parts):
    stream, catalog = b'', {}
    for part in parts:
        if isinstance(part, Msg):
            catalog[len(stream)] = part
            stream += part.bytes
        else:
            stream += part
    return stream, catalog


def part_model():
    counter = itertools.count(1)
    M = lambda kind='good', **kw: Msg(kind, next(counter), **kw)

    streams = {
        'empty': [],
        'no signature': [b'nothing here, BUF and UFR only'],
        'one': [M()],
        'junk around': [b'\x00\x01junk', M(edition=3), b'in between', M(edition=2, section2=b'\x01\x02'), b'trailing BUF'],
        'back to back': [M(category=2), M(category=0), M(category=2, section2=b''), M(category=2)],
        'damaged data': [M(category=2), M('baddata', category=2), b'xx', M('baddata'), M(category=2), M('baddata', category=2)],
        'damaged end': [M('badend', category=2), M(category=2), b'..', M('badend', edition=3), M('badend', category=2)],
        'damaged section 3': [M('bads3', category=2), M(category=2), M('bads3'), b'junk', M('bads3', category=2), M()],
        'first fails': [M('bads3'), M(category=2)],
        'truncated end': [M(category=2), b'BUFR\x00\x00'],
        'only a signature': [b'BUFR'],
        'signature at the very end': [M(), b'....BUFR'],
        'declared too long': [M('long', category=2), M(category=2), M(), b'pad', M('long'), b'abc'],
        'declared too short': [M('short', category=2), M(category=2), M('short'), M()],
        'declared too long at the end': [M(), M('long', category=2)],
        'category 11': [M(category=11), M(category=2), M('nosubsets', category=11), b'--', M(category=11, edition=3), M()],
        'category 11 damaged': [M('baddata', category=11), M(category=2), M('badend', category=11), M(category=11)],
        'mixture': [b'x', M('badend', category=2), M('long', category=2), b'BUF', M('baddata', category=11), M('bads3', category=2),
                    M(category=2, section2=b'local'), M('short'), M('nosubsets', category=2), b'BUFR'],
    }
    for parts in streams.values():
        # a stray signature is only ever the last thing in a stream: what follows it cannot be mistaken for its sections
        stream, catalog = make_stream(parts)
        for i, part in enumerate(parts):
            if not isinstance(part, Msg) and b'BUFR' in part:
                assert i == len(parts) - 1 and part.count(b'BUFR') == 1
        assert stream.count(b'BUFR') == len(catalog) + (1 if parts and not isinstance(parts[-1], Msg) and b'BUFR' in parts[-1] else 0)

    totals = [0, 0]
    for label, parts in streams.items():
        stream, catalog = make_stream(parts)
        for info_only, continue_on_error, wanted_category, ignore in itertools.product(
                (False, True), (False, True), (None, 2, 11, 99), (False, True)):
            n, e = run_both(stream, catalog, info_only, continue_on_error, wanted_category, ignore, label)
            totals[0] += n
            totals[1] += e
    check(totals[0] > 400 and totals[1] > 150, 'the streams reach both the yields and the error path: {}'.format(totals))

    # extra positional argument (the file path) reaches every decode, also the one that resynchronises
    for label in ('damaged data', 'mixture', 'category 11 damaged'):
        stream, catalog = make_stream(streams[label])
        for info_only, wanted_category in itertools.product((False, True), (None, 2)):
            run_both(stream, catalog, info_only, True, wanted_category, False, label, file_path='some/file.bufr')

    # an error thrown in by the consumer at a yield is handled like one of the decoder: the scan goes on
    # from where it had got to (behind the message just yielded)
    for label in ('junk around', 'truncated end', 'one', 'declared too long'):
        stream, catalog = make_stream(streams[label])
        for info_only, continue_on_error, throw_after in itertools.product((False, True), (False, True), (1, 2)):
            run_both(stream, catalog, info_only, continue_on_error, None, False, label, throw_after=throw_after)
    # ... and with nothing between two messages the second one is what the resynchronisation steps over
    stream, catalog = make_stream(streams['back to back'])
    for info_only, throw_after in itertools.product((False, True), (1, 2, 3)):
        run_both(stream, catalog, info_only, True, None, False, 'back to back', throw_after=throw_after)


# ---------------------------------------------------------------------------------------------
# Other things the generator does with its arguments
# ---------------------------------------------------------------------------------------------
def part_arguments():
    decoder = Decoder()
    good = Msg('good', 77).bytes

    # nothing happens before the first item is asked for; the string is only looked at then
    generator = generate_bufr_message(decoder, None)
    try:
        next(generator)
        check(False, 'None cannot be scanned')
    except TypeError:
        check(True, 'TypeError for None')
    generator = generate_bufr_message(decoder, u'BUFR as text')
    try:
        next(generator)
        check(False, 'text cannot be scanned for a bytes signature')
    except TypeError:
        check(True, 'TypeError for text')
    check(list(generate_bufr_message(decoder, b'')) == [], 'empty string')
    check(list(generate_bufr_message(decoder, bytearray())) == [], 'empty bytearray')

    # a bytearray is scanned like bytes; the extent is a slice of it
    for info_only in (False, True):
        messages = list(generate_bufr_message(decoder, bytearray(b'..' + good + b'..' + good), info_only=info_only))
        check([bytes(m.serialized_bytes) for m in messages] == [good, good], 'bytearray stream info_only={}'.format(info_only))
        check(all(isinstance(m.serialized_bytes, bytearray) for m in messages), 'slices of the bytearray')

    # errors that are not PyBufrKitError pass through whatever continue_on_error says: edition 1 has no
    # section 2 flag among the message properties -> AttributeError
    edition1 = b'BUFR' + pack([(24, 50), (8, 1)]) + b'\x00' * 42
    for info_only in (False, True):
        generator = generate_bufr_message(decoder, good + edition1 + good, info_only=info_only, continue_on_error=True)
        check(bytes(next(generator).serialized_bytes) == good, 'first message before the edition 1 one')
        try:
            next(generator)
            check(False, 'AttributeError expected')
        except AttributeError:
            check(True, 'AttributeError passes through')
        check(list(generator) == [], 'and the generator is finished')

    # a filter that cannot be compiled fails when the generator is started, one that cannot be evaluated at
    # the first message (not a PyBufrKitError either)
    generator = generate_bufr_message(decoder, good, filter_expr='1 +')
    try:
        next(generator)
        check(False, 'SyntaxError expected')
    except SyntaxError:
        check(True, 'SyntaxError of the filter')

    # unknown keyword for the decoder: TypeError from the very first decode, also when errors are survived
    for info_only in (False, True):
        try:
            list(generate_bufr_message(decoder, good, info_only=info_only, continue_on_error=True, no_such_option=1))
            check(False, 'TypeError expected')
        except TypeError:
            check(True, 'TypeError for an unknown decoder option')

    # the error that ends the scan is the decoder's own, unchanged
    stream = good + Msg('baddata', 5).bytes
    for info_only, expected_count in ((True, 2), (False, 1)):
        got = []
        try:
            for m in generate_bufr_message(decoder, stream, info_only=info_only):
                got.append(m)
            ended = None
        except PyBufrKitError as e:
            ended = e
        check(len(got) == expected_count, 'messages before the error, info_only={}'.format(info_only))
        check((ended is None) == info_only and (info_only or isinstance(ended, BitReadError)), 'the BitReadError itself')


# ---------------------------------------------------------------------------------------------
# The sample files: declared lengths read directly from the bytes
# ---------------------------------------------------------------------------------------------
def part_samples():
    decoder = Decoder()
    for fname in sorted(glob.glob(os.path.join('tests', 'data', '*.bufr'))):
        with open(fname, 'rb') as ins:
            s = ins.read()
        spans, pos = [], 0
        while True:
            pos = s.find(b'BUFR', pos)
            if pos < 0:
                break
            declared = int.from_bytes(s[pos + 4: pos + 7], 'big')
            spans.append((pos, declared, s[pos + 7]))
            pos += declared
        messages = list(generate_bufr_message(decoder, s, info_only=True))
        check(len(messages) == len(spans), 'number of messages in {}'.format(fname))
        for m, (pos, declared, edition) in zip(messages, spans):
            check(m.serialized_bytes == s[pos: pos + declared], 'span by declared length in {}'.format(fname))
            check((m.length.value, m.edition.value) == (declared, edition), 'length and edition in {}'.format(fname))
            check([sec.get_metadata('index') for sec in m.sections][-1] == 4 and not hasattr(m, '_template_data'),
                  'metadata only in {}'.format(fname))
            # the same message decoded on its own agrees
            alone = decoder.process(s[pos:], info_only=True)
            check([[(p.name, p.value) for p in sec] for sec in alone.sections] ==
                  [[(p.name, p.value) for p in sec] for sec in m.sections], 'same values as a direct decode in {}'.format(fname))

    # full decode of the well-formed multi-message samples: every message ends where its declared length says
    for fname, n in (('ISMD01_OKPR.bufr', 4), ('asr3_190.bufr', 3), ('prepbufr.bufr', 13)):
        with open(os.path.join('tests', 'data', fname), 'rb') as ins:
            s = ins.read()
        messages = list(generate_bufr_message(decoder, s))
        check(len(messages) == n, 'all {} messages of {}'.format(n, fname))
        pos = 0
        for m in messages:
            pos = s.find(b'BUFR', pos)
            check(m.serialized_bytes == s[pos: pos + m.length.value] and m.serialized_bytes.endswith(b'7777'),
                  'extent of a fully decoded message in {}'.format(fname))
            pos += m.length.value

    # the three messages of multi_invalid_messages.bufr: two of them cannot be decoded in full
    with open(os.path.join('tests', 'data', 'multi_invalid_messages.bufr'), 'rb') as ins:
        s = ins.read()
    starts = [0, 522, 616]
    check([i for i in range(len(s)) if s.startswith(b'BUFR', i)] == starts, 'three signatures')
    stderr = io.StringIO()
    with contextlib.redirect_stderr(stderr):
        messages = list(generate_bufr_message(decoder, s, continue_on_error=True))
    check([m.serialized_bytes for m in messages] == [s[522:616]], 'the good one in the middle')
    check(len(stderr.getvalue().splitlines()) == 2, 'two errors reported')
    messages = list(generate_bufr_message(decoder, s, filter_expr='${%data_category} == 2'))
    check([m.serialized_bytes for m in messages] == [s[522:616]], 'filtered: the others are never decoded in full')
    messages = list(generate_bufr_message(decoder, s, filter_expr='${%data_category} != 2', info_only=True))
    check([m.serialized_bytes for m in messages] == [s[0:522], s[616:]], 'filtered, metadata only')


if __name__ == '__main__':
    part_model()
    part_arguments()
    part_samples()
    print('OK: {} checks passed'.format(N_CHECKS[0]))
