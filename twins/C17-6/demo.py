import os, sys; sys.path.insert(0, os.getcwd())
"""
Differential demonstration for refactor 6 (generate_bufr_message).

Two kinds of expectations, both independent of the function under test:

* hand computed ones: the streams are assembled here from hand packed messages,
  so the offset and the declared length of every message are known; what a scan
  has to yield (which messages, with which bytes) follows from the rules of the
  property and is written down as plain lists;
* a trace comparison with ``reference_generate``, a verbatim copy of the
  function as it stands in the unpatched tree, run with a recording decoder:
  the sequence of ``decoder.process`` calls (arguments included), of table
  registrations, of yields, of lines on stderr and the final exception must be
  the same.

Exits 0 when every check holds, both on the unpatched and the patched tree.
"""
import contextlib
import io
import json
import logging
import re
from collections import OrderedDict

import pybufrkit
import pybufrkit.decoder as decoder_module
from pybufrkit.constants import MESSAGE_START_SIGNATURE
from pybufrkit.dataprocessor import BufrTableDefinitionProcessor
from pybufrkit.decoder import Decoder, generate_bufr_message, DATA_CATEGORY_DEFINE_BUFR_TABLES
from pybufrkit.errors import PyBufrKitError, BitReadError
from pybufrkit.script import ScriptRunner
from pybufrkit.tables import TableGroupCacheManager, TableGroupCache

assert os.path.dirname(os.path.abspath(pybufrkit.__file__)) == os.path.join(os.getcwd(), 'pybufrkit'), \
    'the worktree copy of pybufrkit must be the one imported'

logging.getLogger().addHandler(logging.NullHandler())  # keep library warnings off the terminal
log = logging.getLogger('demo6.reference')
N_CHECKS = 0


def check(cond, what):
    global N_CHECKS
    N_CHECKS += 1
    if not cond:
        print('FAILED: {}'.format(what))
        sys.exit(1)


# ---------------------------------------------------------------------------
# The function as it is in the unpatched tree (verbatim, only the names it uses
# are the ones imported above)
# ---------------------------------------------------------------------------
def reference_generate(decoder, s, info_only=False, continue_on_error=False, filter_expr=None,
                       *args, **kwargs):
    sr = ScriptRunner(filter_expr, mode='eval') if filter_expr is not None else None
    idx_start = 0
    while idx_start < len(s):
        idx_start = s.find(MESSAGE_START_SIGNATURE, idx_start)
        if idx_start < 0:
            return
        try:
            matched = True
            if filter_expr:
                bufr_message = decoder.process(
                    s[idx_start:], start_signature=None, info_only=True, *args, **kwargs
                )
                matched = sr.run(bufr_message)
                if matched and not info_only:
                    bufr_message = decoder.process(
                        s[idx_start:], start_signature=None, info_only=False, *args, **kwargs
                    )
            else:
                bufr_message = decoder.process(
                    s[idx_start:], start_signature=None, info_only=info_only, *args, **kwargs
                )
            # If data section is not decoded, we rely on the declared length for the message length
            if info_only:
                bufr_message.serialized_bytes = s[idx_start: idx_start + bufr_message.length.value]
            else:
                if (bufr_message.data_category.value == DATA_CATEGORY_DEFINE_BUFR_TABLES
                        and bufr_message.n_subsets.value > 0):
                    if not matched:
                        bufr_message = decoder.process(
                            s[idx_start:], start_signature=None, info_only=False, *args, **kwargs
                        )
                    try:
                        _, b_entries, d_entries = BufrTableDefinitionProcessor().process(bufr_message)
                    except PyBufrKitError as e:
                        log.warning('No table definitions taken from the message: {}'.format(e))
                    else:
                        TableGroupCacheManager.invalidate()
                        TableGroupCacheManager.add_extra_entries(b_entries, d_entries)
                        if getattr(decoder, 'compiled_template_manager', None):
                            decoder.compiled_template_manager.cache.clear()
            idx_start += len(bufr_message.serialized_bytes)

            if matched:
                yield bufr_message

        except PyBufrKitError as e:
            if not continue_on_error:
                raise e
            print('Continuing on next message and ignoring error: {}'.format(e), file=sys.stderr)
            if info_only:
                idx_start += 1
            else:
                try:
                    bufr_message = decoder.process(
                        s[idx_start:], start_signature=None, info_only=True, *args, **kwargs)
                    idx_start += bufr_message.length.value
                except PyBufrKitError:
                    idx_start += 1


# ---------------------------------------------------------------------------
# Packing messages by hand from the JSON layouts (read here, not through the library)
# ---------------------------------------------------------------------------
DEFINITIONS_DIR = os.path.join(os.getcwd(), 'pybufrkit', 'definitions')
FNAME_RE = re.compile(r'^section(\d+)(?:-(\d+))?\.json$')
DEFS = {}
for _fname in sorted(os.listdir(DEFINITIONS_DIR)):
    _m = FNAME_RE.match(_fname)
    if _m:
        with open(os.path.join(DEFINITIONS_DIR, _fname)) as _ins:
            DEFS.setdefault(int(_m.group(1)), {})[None if _m.group(2) is None else int(_m.group(2))] = json.load(_ins)


def layout(section_index, edition):
    by_edition = DEFS[section_index]
    return by_edition[edition] if edition in by_edition else by_edition[None]


def pack(fields):
    bits = ''
    for value, nbits in fields:
        if isinstance(value, bytes):
            bits += ''.join('{:08b}'.format(b) for b in bytearray(value))
        elif isinstance(value, str):
            bits += value
        else:
            assert 0 <= int(value) < (1 << nbits)
            bits += '{:0{}b}'.format(int(value), nbits)
    bits += '0' * (-len(bits) % 8)
    return bytes(bytearray(int(bits[i:i + 8], 2) for i in range(0, len(bits), 8)))


DESCRIPTORS = [1001, 1002]  # 7 bits and 10 bits


def build_message(edition, with_section2=False, data_category=0, n_subsets=1, station=936,
                  damaged_data=False, declared_length_delta=0):
    """Return (bytes, {name: value} of the sections 0, 1 and 3)."""
    values = {'edition': edition, 'data_category': data_category, 'n_subsets': n_subsets,
              'is_section2_presents': bool(with_section2), 'master_table_version': 13,
              'year': 2026 if edition == 4 else 26, 'month': 9, 'day': 29, 'originating_centre': 7,
              'is_observation': True, 'unexpanded_descriptors': list(DESCRIPTORS)}
    chunks = []
    for index in (1, 2, 3, 4, 5):
        if index == 2 and not with_section2:
            continue
        fields, tail = [], b''
        for p in layout(index, edition)['parameters']:
            name, nbits, typ = p['name'], p['nbits'], p['type']
            if typ == 'unexpanded_descriptors':
                tail = pack(sum([[(d // 100000, 2), (d // 1000 % 100, 6), (d % 1000, 8)] for d in DESCRIPTORS], []))
            elif typ == 'template_data':
                tail = b'' if damaged_data else pack([(71, 7), (station, 10)] * n_subsets)
            elif nbits == 0:
                tail = b'\xab\xcd'
            elif typ == 'bytes':
                fields.append((p['expected'].encode('ascii'), nbits))
            elif typ == 'bin':
                fields.append(('0' * nbits, nbits))
            else:
                fields.append((values.get(name, 0), nbits))
        names = [p['name'] for p in layout(index, edition)['parameters']]
        if 'section_length' in names:
            fields[0] = ((sum(n for _, n in fields) + 7) // 8 + len(tail), 24)
        chunks.append(pack(fields) + tail)
    body = b''.join(chunks)
    values['length'] = 8 + len(body) + declared_length_delta
    return b'BUFR' + pack([(values['length'], 24), (edition, 8)]) + body, values


def fingerprint(message):
    """Everything a caller can read from a message, as plain comparable data."""
    sections = []
    for section in message.sections:
        params = []
        for parameter in section:
            value = parameter.value
            if parameter.type == 'template_data':
                value = ('TEMPLATE_DATA', repr(value.decoded_values_all_subsets),
                         repr(value.decoded_descriptors_all_subsets))
            params.append((parameter.name, value, parameter.expected))
        sections.append((section.get_metadata('index'), section.get_metadata('end_of_message'), params))
    return (message.filename, message.serialized_bytes, sections)


# ---------------------------------------------------------------------------
# Recording harness
# ---------------------------------------------------------------------------
class RecordingDecoder(Decoder):
    def __init__(self, trace, *args, **kwargs):
        super(RecordingDecoder, self).__init__(*args, **kwargs)
        self.trace = trace

    def process(self, s, *args, **kwargs):
        self.trace.append(('process', len(s), s[:12], args, sorted(kwargs.items())))
        try:
            ret = super(RecordingDecoder, self).process(s, *args, **kwargs)
        except BaseException as e:
            self.trace.append(('process raised', type(e), str(e)))
            raise
        self.trace.append(('process returned', len(ret.serialized_bytes), len(ret.sections)))
        return ret


class RecordingCache(dict):
    def __init__(self, trace):
        super(RecordingCache, self).__init__()
        self.trace = trace

    def clear(self):
        self.trace.append(('compiled cache cleared', len(self)))
        super(RecordingCache, self).clear()


class TraceHandler(logging.Handler):
    def __init__(self, trace):
        logging.Handler.__init__(self)
        self.trace = trace

    def emit(self, record):
        if record.levelno >= logging.WARNING:
            self.trace.append(('log', record.levelname, record.getMessage()))


def run(func, data, compiled=False, limit=None, **kwargs):
    """
    Run a scan with a fresh table cache and a recording decoder.
    Return (list of fingerprints, trace, final exception or None).
    """
    positional = kwargs.pop('positional', ())
    trace = []
    TableGroupCacheManager._TABLE_GROUP_CACHE = TableGroupCache()
    original_invalidate = TableGroupCacheManager.__dict__['invalidate']
    original_add = TableGroupCacheManager.__dict__['add_extra_entries']

    def invalidate(cls):
        trace.append(('invalidate',))
        cls._TABLE_GROUP_CACHE.invalidate()

    def add_extra_entries(cls, b_entries, d_entries):
        trace.append(('add_extra_entries', sorted(b_entries), sorted(d_entries),
                      repr(sorted(b_entries.items()))[:2000]))
        cls._TABLE_GROUP_CACHE.add_extra_entries(b_entries, d_entries)

    TableGroupCacheManager.invalidate = classmethod(invalidate)
    TableGroupCacheManager.add_extra_entries = classmethod(add_extra_entries)
    handlers = [(logging.getLogger(name), TraceHandler(trace)) for name in (decoder_module.log.name, log.name)]
    for logger, handler in handlers:
        logger.addHandler(handler)
    decoder = RecordingDecoder(trace, compiled_template_cache_max=20) if compiled else RecordingDecoder(trace)
    if compiled:
        decoder.compiled_template_manager.cache = RecordingCache(trace)
    stderr = io.StringIO()
    messages, error = [], None
    try:
        with contextlib.redirect_stderr(stderr):
            try:
                for message in func(decoder, data, *positional, **kwargs):
                    trace.append(('yield', len(message.serialized_bytes)))
                    messages.append(fingerprint(message))
                    if limit is not None and len(messages) >= limit:
                        break
            except Exception as e:
                error = e
                trace.append(('raised', type(e), str(e)))
    finally:
        TableGroupCacheManager.invalidate = original_invalidate
        TableGroupCacheManager.add_extra_entries = original_add
        for logger, handler in handlers:
            logger.removeHandler(handler)
    trace.append(('stderr', stderr.getvalue()))
    trace.append(('extra entries', bool(TableGroupCacheManager.has_extra_entries())))
    TableGroupCacheManager._TABLE_GROUP_CACHE = TableGroupCache()
    return messages, trace, error


def last(trace, key):
    return [t for t in trace if t[0] == key][-1][1]


def differential(label, data, **kwargs):
    got = run(generate_bufr_message, data, **dict(kwargs))
    ref = run(reference_generate, data, **dict(kwargs))
    check(got[0] == ref[0], label + ': same messages as the reference')
    if got[1] != ref[1]:
        for a, b in zip(got[1], ref[1]):
            if a != b:
                print('   got', a)
                print('   ref', b)
                break
    check(got[1] == ref[1], label + ': same trace as the reference')
    check(type(got[2]) is type(ref[2]) and str(got[2]) == str(ref[2]), label + ': same final exception')
    return got


def spans(messages):
    """Offsets cannot be read from a message, its bytes can."""
    return [m[1] for m in messages]


def values_of(fp, index):
    for idx, _, params in fp[2]:
        if idx == index:
            return OrderedDict((name, value) for name, value, _ in params)
    return None


# ---------------------------------------------------------------------------
# Streams
# ---------------------------------------------------------------------------
m2, v2 = build_message(2, with_section2=True, data_category=2, station=101)
m3, v3 = build_message(3, data_category=4, station=202)
m4, v4 = build_message(4, with_section2=True, data_category=2, station=303, n_subsets=2)
bad3, vbad3 = build_message(3, data_category=4, damaged_data=True)  # lengths consistent, data missing
JUNK1, JUNK2, TAIL = b'\r\n\x01junk BUF', b'****', b'BUF\r\n'
reference_decoder = Decoder()

# --- 1. a clean stream -----------------------------------------------------
clean = JUNK1 + m2 + JUNK2 + m3 + m4 + TAIL
for info_only in (False, True):
    label = 'clean stream info_only={}'.format(info_only)
    messages, trace, error = differential(label, clean, info_only=info_only)
    check(error is None, label + ': no error')
    check(spans(messages) == [m2, m3, m4], label + ': each message is its declared length worth of bytes')
    for fp, raw, values in zip(messages, (m2, m3, m4), (v2, v3, v4)):
        alone = fingerprint(reference_decoder.process(raw, info_only=info_only))
        if info_only:
            check(alone[1] == raw[:-4] and fp[1] == raw, label + ': bytes come from the declared length, not the decode')
            check(fp[2] == alone[2], label + ': sections as decoded alone')
            check([idx for idx, _, _ in fp[2]] == ([0, 1, 2, 3, 4] if values['is_section2_presents'] else [0, 1, 3, 4]),
                  label + ': section list')
            check(list(values_of(fp, 4)) == ['section_length', 'reserved_bits'], label + ': no data decoded')
        else:
            check(fp == alone, label + ': as decoded alone')
        full = fingerprint(reference_decoder.process(raw))
        for index in (0, 1, 2, 3):
            check(values_of(fp, index) == values_of(full, index), label + ': sections 0-3 agree with the full decode')
        for name in ('length', 'edition'):
            check(values_of(fp, 0)[name] == values[name], label + ': ' + name)
        for name in ('data_category', 'year', 'month', 'day', 'master_table_version', 'is_section2_presents'):
            check(values_of(fp, 1)[name] == values[name], label + ': ' + name)
        for name in ('n_subsets', 'unexpanded_descriptors', 'is_observation'):
            check(values_of(fp, 3)[name] == values[name], label + ': ' + name)
    n_process = len([t for t in trace if t[0] == 'process'])
    check(n_process == 3, label + ': one decode per message')
    check([t[4] for t in trace if t[0] == 'process'] ==
          [[('info_only', info_only), ('start_signature', None)]] * 3, label + ': arguments of the decodes')
    check([t[1] for t in trace if t[0] == 'process'] ==
          [len(clean) - clean.index(m) for m in (m2, m3, m4)], label + ': each decode starts at a signature')

# generator stops cleanly when abandoned half way
messages, trace, error = differential('abandoned scan', clean, limit=1)
check(spans(messages) == [m2] and error is None, 'abandoned scan: first message only')

# empty stream, no signature at all, signature at the very end
for data in (b'', b'no message here', b'xxBUFR', b'BUFR'):
    for info_only in (False, True):
        for coe in (False, True):
            label = 'degenerate {!r} info_only={} continue={}'.format(data, info_only, coe)
            messages, trace, error = differential(label, data, info_only=info_only, continue_on_error=coe)
            check(messages == [], label + ': nothing yielded')
            if b'BUFR' in data and not coe:
                check(type(error) is BitReadError, label + ': a truncated head is an error')
            else:
                check(error is None, label + ': no error')

# --- 2. filters ------------------------------------------------------------
for filter_expr, wanted in (('${%data_category} == 2', [m2, m4]), ('${%edition} == 3', [m3]),
                            ('${%3.n_subsets} > 5', []), ('${%length} > 0', [m2, m3, m4])):
    for info_only in (False, True):
        label = 'filter {!r} info_only={}'.format(filter_expr, info_only)
        messages, trace, error = differential(label, clean, info_only=info_only, filter_expr=filter_expr)
        check(error is None and spans(messages) == wanted, label + ': the messages selected')
        calls = [dict(t[4])['info_only'] for t in trace if t[0] == 'process']
        if info_only:
            expected_calls = [True] * 3
        else:
            expected_calls = sum([[True, False] if m in wanted else [True] for m in (m2, m3, m4)], [])
        check(calls == expected_calls, label + ': metadata first, the full decode only for the selected')
        for fp in messages:
            has_data = any(name == 'template_data' for _, _, params in fp[2] for name, _, _ in params)
            check(has_data is (not info_only), label + ': data decoded unless metadata only')

for info_only in (False, True):
    # an empty filter is not None: it is compiled (and refused) before anything is scanned
    messages, trace, error = differential('empty filter', clean, info_only=info_only, filter_expr='')
    check(type(error) is SyntaxError and messages == [] and not [t for t in trace if t[0] == 'process'],
          'empty filter: SyntaxError from the script compiler')
    messages, trace, error = differential('filter that cannot be parsed', clean, info_only=info_only, filter_expr='${length}')
    check(error is not None and messages == [], 'filter that cannot be parsed: error')

# --- 3. extra arguments are handed to every decode --------------------------
label = 'keyword arguments'
messages, trace, error = differential(label, clean, info_only=True, file_path='somewhere.bufr',
                                      ignore_value_expectation=True)
check([fp[0] for fp in messages] == ['somewhere.bufr'] * 3, label + ': file_path')
check(all(exp is None for fp in messages for _, _, params in fp[2] for _, _, exp in params), label + ': expectations dropped')
label = 'positional arguments'
messages, trace, error = differential(label, clean, positional=(False, False, None, 'positional.bufr'))
check([fp[0] for fp in messages] == ['positional.bufr'] * 3 and spans(messages) == [m2, m3, m4], label + ': file_path')
check([t[3] for t in trace if t[0] == 'process'] == [('positional.bufr',)] * 3, label + ': passed positionally')
label = 'positional arguments with a filter'
messages, trace, error = differential(label, clean, positional=(False, False, '${%edition} > 2', 'positional.bufr'))
check([fp[0] for fp in messages] == ['positional.bufr'] * 2 and spans(messages) == [m3, m4], label + ': file_path')
for kwargs in (dict(start_signature=b'BUFR'), dict(positional=(False, False, None, 'p.bufr', b'BUFR')),
               dict(no_such_argument=1)):
    for info_only in (False, True):
        for coe in (False, True):
            label = 'clashing arguments {} {} {}'.format(sorted(kwargs), info_only, coe)
            if 'positional' in kwargs:
                # five positional arguments: the fifth lands on start_signature, which is also given by keyword
                messages, trace, error = differential(label, clean, positional=(info_only, coe) + kwargs['positional'][2:])
            else:
                messages, trace, error = differential(label, clean, info_only=info_only, continue_on_error=coe,
                                                      **dict(kwargs))
            check(type(error) is TypeError and messages == [], label + ': TypeError, whatever continue_on_error says')
    if 'positional' in kwargs:
        messages, trace, error = differential('clashing arguments with filter', clean,
                                              positional=(False, False, '1') + kwargs['positional'][3:])
    else:
        messages, trace, error = differential('clashing arguments with filter', clean, filter_expr='1', **dict(kwargs))
    check(type(error) is TypeError, 'clashing arguments with filter: TypeError')

# --- 4. a message whose data are damaged ------------------------------------
damaged = JUNK1 + m2 + bad3 + JUNK2 + m4 + TAIL
try:
    reference_decoder.process(bad3)
    check(False, 'the damaged message must not decode')
except PyBufrKitError:
    check(True, 'the damaged message does not decode')
label = 'damaged, metadata only'
for coe in (False, True):
    messages, trace, error = differential(label, damaged, info_only=True, continue_on_error=coe)
    check(error is None and spans(messages) == [m2, bad3, m4], label + ': all three, by declared length')
    check(last(trace, 'stderr') == '', label + ': nothing reported')
    check(values_of(messages[1], 3)['unexpanded_descriptors'] == DESCRIPTORS and
          values_of(messages[1], 1)['data_category'] == 4 and values_of(messages[1], 0)['length'] == len(bad3),
          label + ': metadata of the damaged one')
label = 'damaged, full decode, stop on error'
messages, trace, error = differential(label, damaged)
check(isinstance(error, PyBufrKitError) and spans(messages) == [m2], label + ': first message then the error')
label = 'damaged, full decode, continue'
messages, trace, error = differential(label, damaged, continue_on_error=True)
check(error is None and spans(messages) == [m2, m4], label + ': the damaged one is skipped by its declared length')
check(last(trace, 'stderr').count('Continuing on next message and ignoring error: ') == 1, label + ': reported once')
starts = [len(damaged) - t[1] for t in trace if t[0] == 'process']
check(starts == [damaged.index(m2), damaged.index(bad3), damaged.index(bad3), damaged.index(m4)],
      label + ': decode, failed decode, metadata of the failed one, next message')
check([dict(t[4])['info_only'] for t in trace if t[0] == 'process'] == [False, False, True, False], label + ': modes')
label = 'damaged, filter, continue'
messages, trace, error = differential(label, damaged, continue_on_error=True, filter_expr='${%data_category} >= 2')
check(error is None and spans(messages) == [m2, m4], label + ': same selection')
messages, trace, error = differential(label, damaged, continue_on_error=True, filter_expr='${%data_category} == 2')
check(error is None and spans(messages) == [m2, m4] and last(trace, 'stderr') == '',
      label + ': the damaged one is filtered out before its data are looked at')

# --- 5. not even the metadata can be decoded ---------------------------------
wrong_edition_expectation = b'BUFR\x00\x00\x30\x04' + b'\x00\x00\x05' + b'\x00' * 2  # section 1 shorter than its fixed part
truncated_head = b'BUFR\x00\x00'
broken = m3 + wrong_edition_expectation + JUNK2 + m4 + truncated_head
for info_only in (False, True):
    label = 'broken metadata info_only={}'.format(info_only)
    messages, trace, error = differential(label, broken, info_only=info_only)
    check(isinstance(error, PyBufrKitError) and spans(messages) == [m3], label + ': stops at the broken one')
    messages, trace, error = differential(label + ' continue', broken, info_only=info_only, continue_on_error=True)
    check(error is None and spans(messages) == [m3, m4], label + ': resumes one byte further, finds the next signature')
    check(last(trace, 'stderr').count('Continuing on next message') == 2, label + ': two reports')
    starts = [len(broken) - t[1] for t in trace if t[0] == 'process']
    if info_only:
        check(starts == [0, len(m3), broken.index(m4), len(broken) - len(truncated_head)], label + ': decode starts')
    else:
        check(starts == [0, len(m3), len(m3), broken.index(m4), len(broken) - len(truncated_head),
                         len(broken) - len(truncated_head)], label + ': decode starts (each failure retried for its length)')
# test file of the suite
with open(os.path.join('tests', 'data', 'multi_invalid_messages.bufr'), 'rb') as ins:
    multi = ins.read()
for kwargs, n in ((dict(continue_on_error=True), 1), (dict(filter_expr='${%data_category} == 2'), 1),
                  (dict(info_only=True), 3), (dict(info_only=True, continue_on_error=True), 3), (dict(), None)):
    label = 'multi_invalid_messages {}'.format(sorted(kwargs.items()))
    messages, trace, error = differential(label, multi, **dict(kwargs))
    if n is None:
        check(isinstance(error, PyBufrKitError), label + ': error')
    else:
        check(error is None and len(messages) == n, label + ': {} messages'.format(n))
    if kwargs.get('info_only'):
        check(spans(messages) == [multi[0:522], multi[522:616], multi[616:735]], label + ': cut at the declared lengths')

# --- 6. a declared total length that is wrong (metadata only scan trusts it) ---
long3, vlong3 = build_message(3, data_category=4, declared_length_delta=len(JUNK2) + 10)
short3, vshort3 = build_message(3, data_category=4, declared_length_delta=-6)
label = 'declared length too long'
stream = m2 + long3 + JUNK2 + m4 + m3 + TAIL
messages, trace, error = differential(label, stream, info_only=True)
start = len(m2)
check(error is None and spans(messages) == [m2, stream[start:start + vlong3['length']], m3],
      label + ': the bytes of the next message are taken along, its signature is stepped over')
messages, trace, error = differential(label + ' full', stream, continue_on_error=True)
check(error is None and spans(messages) == [m2, long3, m4, m3], label + ': the full decode goes by what it read')
label = 'declared length too short'
stream = m2 + short3 + m4 + TAIL
messages, trace, error = differential(label, stream, info_only=True)
check(error is None and spans(messages) == [m2, short3[:vshort3['length']], m4], label + ': cut short, next signature found')
label = 'declared length beyond the end'
stream = m2 + build_message(4, declared_length_delta=1000)[0]
messages, trace, error = differential(label, stream, info_only=True)
check(error is None and spans(messages) == [m2, stream[len(m2):]], label + ': whatever is left')

# --- 7. table definition messages (data category 11) -----------------------
with open(os.path.join('tests', 'data', 'prepbufr.bufr'), 'rb') as ins:
    prepbufr = ins.read()
ncep_tables, ncep_empty, ncep_data = prepbufr[0:4960], prepbufr[4968:4968 + 76], prepbufr[99608:99608 + 726]
check(ncep_tables[:4] == b'BUFR' and ncep_tables[-4:] == b'7777' and ncep_data[-4:] == b'7777', 'prepbufr slices')
ordinary11, _ = build_message(4, data_category=11, station=404)  # category 11 but not the NCEP layout
empty11, _ = build_message(4, data_category=11, n_subsets=0)
tables_stream = ordinary11 + empty11 + ncep_tables + ncep_empty + ncep_data + m3

_, expected_b, expected_d = BufrTableDefinitionProcessor().process(Decoder().process(ncep_tables))
try:
    BufrTableDefinitionProcessor().process(Decoder().process(ordinary11))
    check(False, 'the ordinary category 11 message defines no tables')
except PyBufrKitError as e:
    ordinary_complaint = str(e)

for compiled in (False, True):
    for filter_expr, wanted in ((None, [ordinary11, empty11, ncep_tables, ncep_empty, ncep_data, m3]),
                                ('${%data_category} != 11', [ncep_data, m3]),
                                ('${%data_category} == 11', [ordinary11, empty11, ncep_tables, ncep_empty])):
        label = 'tables compiled={} filter={!r}'.format(compiled, filter_expr)
        messages, trace, error = differential(label, tables_stream, compiled=compiled, filter_expr=filter_expr)
        check(error is None and spans(messages) == wanted, label + ': messages')
        check([t for t in trace if t[0] == 'invalidate'] == [('invalidate',)], label + ': one registration')
        added = [t for t in trace if t[0] == 'add_extra_entries']
        check(len(added) == 1 and added[0][1] == sorted(expected_b) and added[0][2] == sorted(expected_d) and
              added[0][3] == repr(sorted(expected_b.items()))[:2000], label + ': the entries of the NCEP message')
        check([t for t in trace if t[0] == 'log'] ==
              [('log', 'WARNING', 'No table definitions taken from the message: ' + ordinary_complaint)],
              label + ': the ordinary category 11 message is only warned about')
        check(last(trace, 'extra entries') is True, label + ': entries kept')
        cleared = [t for t in trace if t[0] == 'compiled cache cleared']
        check(len(cleared) == (1 if compiled else 0), label + ': compiled templates dropped with the registration')
        order = [t[0] for t in trace if t[0] in ('invalidate', 'add_extra_entries', 'compiled cache cleared')]
        check(order == ['invalidate', 'add_extra_entries'] + (['compiled cache cleared'] if compiled else []),
              label + ': order of the registration')
        modes = [(len(tables_stream) - t[1], dict(t[4])['info_only']) for t in trace if t[0] == 'process']
        offsets = [tables_stream.index(m) for m in (ordinary11, empty11, ncep_tables, ncep_empty, ncep_data, m3)]
        if filter_expr is None:
            check(modes == [(o, False) for o in offsets], label + ': decodes')
        elif '!=' in filter_expr:
            # rejected table messages with subsets are decoded in full all the same, the empty ones are not
            check(modes == [(offsets[0], True), (offsets[0], False), (offsets[1], True),
                            (offsets[2], True), (offsets[2], False), (offsets[3], True),
                            (offsets[4], True), (offsets[4], False), (offsets[5], True), (offsets[5], False)],
                  label + ': decodes')
        else:
            check(modes == [(offsets[0], True), (offsets[0], False), (offsets[1], True), (offsets[1], False),
                            (offsets[2], True), (offsets[2], False), (offsets[3], True), (offsets[3], False),
                            (offsets[4], True), (offsets[5], True)], label + ': decodes')
    label = 'tables compiled={} metadata only'.format(compiled)
    messages, trace, error = differential(label, tables_stream, compiled=compiled, info_only=True)
    check(error is None and spans(messages) == [ordinary11, empty11, ncep_tables, ncep_empty, ncep_data, m3],
          label + ': messages')
    check(not [t for t in trace if t[0] in ('invalidate', 'add_extra_entries', 'log', 'compiled cache cleared')],
          label + ': nothing registered')
    check(last(trace, 'extra entries') is False, label + ': no entries')
    messages, trace, error = differential(label + ' filter', tables_stream, compiled=compiled, info_only=True,
                                          filter_expr='${%data_category} != 11')
    check(error is None and spans(messages) == [ncep_data, m3] and
          not [t for t in trace if t[0] in ('invalidate', 'add_extra_entries', 'log')], label + ': filter, nothing registered')

# the data message of prepbufr needs the tables of the first: without them it cannot be decoded
messages, trace, error = differential('prepbufr data without its tables', ncep_data)
check(isinstance(error, PyBufrKitError) and messages == [], 'prepbufr data without its tables: error')
messages, trace, error = differential('prepbufr data with its tables', ncep_tables + ncep_data)
check(error is None and spans(messages) == [ncep_tables, ncep_data], 'prepbufr data with its tables: decoded')

print('demo 6: {} checks passed'.format(N_CHECKS))
