"""
Demo for refactor 4: ScriptRunner (construction, run, variables), the engine behind the
filter expression of generate_bufr_message.

With a filter expression the stream yields exactly the messages for which the expression is
true; the expression is evaluated on the metadata of each message.
"""
import os, sys; sys.path.insert(0, os.getcwd())
import itertools

from pybufrkit.decoder import Decoder, generate_bufr_message
from pybufrkit.script import ScriptRunner, process_embedded_query_expr

DATA = os.path.join(os.getcwd(), 'tests', 'data')


def rd(name):
    with open(os.path.join(DATA, name), 'rb') as ins:
        return ins.read()


def raises(exc_type, fn):
    try:
        fn()
    except exc_type as e:
        return e
    except BaseException as e:
        raise AssertionError('expected {} got {!r}'.format(exc_type.__name__, e))
    raise AssertionError('expected {} but nothing was raised'.format(exc_type.__name__))


decoder = Decoder()
G3 = rd('207003.bufr')        # edition 3, compressed, category 21, 244 bytes
G4 = rd('uegabe.bufr')        # edition 4, not compressed, category 2, 494 bytes
GC = rd('contrived.bufr')     # edition 4, not compressed, category 2, 94 bytes, 2 subsets
ISMD = [m.serialized_bytes for m in generate_bufr_message(decoder, rd('ISMD01_OKPR.bufr'), info_only=True)]
GZ = ISMD[0]                  # edition 4, compressed, category 0
n_checks = 0

META = {}
for key, blob in (('G3', G3), ('G4', G4), ('GC', GC), ('GZ', GZ)):
    m = decoder.process(blob, info_only=True)
    META[key] = dict(blob=blob, edition=m.edition.value, length=m.length.value,
                     data_category=m.data_category.value, is_compressed=m.is_compressed.value,
                     n_subsets=m.n_subsets.value, year=m.year.value)
assert [META[k]['edition'] for k in ('G3', 'G4', 'GC', 'GZ')] == [3, 4, 4, 4]
assert [META[k]['is_compressed'] for k in ('G3', 'G4', 'GC', 'GZ')] == [True, False, False, True]

# ---- construction ---------------------------------------------------------------------------
CONSTRUCT = [
    # source, substitutions, metadata_only
    ('True', {}, True),
    ('${%edition} == 4', {'%edition': 'PBK_0'}, True),
    ('${%edition} == 4 and ${%length} < 300 or ${ %edition } == 3',
     {'%edition': 'PBK_0', '%length': 'PBK_1'}, True),
    ('${001001}', {'001001': 'PBK_0'}, False),
    ('${%edition} + ${001001}[0]', {'%edition': 'PBK_0', '001001': 'PBK_1'}, False),
    ('${001001}[0] + ${%edition}', {'001001': 'PBK_0', '%edition': 'PBK_1'}, False),
    ('${%a}, ${%b}, ${/c}, ${%d}', {'%a': 'PBK_0', '%b': 'PBK_1', '/c': 'PBK_2', '%d': 'PBK_3'}, False),
    ('${}', {'': 'PBK_0'}, False),
    ('"${%edition}" + \'${001001}\'  # ${002002}', {}, True),     # quoted or commented: not a query
]
for source, substitutions, metadata_only in CONSTRUCT:
    for mode in ('eval', 'exec'):
        sr = ScriptRunner(source, mode=mode)
        assert sr.substitutions == substitutions and list(sr.substitutions) == list(substitutions)
        assert sr.metadata_only is metadata_only, source
        assert sr.mode == mode
        assert (sr.code_string, sr.substitutions) == process_embedded_query_expr(source)
        assert sr.pragma == {'data_values_nest_level': 1}
        assert type(sr.code_object).__name__ == 'code'
        n_checks += 1
sr = ScriptRunner('x = 1')
assert sr.mode == 'exec' and sr.metadata_only is True
sr = ScriptRunner('#$ data_values_nest_level = 2\nx = ${001001}')
assert sr.pragma == {'data_values_nest_level': 2} and sr.metadata_only is False
sr = ScriptRunner('#$ data_values_nest_level = 2\nx = ${001001}', data_values_nest_level=0)
assert sr.pragma == {'data_values_nest_level': 0}
n_checks += 3

# construction errors; what has been set before the failure stays visible on the object
assert isinstance(raises(SyntaxError, lambda: ScriptRunner('${%edition} ==', mode='eval')), SyntaxError)
assert isinstance(raises(SyntaxError, lambda: ScriptRunner('x = 1', mode='eval')), SyntaxError)
assert isinstance(raises(SyntaxError, lambda: ScriptRunner('', mode='eval')), SyntaxError)
assert isinstance(raises(SyntaxError, lambda: ScriptRunner('${%edition', mode='eval')), SyntaxError)
assert isinstance(raises(ValueError, lambda: ScriptRunner('1', mode='bogus')), ValueError)
assert isinstance(raises(TypeError, lambda: ScriptRunner('1', mode=None)), TypeError)
assert isinstance(raises(TypeError, lambda: ScriptRunner(None)), TypeError)
assert isinstance(raises(TypeError, lambda: ScriptRunner(0, mode='eval')), TypeError)
n_checks += 8

# ---- run, eval mode: the value of the expression ----------------------------------------------
info = {k: decoder.process(v['blob'], file_path=k + '.bufr', info_only=True) for k, v in META.items()}
full = {k: decoder.process(v['blob'], file_path=k + '.bufr') for k, v in META.items()}
for k, v in META.items():
    for msgs in (info, full):
        m = msgs[k]
        assert ScriptRunner('${%edition}', mode='eval').run(m) == v['edition']
        assert ScriptRunner('${%length}', mode='eval').run(m) == v['length'] == len(v['blob'])
        assert ScriptRunner('${%is_compressed}', mode='eval').run(m) is v['is_compressed']
        assert ScriptRunner('(${%data_category}, ${%n_subsets}, ${%year})', mode='eval').run(m) == \
            (v['data_category'], v['n_subsets'], v['year'])
        assert ScriptRunner('${%edition} == 4 and not ${%is_compressed}', mode='eval').run(m) is \
            (v['edition'] == 4 and not v['is_compressed'])
        assert ScriptRunner('${%edition} * 100 + ${%edition}', mode='eval').run(m) == v['edition'] * 101
        assert ScriptRunner('PBK_FILENAME', mode='eval').run(m) == k + '.bufr'
        assert ScriptRunner('PBK_BUFR_MESSAGE', mode='eval').run(m) is m
        assert ScriptRunner('${%no_such_thing}', mode='eval').run(m) is None
        assert ScriptRunner('"${%edition}"', mode='eval').run(m) == '${%edition}'
        n_checks += 1
# the runner can be used again and again
sr = ScriptRunner('${%length}', mode='eval')
assert [sr.run(info[k]) for k in ('G3', 'G4', 'GC', 'GZ', 'G3')] == [244, 494, 94, len(GZ), 244]
# data queries need the data
assert ScriptRunner('${001001}', mode='eval').run(full['GC']) == [94, 95]
assert ScriptRunner('${001001}', mode='eval', data_values_nest_level=0).run(full['GC']) == 94
assert ScriptRunner('${001001}', mode='eval', data_values_nest_level=2).run(full['GC']) == [[94], [95]]
assert ScriptRunner('(${/301001/001001}, ${%n_subsets})', mode='eval').run(full['GC']) == ([94, 95], 2)
assert isinstance(raises(AttributeError, lambda: ScriptRunner('${001001}', mode='eval').run(info['GC'])),
                  AttributeError)
# run time errors come out as they are
assert isinstance(raises(NameError, lambda: ScriptRunner('nope', mode='eval').run(info['GC'])), NameError)
assert isinstance(raises(ZeroDivisionError, lambda: ScriptRunner('${%edition} / 0', mode='eval').run(info['GC'])),
                  ZeroDivisionError)
assert isinstance(raises(TypeError, lambda: ScriptRunner('${%nothing} > 1', mode='eval').run(info['GC'])), TypeError)
assert isinstance(raises(AttributeError, lambda: ScriptRunner('1', mode='eval').run(None)), AttributeError)
assert isinstance(raises(AttributeError, lambda: ScriptRunner('1', mode='exec').run(object())), AttributeError)
n_checks += 11

# ---- run, exec mode: the namespace -------------------------------------------------------------
ns = ScriptRunner('a = ${%edition}\nb = ${%length} + a\nc = ${%edition}').run(info['G4'])
assert isinstance(ns, dict)
assert [k for k in ns if k != '__builtins__'] == ['PBK_0', 'PBK_1', 'PBK_BUFR_MESSAGE', 'PBK_FILENAME', 'a', 'b', 'c']
assert '__builtins__' in ns
assert (ns['PBK_0'], ns['PBK_1'], ns['a'], ns['b'], ns['c']) == (4, 494, 4, 498, 4)
assert ns['PBK_BUFR_MESSAGE'] is info['G4'] and ns['PBK_FILENAME'] == 'G4.bufr'
ns = ScriptRunner('').run(info['G3'])
assert [k for k in ns if k != '__builtins__'] == ['PBK_BUFR_MESSAGE', 'PBK_FILENAME']
# a script may overwrite what it was given
ns = ScriptRunner('PBK_FILENAME = ${%edition}').run(info['G3'])
assert ns['PBK_FILENAME'] == 3 and ns['PBK_0'] == 3
# each run gets a namespace of its own
sr = ScriptRunner('seen = ${%length}')
n1, n2 = sr.run(info['G3']), sr.run(info['G4'])
assert n1 is not n2 and (n1['seen'], n2['seen']) == (244, 494)
# prepare_variables on its own: no builtins yet, queries first
v = ScriptRunner('${%length} + ${%edition}', mode='eval').prepare_variables(info['GC'])
assert list(v.items()) == [('PBK_0', 94), ('PBK_1', 4), ('PBK_BUFR_MESSAGE', info['GC']), ('PBK_FILENAME', 'GC.bufr')]
# mode "single" is compiled all right, and handled like an expression: the value is None
sr = ScriptRunner('x = ${%edition}', mode='single')
assert sr.mode == 'single' and sr.run(info['G3']) is None
# a script error leaves through run
assert isinstance(raises(KeyError, lambda: ScriptRunner('{}[${%edition}]').run(info['G3'])), KeyError)
n_checks += 8

# ---- the filter of generate_bufr_message ------------------------------------------------------------
SEPS = [b'', b'\x01\r\r\n123\r\r\nISMD01 OKPR 120000\r\r\n', b'BUF', b'\r\r\n\x03', b'7777',
        bytes(b for b in range(256) if b != 0x42)]
order = ['G3', 'G4', 'GZ', 'GC', 'G4', 'G3', 'GC']
stream = b''.join(sep + META[k]['blob'] for k, sep in zip(order, itertools.cycle(SEPS))) + b'BUF'
FILTERS = [
    ('${%edition} == 4', lambda v: v['edition'] == 4),
    ('4 == ${%edition}', lambda v: v['edition'] == 4),
    ('${%edition} != 4', lambda v: v['edition'] != 4),
    ('${%is_compressed}', lambda v: v['is_compressed']),
    ('not ${%is_compressed}', lambda v: not v['is_compressed']),
    ('${%data_category} == 2 and ${%length} > 100', lambda v: v['data_category'] == 2 and v['length'] > 100),
    ('${%data_category} in (0, 21)', lambda v: v['data_category'] in (0, 21)),
    ('${%length}', lambda v: True),
    ('${%length} - 94', lambda v: v['length'] != 94),
    ('${%n_subsets} > 1 or ${%year} < 2000', lambda v: v['n_subsets'] > 1 or v['year'] < 2000),
    ('${%no_such_thing}', lambda v: False),
    ('[]', lambda v: False),
    ('[0]', lambda v: True),
    ('""', lambda v: False),
    ('PBK_FILENAME == "here.bufr"', lambda v: True),
    ('PBK_BUFR_MESSAGE.edition.value == 3', lambda v: v['edition'] == 3),
]
for (expr, pred), info_only in itertools.product(FILTERS, (False, True)):
    got = [m.serialized_bytes for m in
           generate_bufr_message(decoder, stream, info_only=info_only, filter_expr=expr, file_path='here.bufr')]
    want = [META[k]['blob'] for k in order if pred(META[k])]
    assert got == want, (expr, info_only)
    # ... which is what the runner says about each message on its own
    sr = ScriptRunner(expr, mode='eval')
    assert sr.metadata_only is True
    verdicts = [bool(sr.run(decoder.process(META[k]['blob'], file_path='here.bufr', info_only=True))) for k in order]
    assert [META[k]['blob'] for k, ok in zip(order, verdicts) if ok] == want
    n_checks += 1
# no filter: everything
assert [m.serialized_bytes for m in generate_bufr_message(decoder, stream)] == [META[k]['blob'] for k in order]
# a filter over the data section cannot be evaluated on the metadata
assert isinstance(raises(AttributeError, lambda: list(generate_bufr_message(decoder, stream, filter_expr='${001001}'))),
                  AttributeError)
assert isinstance(raises(SyntaxError, lambda: list(generate_bufr_message(decoder, stream, filter_expr='x = 1'))),
                  SyntaxError)
n_checks += 3

print('demo 4 ok, {} checks'.format(n_checks))
