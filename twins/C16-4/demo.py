import os, sys; sys.path.insert(0, os.getcwd())
import json
import random

from pybufrkit.decoder import Decoder
from pybufrkit.encoder import Encoder
from pybufrkit.renderer import NestedJsonRenderer, FlatJsonRenderer
from pybufrkit.dataquery import (NodePathParser, DataQuerent, QueryResult, PathComponent,
                                 PATH_SEPARATOR_CHILD, PATH_SEPARATOR_ATTRIB, PATH_SEPARATOR_DESCEND)
from pybufrkit.templatedata import (ValueDataNode, NoValueDataNode, SequenceNode,
                                    FixedReplicationNode, DelayedReplicationNode)
from pybufrkit.errors import QueryError, PathExprParsingError
from pybufrkit.utils import EntityEncoder

DATA = os.path.join('tests', 'data')
QUERENT = DataQuerent(NodePathParser())


def load(name, **decoder_kwargs):
    with open(os.path.join(DATA, name), 'rb') as ins:
        return Decoder(**decoder_kwargs).process(ins.read())


def nested_json(message):
    return NestedJsonRenderer()._render_template_data(message.template_data.value)


def raises(exc_type, func, *args, **kwargs):
    try:
        func(*args, **kwargs)
    except exc_type as e:
        # exact type, not a subclass
        return type(e) is exc_type
    except Exception:
        return False
    return False


# --------------------------------------------------------------------------
# Independent oracle: evaluates a path of child (/) and attribute (.) steps
# over the nested JSON rendering of the message. It never touches the node
# tree nor any DataQuerent method.
# --------------------------------------------------------------------------
class OracleError(Exception):
    pass


def is_replication(j):
    return j['id'][0] == '1' and 'members' in j


def pick(candidates, id_, slc):
    entries = [e for e in enumerate(candidates) if e[1]['id'] == id_]
    if isinstance(slc, int):
        return entries[slc:slc + 1]
    return sorted(entries[slc], key=lambda e: e[0])  # document order


def evaluate(j, comps):
    sep, id_, slc = comps[0]
    if sep == '/':
        if 'members' not in j:
            raise OracleError('no child nodes')
        if is_replication(j):
            blocks = j['members']  # one list per repetition
            if not blocks:
                return []
            positions = [p for p, _ in pick(blocks[0], id_, slc)]
            envelope = []
            for block in blocks:
                r = proceed([block[p] for p in positions], comps)
                if r:
                    envelope.append(r)
            return [envelope] if envelope else []  # one envelope per replication
        return proceed([n for _, n in pick(j['members'], id_, slc)], comps)
    if 'factor' not in j and 'attributes' not in j:
        raise OracleError('no attribute nodes')
    candidates = ([j['factor']] if 'factor' in j else []) + j.get('attributes', [])
    return proceed([n for _, n in pick(candidates, id_, slc)], comps)


def proceed(jnodes, comps):
    if len(comps) == 1:
        return jnodes
    out = []
    for n in jnodes:
        out += evaluate(n, comps[1:])
    return out


def to_values(x):
    out = []
    for e in x:
        if isinstance(e, list):
            out.append(to_values(e))
        elif 'value' in e:
            out.append(e['value'])
        else:
            raise OracleError('valueless')
    return out


def oracle(nested_subsets, comps, subset_indices):
    return [to_values(evaluate({'id': 'TEMPLATE', 'members': nested_subsets[i]}, comps))
            for i in subset_indices]


def slice_text(slc):
    if isinstance(slc, int):
        return '[{}]'.format(slc)
    if slc == slice(None):
        return ''
    return '[{}:{}:{}]'.format(*['' if v is None else v for v in (slc.start, slc.stop, slc.step)])


def expr_of(comps, subset=''):
    return subset + ''.join(sep + id_ + slice_text(slc) for sep, id_, slc in comps)


def as_parsed(slc):
    # a written negative index means "that one from the end"
    if isinstance(slc, int) and slc < 0:
        return slice(slc, slc + 1 if slc != -1 else None, None)
    return slc


def enumerate_paths(nested_subsets, max_depth=6):
    """All distinct chains of (separator, id), ending at a node with a value."""
    found = set()

    def walk(j, prefix):
        if len(prefix) >= max_depth:
            return
        kids = []
        if 'members' in j:
            members = j['members']
            if is_replication(j):
                members = [n for block in members for n in block]
            kids += [('/', n) for n in members]
        if 'factor' in j:
            kids.append(('.', j['factor']))
        kids += [('.', n) for n in j.get('attributes', [])]
        for sep, n in kids:
            p = prefix + ((sep, n['id']),)
            if 'value' in n:
                found.add(p)
            walk(n, p)

    for subset in nested_subsets:
        walk({'id': 'TEMPLATE', 'members': subset}, ())
    return sorted(found)


SLICES = [slice(None), 0, 1, 2, -1, -2, 7, slice(1, None, None), slice(None, None, 2),
          slice(None, None, -1), slice(-2, None, None), slice(0, 5, 3), slice(3, 1, -1), slice(5, 2, None)]


def sweep(name, rnd, n_variants=4, selectors=('', '@[-1]', '@[::3]', '@[1:2]'), message=None, nested=None):
    """Compare DataQuerent with the oracle for every path of the message, with
    bare IDs and with random slices at every step. Return (n_queries, n_errors)."""
    message = message or load(name)
    nested = nested or nested_json(message)
    n_subsets = message.n_subsets.value
    every = list(range(n_subsets))
    picks = {'': every, '@[-1]': every[-1:], '@[::3]': every[::3], '@[1:2]': every[1:2]}
    n_queries = n_errors = 0
    for path in enumerate_paths(nested[:3] + nested[-1:]):
        variants = [[(s, i, slice(None)) for s, i in path]]
        for _ in range(n_variants):
            variants.append([(s, i, rnd.choice(SLICES)) for s, i in path])
        for comps in variants:
            parsed = [(s, i, as_parsed(c)) for s, i, c in comps]
            for selector in selectors:
                if n_subsets > 8 and selector == '':
                    continue  # keep the demo quick
                expr = expr_of(comps, selector)
                try:
                    expected = oracle(nested, parsed, picks[selector])
                except OracleError:
                    assert raises(QueryError, QUERENT.query, message, expr), expr
                    n_errors += 1
                    continue
                result = QUERENT.query(message, expr)
                assert result.subset_indices() == picks[selector], (name, expr)
                assert result.all_values() == expected, (name, expr)
                n_queries += 1
    return n_queries, n_errors


# --------------------------------------------------------------------------
# Tiny hand-made node trees for calling the filter methods directly
# --------------------------------------------------------------------------
class FakeDescriptor(object):
    def __init__(self, id_, n_members=None):
        self.id_ = id_
        if n_members is not None:
            self.n_members = n_members

    def __str__(self):
        return self.id_


_index_counter = [0]


def V(id_, attributes=None):
    node = ValueDataNode(FakeDescriptor(id_), _index_counter[0])
    _index_counter[0] += 1
    for a in attributes or []:
        node.add_attribute(a)
    return node


def S(id_, members):
    node = SequenceNode(FakeDescriptor(id_))
    node.members = members
    return node


def R(id_, n_members, members):
    node = FixedReplicationNode(FakeDescriptor(id_, n_members))
    node.members = members
    return node


def D(id_, n_members, factor, members):
    node = DelayedReplicationNode(FakeDescriptor(id_, n_members))
    node.factor = factor
    node.members = members
    return node


def PC(sep, id_, slc=slice(None)):
    return PathComponent(sep, id_, slc)


def ids(nested_nodes):
    return [ids(n) if isinstance(n, list) else str(n.descriptor) for n in nested_nodes]


# ==========================================================================
# Demo 4 - DataQuerent.query (subset selection, compressed / uncompressed)
#          and create_values_from_nodes (values looked up by flat index)
# ==========================================================================
def stored_uncompressed(message):
    """Re-encode a compressed message without compression and decode it again."""
    flat = json.loads(json.dumps(FlatJsonRenderer().render(message), cls=EntityEncoder))
    for i_section, section in enumerate(message.sections):
        for i_parameter, parameter in enumerate(section):
            if parameter.name == 'is_compressed':
                assert flat[i_section][i_parameter] is True
                flat[i_section][i_parameter] = False
    encoded = Encoder().process(json.dumps(flat))
    return Decoder().process(encoded.serialized_bytes)


SELECTORS = {
    '': lambda x: x, '@[0]': lambda x: x[0:1], '@[1]': lambda x: x[1:2], '@[-1]': lambda x: x[-1:],
    '@[-2]': lambda x: x[-2:-1], '@[::2]': lambda x: x[::2], '@[1:]': lambda x: x[1:], '@[:1]': lambda x: x[:1],
    '@[::-1]': lambda x: x[::-1], '@[-2:]': lambda x: x[-2:], '@[3:1]': lambda x: x[3:1],
    '@[1:5:3]': lambda x: x[1:5:3], '@[-1000]': lambda x: [], '@[:]': lambda x: x, '@[::]': lambda x: x,
    '@[5:2:-2]': lambda x: x[5:2:-2], '@[::5]': lambda x: x[::5], '@[1:4]': lambda x: x[1:4],
    '@[::-3]': lambda x: x[::-3],
}


def main():
    q = QUERENT

    # ---- subset selectors: exactly the selected subsets, in the order selected
    rnd = random.Random(1604)
    n_selected = 0
    for name in ('contrived.bufr', '207003.bufr', 'ISMD01_OKPR.bufr', 'g2nd_208.bufr', 'jaso_214.bufr',
                 'b002_95.bufr'):
        m = load(name)
        nested = nested_json(m)
        every = list(range(m.n_subsets.value))
        paths = enumerate_paths(nested[:2] + nested[-1:])
        for path in rnd.sample(paths, min(12, len(paths))):
            comps = [(s, i, rnd.choice(SLICES[:6])) for s, i in path]
            parsed = [(s, i, as_parsed(c)) for s, i, c in comps]
            for selector, select in sorted(SELECTORS.items()):
                if selector in ('@[1]', '@[-2]') and len(every) < 2:
                    continue
                expr = expr_of(comps, selector)
                try:
                    expected = oracle(nested, parsed, select(every))
                    if not select(every) and m.is_compressed.value:
                        # the one node tree of compressed data is filtered even if no subset is selected
                        oracle(nested, parsed, [0])
                except OracleError:
                    assert raises(QueryError, q.query, m, expr), expr
                    continue
                r = q.query(m, expr)
                assert r.subset_indices() == select(every), (name, expr)
                assert r.all_values() == expected, (name, expr)
                assert r.all_values(flat=True) == [r.get_values(i, flat=True) for i in select(every)]
                assert [r.get_values(i) for i in r.subset_indices()] == expected
                assert r.path_expr == expr and r.n_subsets == len(every)
                assert isinstance(r, QueryResult)
                n_selected += 1
    assert n_selected > 700, n_selected

    # ---- an integer selector is taken as it is: beyond the last subset is an IndexError
    m2 = load('contrived.bufr')        # 2 subsets, uncompressed
    m7 = load('ISMD01_OKPR.bufr')      # 7 subsets, compressed
    assert raises(IndexError, q.query, m2, '@[2]/301001/001001')
    assert raises(IndexError, q.query, m7, '@[7]/307080/301090/301004/001015')
    assert raises(IndexError, q.query, m7, '@[7]/nothing/here')
    assert q.query(m2, '@[1]/301001/001001').subset_indices() == [1]
    assert q.query(m7, '@[6]/307080/301090/301004/001015').all_values() == [[b'Ostrava-Mosnov      ']]
    empty = q.query(m7, '@[3:1]/307080/301090/301004/001015')
    assert empty.subset_indices() == [] and empty.all_values() == [] and empty.all_values(flat=True) == []
    assert empty.n_subsets == 7
    assert q.query(m7, '@[-8]/307080').all_values() == []      # nothing selected, nothing checked
    # the order of the selector is the order of the result
    r = q.query(m2, '@[::-1]/301001/001002')
    assert r.subset_indices() == [1, 0]
    assert r.all_values() == list(reversed(q.query(m2, '/301001/001002').all_values()))

    # ---- error cases: parsing errors come first, then valueless nodes, then unknown steps
    for bad in ('', '   ', '@', '@[', '@[1', '@[a]/001001', '/001001[', '/001001[1', '/001001[1:2:3:4]',
                '.001001', '/', '001001/', '/001001]', '@[1]@[2]/001001', '/001001[]', '@[]/001001'):
        assert raises(PathExprParsingError, q.query, m2, bad), bad
        assert raises(PathExprParsingError, q.query, None, bad), bad     # the message is not looked at yet
    assert raises(QueryError, q.query, m2, '/301001')
    assert raises(QueryError, q.query, m2, '/105002')
    assert raises(QueryError, q.query, m2, '/301001/001001/001002')
    assert raises(QueryError, q.query, m2, '/301001/001001.001002')
    assert raises(AttributeError, q.query, None, '/301001')
    assert q.query(m2, '/301001/009999').all_values() == [[], []]
    assert q.query(m2, '/999999/001001').all_values() == [[], []]
    # with uncompressed data a broken path is noticed only in a selected subset
    assert q.query(m2, '@[5:]/301001').all_values() == []

    # ---- a parser that takes a bare ID (and a missing selector) as "the first one"
    first_only = DataQuerent(NodePathParser(bare_id_matches_all=False))
    r = first_only.query(m7, '/307080/301090/301004/001015')
    assert r.subset_indices() == [0] and r.all_values() == [[b'Primda              ']]
    r = first_only.query(m2, '/105002/102000/020011')
    # (the first match within every repetition, the repetitions all stay)
    assert r.subset_indices() == [0] and r.all_values() == [[[[[[2], [4]]], [[[6], [8], [10]]]]]]
    r = first_only.query(m2, '@[:]/105002[:]/102000[:]/020011[:]')
    assert r.all_values() == q.query(m2, '/105002/102000/020011').all_values()

    # ---- unwired template data: nothing to find, but the subsets are still reported
    with open(os.path.join(DATA, 'contrived.bufr'), 'rb') as ins:
        unwired = Decoder().process(ins.read(), wire_template_data=False)
    r = q.query(unwired, '/301001/001001')
    assert r.subset_indices() == [0, 1] and r.all_values() == [[], []]

    # ---- same results for compressed and uncompressed storage, with and without
    # template compilation
    rnd = random.Random(1605)
    n_same = 0
    for name in ('207003.bufr', 'ISMD01_OKPR.bufr', 'g2nd_208.bufr', 'jaso_214.bufr'):
        compressed = load(name)
        assert compressed.is_compressed.value
        uncompressed = stored_uncompressed(compressed)
        assert not uncompressed.is_compressed.value
        compiled = load(name, compiled_template_cache_max=10)
        nested = nested_json(compressed)
        assert nested_json(uncompressed) == nested and nested_json(compiled) == nested
        td_c, td_u = compressed.template_data.value, uncompressed.template_data.value
        assert td_c.decoded_nodes_all_subsets[0] is td_c.decoded_nodes_all_subsets[-1]       # one shared tree
        assert td_u.decoded_nodes_all_subsets[0] is not td_u.decoded_nodes_all_subsets[-1]   # one tree per subset
        every = list(range(compressed.n_subsets.value))
        for path in enumerate_paths(nested[:2] + nested[-1:]):
            for _ in range(2):
                comps = [(s, i, rnd.choice(SLICES)) for s, i in path]
                selector = rnd.choice(['@[0]', '@[-1]', '@[::5]', '@[1:4]', '@[::-3]'])
                expr = expr_of(comps, selector)
                try:
                    expected = oracle(nested, [(s, i, as_parsed(c)) for s, i, c in comps],
                                      SELECTORS[selector](every))
                except OracleError:
                    for message in (compressed, uncompressed, compiled):
                        assert raises(QueryError, q.query, message, expr), expr
                    continue
                for message in (compressed, uncompressed, compiled):
                    assert q.query(message, expr).all_values() == expected, (name, expr)
                n_same += 1
        for id_ in ('004001', '008002', '020012', '031001', '021062', '005042'):
            results = [q.query(message, '@[::4] > ' + id_) for message in (compressed, uncompressed, compiled)]
            assert results[0].all_values() == results[1].all_values() == results[2].all_values()
            assert results[0].subset_indices() == results[1].subset_indices() == every[::4]
    assert n_same > 300, n_same

    # ---- create_values_from_nodes: same nesting, values by flat index
    v0, v1, v2 = (ValueDataNode(FakeDescriptor('00100%d' % i), i) for i in range(3))
    values = ['zero', None, 2.5]
    f = q.create_values_from_nodes
    assert f([], values) == []
    assert f([[]], values) == [[]]
    assert f([v2, v0], values) == [2.5, 'zero']
    assert f([v1, [v2, [v0, []], v1], [[v2]]], values) == [None, [2.5, ['zero', []], None], [[2.5]]]
    nodes = [v0, [v1]]
    out = f(nodes, values)
    assert out == ['zero', [None]] and nodes == [v0, [v1]] and out is not nodes
    assert f(iter([v0, v1]), values) == ['zero', None]
    assert f([v1], {1: 'by key'}) == ['by key']
    valueless = SequenceNode(FakeDescriptor('300001'))
    assert raises(QueryError, f, [v0, valueless], values)
    assert raises(QueryError, f, [[[NoValueDataNode(FakeDescriptor('201129'))]]], values)
    try:
        f([v0, [valueless]], values)
    except QueryError as e:
        assert 'cannot query valueless node: 300001' in str(e)
    assert raises(IndexError, f, [ValueDataNode(FakeDescriptor('001001'), 3)], values)
    assert raises(AttributeError, f, [(v0,)], values)       # only lists nest
    assert raises(AttributeError, f, [None], values)
    assert raises(TypeError, f, None, values)
    assert raises(TypeError, f, [v0], None)
    print('demo 4 ok: {} selector queries, {} storage / compilation comparisons'.format(n_selected, n_same))


if __name__ == '__main__':
    main()
