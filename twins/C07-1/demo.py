import os, sys; sys.path.insert(0, os.getcwd())

import itertools
import json

from pybufrkit.encoder import Encoder
from pybufrkit.decoder import Decoder
from pybufrkit.errors import PyBufrKitError
from pybufrkit.renderer import NestedJsonRenderer

# --------------------------------------------------------------------------
# Harness: build a message from descriptor ids and values, encode it, decode it
# both by walking the template and through the compiled template, and check
# that the three of them agree on the bitmap links.
ENCODER = Encoder(ignore_declared_length=True)
DECODERS = [Decoder(), Decoder(compiled_template_cache_max=16)]
RENDERER = NestedJsonRenderer()


def make_json(ids, subsets, compressed):
    return [["BUFR", 0, 3],
            [18, 0, 0, 98, 0, False, "0000000", 21, 202, 15, 0, 12, 11, 2, 0, 0, 0],
            [10, "00000000", len(subsets), True, compressed, "000000", list(ids)],
            [0, "00000000", [list(s) for s in subsets]],
            ["7777"]]


def run(ids, subsets, compressed=False):
    """Return (links of all subsets, the decoded message)."""
    if not isinstance(subsets[0], (list, tuple)):
        subsets = [subsets]
    encoded = ENCODER.process(json.dumps(make_json(ids, subsets, compressed)))
    decoded = [d.process(encoded.serialized_bytes) for d in DECODERS]
    links = [m.template_data.value.bitmap_links_all_subsets for m in [encoded] + decoded]
    assert links[0] == links[1] == links[2], links
    values = [m.template_data.value.decoded_values_all_subsets for m in decoded]
    assert values[0] == values[1]
    assert RENDERER.render(decoded[0]) == RENDERER.render(decoded[1])
    assert len(links[1]) == len(subsets)
    return [dict(x) for x in links[1]], decoded[0]


def error_of(ids, subsets, compressed=False):
    """Name of the exception raised for the message, None if there is none."""
    try:
        run(ids, subsets, compressed)
    except Exception as e:
        return type(e).__name__
    return None


def owners(message, idx_subset=0):
    """
    From the hierarchical view: [(owner id, owner value, [attribute, ...]), ...]
    for every element (not marker) node with attributes, in document order, where each attribute is
    (id, description, value, meaning) and meaning is (id, value) or None.
    """
    found = []

    def attr(a):
        meaning = None
        if 'attributes' in a:
            assert len(a['attributes']) == 1
            meaning = (a['attributes'][0]['id'], a['attributes'][0]['value'])
        return a['id'], a['description'], a['value'], meaning

    def walk(nodes):
        for n in nodes:
            if isinstance(n, list):
                walk(n)
                continue
            if 'factor' in n:
                walk([n['factor']])
            if 'attributes' in n and n['id'].isdigit():
                found.append((n['id'], n['value'], [attr(a) for a in n['attributes']]))
            if 'members' in n:
                walk(n['members'])

    walk(RENDERER.render(message)[3][2]['value'][idx_subset])
    return found


# --------------------------------------------------------------------------
# Part A: the bitmap definition state machine on its own, driven through the
# public entry point Coder.process_bitmap_definition with a recording coder.
from pybufrkit.coder import (Coder, CoderState, BITMAP_NA, BITMAP_INDICATOR,
                             BITMAP_WAITING_FOR_BIT, BITMAP_BIT_COUNTING)


class FakeDescriptor(object):
    def __init__(self, id_):
        self.id = id_


class RecordingCoder(Coder):
    def __init__(self):
        self.defined = []

    def define_bitmap(self, state, reuse):
        self.defined.append((state.n_031031, reuse))


def drive(ids, stage=BITMAP_INDICATOR, reuse_before=False):
    """Feed the ids one by one; return the trace of (stage, n_031031, reuse) and the define calls."""
    coder = RecordingCoder()
    state = CoderState(False, 1)
    state.bitmap_definition_state = stage
    state.most_recent_bitmap_is_for_reuse = reuse_before
    state.n_031031 = 7  # stale count from an earlier bitmap
    trace = []
    for id_ in ids:
        # The caller only enters the machine while a definition is in progress
        if state.bitmap_definition_state != BITMAP_NA:
            coder.process_bitmap_definition(state, None, FakeDescriptor(id_))
        trace.append((state.bitmap_definition_state, state.n_031031, state.most_recent_bitmap_is_for_reuse))
    return trace, coder.defined


NA, IND, WAIT, CNT = BITMAP_NA, BITMAP_INDICATOR, BITMAP_WAITING_FOR_BIT, BITMAP_BIT_COUNTING

# direct (non-reuse) definition: the descriptor after the operator is the first bit
trace, defined = drive([31031, 31031, 31031, 33007, 33007])
assert trace == [(WAIT, 0, False), (CNT, 1, False), (CNT, 2, False), (NA, 2, False), (NA, 2, False)], trace
assert defined == [(2, False)], defined
# NB the first 031031 right after the operator only opens the definition, the
# library counts from the next one: this is why a bitmap is always introduced
# by a replication descriptor (101000/101YYY) in practice.
trace, defined = drive([101003, 31031, 31031, 31031, 8023])
assert trace == [(WAIT, 0, False), (CNT, 1, False), (CNT, 2, False), (CNT, 3, False), (NA, 3, False)], trace
assert defined == [(3, False)]
assert type(trace[0][2]) is bool and type(trace[-1][2]) is bool

# the flag of a previous reuse definition is dropped by a direct definition
trace, defined = drive([101002, 31031, 31031, 224255], reuse_before=True)
assert trace[0] == (WAIT, 0, False) and defined == [(2, False)]

# 236000: for reuse; descriptors other than 031031 are waited through
trace, defined = drive([236000, 101000, 31031, 1031, 1032])
assert trace == [(WAIT, 0, True), (WAIT, 0, True), (CNT, 1, True), (NA, 1, True), (NA, 1, True)], trace
assert defined == [(1, True)]
assert trace[0][2] is True

# 237000: recall, nothing is defined and neither count nor reuse flag change
for reuse_before in (False, True):
    trace, defined = drive([237000, 8023, 31031, 31031, 12001], reuse_before=reuse_before)
    assert trace == [(NA, 7, reuse_before)] * 5, trace
    assert defined == []

# a definition that is never concluded defines nothing
trace, defined = drive([236000, 31031, 31031])
assert trace[-1] == (CNT, 2, True) and defined == []
trace, defined = drive([236000, 101000, 31002])
assert trace[-1] == (WAIT, 0, True) and defined == []

# stages that are not part of the machine leave everything alone
for stage in (2, 3, 6, -1):
    trace, defined = drive([31031, 236000], stage=stage)
    assert trace == [(stage, 7, False)] * 2 and defined == []

# an exception of define_bitmap is passed on and the stage is left as it was


class FailingCoder(RecordingCoder):
    def define_bitmap(self, state, reuse):
        raise PyBufrKitError('boom')


state = CoderState(False, 1)
state.bitmap_definition_state = CNT
state.n_031031 = 3
try:
    FailingCoder().process_bitmap_definition(state, None, FakeDescriptor(12001))
except PyBufrKitError:
    assert (state.bitmap_definition_state, state.n_031031) == (CNT, 3)
else:
    raise AssertionError('expected PyBufrKitError')

# a descriptor without an id is an AttributeError in the three live stages only
for stage, expected in ((IND, True), (WAIT, True), (CNT, True), (NA, False), (2, False)):
    state = CoderState(False, 1)
    state.bitmap_definition_state = stage
    try:
        RecordingCoder().process_bitmap_definition(state, None, object())
        raised = False
    except AttributeError:
        raised = True
    assert raised == expected, stage

# --------------------------------------------------------------------------
# Part B: whole messages. B is the base template, the three elements at flat
# indices 0, 1, 2.
B = [12001, 10004, 11001]
BV = [280.5, 101000.0, 120]

# direct definition, the k-th 033007 belongs to the k-th zero bit
links, msg = run(B + [222000, 101003, 31031, 33007, 33007], BV + [0, 0, 1, 0, 70, 80])
assert links == [{7: 0, 8: 2}], links
assert owners(msg) == [('012001', 280.5, [('033007', 'PER CENT CONFIDENCE', 70, None)]),
                       ('011001', 120, [('033007', 'PER CENT CONFIDENCE', 80, None)])]

# bitmap through delayed replication (101000 031002), defined for reuse by
# 236000, recalled twice by 237000
ids = B + [222000, 236000, 101000, 31002, 31031, 33007, 33007,
           224000, 237000, 8023, 224255, 224255,
           225000, 237000, 8024, 225255, 225255]
vals = BV + [0, 0, 3, 1, 0, 0, 70, 80, 0, 0, 4, 99000.0, 100, 0, 0, 2, -20.0, 5]
for compressed, n in ((False, 1), (False, 3), (True, 1), (True, 2)):
    links, msg = run(ids, [vals] * n, compressed)
    assert links == [{9: 1, 10: 2, 14: 1, 15: 2, 19: 1, 20: 2}] * n, links
    for i in range(n):
        assert owners(msg, i) == [
            ('010004', 101000.0, [('033007', 'PER CENT CONFIDENCE', 70, None),
                                  ('F10004', '224255', 99000.0, ('008023', 4)),
                                  ('D10004', '225255', -20.0, ('008024', 2))]),
            ('011001', 120, [('033007', 'PER CENT CONFIDENCE', 80, None),
                             ('F11001', '224255', 100, ('008023', 4)),
                             ('D11001', '225255', 5, ('008024', 2))])], owners(msg, i)

# a second operator redefining the bitmap: each operator uses its own bitmap,
# both count back from the operator position over the same three elements
ids = B + [222000, 101003, 31031, 33007,
           224000, 101003, 31031, 8023, 224255, 224255]
vals = BV + [0, 1, 0, 1, 55, 0, 0, 1, 0, 4, 281.0, 119]
links, msg = run(ids, vals)
assert links == [{7: 1, 13: 0, 14: 2}], links
assert owners(msg) == [('012001', 280.5, [('F12001', '224255', 281.0, ('008023', 4))]),
                       ('010004', 101000.0, [('033007', 'PER CENT CONFIDENCE', 55, None)]),
                       ('011001', 120, [('F11001', '224255', 119, ('008023', 4))])]

# a reuse bitmap, then a direct one, then 237000 recalls ... the most recently
# DEFINED bitmap descriptors; then cancellation 237255 and a fresh definition
ids = B + [222000, 236000, 101003, 31031, 33007,
           237255,
           224000, 101003, 31031, 8023, 224255, 224255]
vals = BV + [0, 0, 1, 1, 0, 42, 0, 0, 0, 0, 1, 4, 281.0, 100500.0]
links, msg = run(ids, vals)
assert links == [{8: 2, 15: 0, 16: 1}], links

# all 0/1 patterns of every length 1..N over a base of N = 4 elements, where
# the bits are matched with the LAST L elements before the operator
B4 = [12001, 10004, 11001, 11002]
BV4 = [280.5, 101000.0, 120, 5.5]
for L in range(1, 5):
    for bits in itertools.product((0, 1), repeat=L):
        zeros = [i for i, b in enumerate(bits) if b == 0]
        ids = B4 + [222000, 236000, 100000 + 1000 + L, 31031] + [33007] * len(zeros) + \
            [223000, 237000] + [223255] * len(zeros)
        vals = BV4 + [0, 0] + list(bits) + [10 + z for z in zeros] + [0, 0] + [BV4[4 - L + z] for z in zeros]
        expected = {}
        for k, z in enumerate(zeros):
            expected[4 + 2 + L + k] = 4 - L + z
            expected[4 + 2 + L + len(zeros) + 2 + k] = 4 - L + z
        for compressed, n in ((False, 1), (False, 2), (True, 2)):
            links, msg = run(ids, [vals] * n, compressed)
            assert links == [expected] * n, (bits, links, expected)
            got = owners(msg, n - 1)
            assert [o[0] for o in got] == ['{:06d}'.format(B4[4 - L + z]) for z in zeros]
            for o, z in zip(got, zeros):
                assert [a[:3] for a in o[2]] == [
                    ('033007', 'PER CENT CONFIDENCE', 10 + z),
                    ('T{:05d}'.format(B4[4 - L + z]), '223255', BV4[4 - L + z])], o

# a bitmap definition that is never concluded links nothing
links, msg = run(B + [222000, 101003, 31031], BV + [0, 0, 1, 0])
assert links == [{}] and owners(msg) == []

# error cases
# - more bits than elements to refer to
assert error_of(B + [222000, 101004, 31031, 33007], BV + [0, 0, 0, 0, 0, 50]) == 'PyBufrKitError'
# - recall with nothing defined
assert error_of(B + [224000, 237000, 8023, 224255], BV + [0, 0, 4, 3.0]) == 'TypeError'
# - quality information without any bitmap
assert error_of(B + [222000, 33007], BV + [0, 50]) == 'TypeError'
# - recall after cancellation of all back references
assert error_of(B + [224000, 236000, 101003, 31031, 8023, 224255, 235000,
                     224000, 237000, 8023, 224255],
                BV + [0, 0, 1, 0, 1, 4, 3.0, 0, 0, 4, 3.0]) == 'TypeError'

print('demo 1 OK')
