import os, sys
sys.path.insert(0, os.getcwd())

import decimal
import logging

logging.disable(logging.CRITICAL)

from pybufrkit.encoder import Encoder

# ---------------------------------------------------------------------------
# An independent FM-94 writer. It knows nothing of pybufrkit: bits are kept
# as a python string of '0'/'1' and the widths/scales/reference values of the
# elements are given by hand by each test case (copied from WMO table B v25).
# ---------------------------------------------------------------------------
NUM = 'n'   # (NUM, nbits, scale, refval)
CODE = 'c'  # (CODE, nbits)
STR = 's'   # (STR, nbytes)


class RefBits(object):
    def __init__(self):
        self.s = ''

    def uint(self, v, n):
        assert isinstance(v, int) and 0 <= v < 2 ** n, (v, n)
        if n:
            self.s += format(v, '0{}b'.format(n))

    def raw(self, bs):
        for b in bytearray(bs):
            self.uint(b, 8)

    def pad_to(self, nbits_multiple):
        while len(self.s) % nbits_multiple:
            self.s += '0'

    def tobytes(self):
        assert len(self.s) % 8 == 0
        return bytes(bytearray(int(self.s[i:i + 8], 2) for i in range(0, len(self.s), 8)))


def ones(n):
    return 2 ** n - 1


def raw_of(spec, v):
    """Raw unsigned integer of a numeric / code element (None = missing)."""
    if v is None:
        return None
    if spec[0] == CODE:
        return int(v)
    _, nbits, scale, ref = spec
    d = decimal.Decimal(repr(v)).scaleb(scale).quantize(decimal.Decimal(1), rounding=decimal.ROUND_HALF_EVEN)
    return int(d) - ref


def str_field(v, nbytes):
    if v is None:
        return b'\xff' * nbytes
    b = v.encode('latin-1')[:nbytes]
    return b + b' ' * (nbytes - len(b))


def data_uncompressed(subsets):
    """subsets: list (one per subset) of lists of (spec, value)"""
    out = RefBits()
    for fields in subsets:
        for spec, v in fields:
            if spec[0] == STR:
                out.raw(str_field(v, spec[1]))
            else:
                r = raw_of(spec, v)
                out.uint(ones(spec[1]) if r is None else r, spec[1])
    return out.s


def diff_width(maxdiff):
    """Smallest n such that maxdiff + 1 is strictly below the all-ones of n bits."""
    n = 0
    while not (2 ** n - 1 > maxdiff + 1):
        n += 1
    return n


def data_compressed(columns):
    """columns: list of (spec, [value of subset 0, value of subset 1, ...])"""
    out = RefBits()
    for spec, values in columns:
        if spec[0] == STR:
            nbytes = spec[1]
            fields = [str_field(v, nbytes) for v in values]
            if all(v == values[0] for v in values):
                out.raw(fields[0])
                out.uint(0, 6)
            else:
                out.raw(b'\x00' * nbytes)
                out.uint(nbytes, 6)
                for f in fields:
                    out.raw(f)
            continue
        nbits = spec[1]
        raws = [raw_of(spec, v) for v in values]
        present = [r for r in raws if r is not None]
        if all(v == values[0] for v in values):
            out.uint(raws[0] if present else ones(nbits), nbits)
            out.uint(0, 6)
        else:
            mn, mx = min(present), max(present)
            w = diff_width(mx - mn)
            out.uint(mn, nbits)
            out.uint(w, 6)
            for r in raws:
                out.uint(ones(w) if r is None else r - mn, w)
    return out.s


def ref_message(edition, descriptors, n_subsets, compressed, data_bits):
    even = edition <= 3
    # section 1
    s1 = RefBits()
    if edition == 4:
        s1.uint(22, 24); s1.uint(0, 8); s1.uint(98, 16); s1.uint(0, 16); s1.uint(0, 8)
        s1.uint(0, 8)  # no section 2
        s1.uint(2, 8); s1.uint(4, 8); s1.uint(0, 8); s1.uint(25, 8); s1.uint(0, 8)
        s1.uint(2020, 16); s1.uint(1, 8); s1.uint(2, 8); s1.uint(3, 8); s1.uint(4, 8); s1.uint(5, 8)
    else:
        s1.uint(18, 24); s1.uint(0, 8); s1.uint(0, 8); s1.uint(98, 8); s1.uint(0, 8)
        s1.uint(0, 8)  # no section 2
        s1.uint(2, 8); s1.uint(0, 8); s1.uint(25, 8); s1.uint(0, 8)
        s1.uint(20, 8); s1.uint(1, 8); s1.uint(2, 8); s1.uint(3, 8); s1.uint(4, 8); s1.uint(0, 8)
    # section 3
    n3 = 7 + 2 * len(descriptors)
    if even and n3 % 2:
        n3 += 1
    s3 = RefBits()
    s3.uint(n3, 24); s3.uint(0, 8); s3.uint(n_subsets, 16)
    s3.uint(0x80 | (0x40 if compressed else 0), 8)
    for d in descriptors:
        f, x, y = d // 100000, d // 1000 % 100, d % 1000
        s3.uint(f, 2); s3.uint(x, 6); s3.uint(y, 8)
    s3.pad_to(16 if even else 8)
    assert len(s3.s) == 8 * n3
    # section 4
    nbits4 = 32 + len(data_bits)
    n4 = (nbits4 + 7) // 8
    if even and n4 % 2:
        n4 += 1
    s4 = RefBits()
    s4.uint(n4, 24); s4.uint(0, 8)
    s4.s += data_bits
    s4.s += '0' * (8 * n4 - len(s4.s))
    body = s1.tobytes() + s3.tobytes() + s4.tobytes() + b'7777'
    s0 = RefBits()
    s0.raw(b'BUFR'); s0.uint(8 + len(body), 24); s0.uint(edition, 8)
    return s0.tobytes() + body


def make_json(edition, descriptors, compressed, value_lists):
    if edition == 4:
        s1 = [0, 0, 98, 0, 0, False, '0000000', 2, 4, 0, 25, 0, 2020, 1, 2, 3, 4, 5]
    else:
        s1 = [0, 0, 0, 98, 0, False, '0000000', 2, 0, 25, 0, 20, 1, 2, 3, 4, 0]
    return [
        ['BUFR', 0, edition],
        s1,
        [0, '00000000', len(value_lists), True, compressed, '000000', list(descriptors)],
        [0, '00000000', [list(vs) for vs in value_lists]],
        ['7777'],
    ]


def encode(edition, descriptors, compressed, value_lists, **kw):
    # deep-copied input: the encoder must be free to consume its argument
    import copy
    js = copy.deepcopy(make_json(edition, descriptors, compressed, value_lists))
    return Encoder(**kw).process(js).serialized_bytes


def check_uncompressed(name, edition, descriptors, subsets):
    expected = ref_message(edition, descriptors, len(subsets), False, data_uncompressed(subsets))
    value_lists = [[v for _, v in fields] for fields in subsets]
    for kw in ({}, {'compiled_template_cache_max': 10}):
        got = encode(edition, descriptors, False, value_lists, **kw)
        assert got == expected, '{} {}: {!r} != {!r}'.format(name, kw, got, expected)
    return expected


def check_compressed(name, edition, descriptors, columns):
    n_subsets = len(columns[0][1])
    expected = ref_message(edition, descriptors, n_subsets, True, data_compressed(columns))
    value_lists = [[values[i] for _, values in columns] for i in range(n_subsets)]
    for kw in ({}, {'compiled_template_cache_max': 10}):
        got = encode(edition, descriptors, True, value_lists, **kw)
        assert got == expected, '{} {}: {!r} != {!r}'.format(name, kw, got, expected)
    return expected


def expect_raises(name, exc_types, func, *args, **kw):
    try:
        func(*args, **kw)
    except exc_types as e:
        return e
    except BaseException as e:
        raise AssertionError('{}: expected {} but got {!r}'.format(name, exc_types, e))
    raise AssertionError('{}: expected {} but nothing was raised'.format(name, exc_types))


# Elements used by the cases (WMO table B version 25)
E_001001 = (NUM, 7, 0, 0)           # WMO block number
E_001002 = (NUM, 10, 0, 0)          # WMO station number
E_001015 = (STR, 20)                # station name
E_001008 = (STR, 8)                 # aircraft registration
E_012001 = (NUM, 12, 1, 0)          # temperature, scale 1
E_012101 = (NUM, 16, 2, 0)          # temperature, scale 2
E_005001 = (NUM, 25, 5, -9000000)   # latitude high accuracy
E_005002 = (NUM, 15, 2, -9000)      # latitude coarse
E_010004 = (NUM, 14, -1, 0)         # pressure, scale -1
E_020003 = (CODE, 9)                # present weather
E_008042 = (CODE, 18)               # flag table
E_002001 = (CODE, 2)                # type of station
E_031001 = (NUM, 8, 0, 0)           # delayed replication factor

# sha256 of Encoder().process(<tests/data/NAME.json>).serialized_bytes on the unmodified tree
GOLDEN = {
    '207003': '5ca135c4feb83a98a10e1916ad4e9458bfcffc189269eb4f9682a1401edb9bb5',
    'ISMD01_OKPR': 'fcf686e370b355b6da02c5a1138fb0e6bda396fd7f30a17501ce9ee2fbaeebb1',
    'IUSK73_AMMC_182300': 'b310b43d19a21231a91a4f91e0058626a6a6c8f61ed377f4c2fe26d8d19d7c67',
    'amv2_87': 'fa23bfbdedb58cb9697cb2b3de4322a969e6a50a2903a4e7a449f8a1fdd0b13a',
    'asr3_190': '8e182fea106097b716515b3ae9d679df0c1b7968c45b624f291cd92fd0adcd0c',
    'b002_95': '16a2909efaf7d307e25c80e3547c70410bab4c988afa477000d44ce1ac3da03c',
    'b005_89': 'ee42e73b632dbdd00539686c3f4d83c0299cde734c906ad80c96a6e04cd3000d',
    'g2nd_208': 'a30981fcb19b5b238853d0b25cbece4866bc9eefcf83f2b921a825f9a369d487',
    'jaso_214': 'e4011e8414fda39eae62e7dc2514e96035e298ccd7655ecf6f98b587e3194b27',
    'mpco_217': 'c192862b5ab5b1050cceae45d81c8756465fa8618e61f1c8965e60426a325873',
    'profiler_european': '25d982b024a8a3105a81dca743507677da4dc612f008a67605fed8199ddff97f',
    'rado_250': '59439d1ac82290e7636dbcff1312cfcea3f26027978220e0f8a55a8b89274232',
    'uegabe': '9b5f012a9b22496125859baf778b1dafa4fd17ec40d673d5d8280c041b94086f',
}
# For these two the encoder reproduces the original real-world file byte for byte
SAME_AS_BUFR_FILE = ('IUSK73_AMMC_182300', 'rado_250')


def check_test_data_files(names=None, **kw):
    import hashlib
    for name in sorted(names or GOLDEN):
        with open(os.path.join('tests', 'data', name + '.json')) as f:
            js = f.read()
        out = Encoder(**kw).process(js).serialized_bytes
        assert hashlib.sha256(out).hexdigest() == GOLDEN[name], name
        if name in SAME_AS_BUFR_FILE:
            with open(os.path.join('tests', 'data', name + '.bufr'), 'rb') as f:
                assert out == f.read(), name

# ---------------------------------------------------------------------------
# Refactor 2: Encoder.process_numeric_uncompressed / process_numeric_compressed
# ---------------------------------------------------------------------------
import copy
import bitstring
from pybufrkit.bitops import get_bit_writer
from pybufrkit.coder import CoderState

# ---- whole messages, uncompressed -------------------------------------------
check_uncompressed('numeric basics', 4, [1001, 12001, 12101, 5001, 5002, 10004],
    [[(E_001001, 0), (E_012001, 0.0), (E_012101, 273.15), (E_005001, -90.0), (E_005002, 90.0), (E_010004, 101320)],
     [(E_001001, 126), (E_012001, 409.4), (E_012101, 655.34), (E_005001, 90.0), (E_005002, -90.0), (E_010004, 163820)],
     [(E_001001, None), (E_012001, None), (E_012101, None), (E_005001, None), (E_005002, None), (E_010004, None)],
     [(E_001001, 99), (E_012001, 273.2), (E_012101, 0.01), (E_005001, 12.34567), (E_005002, -0.01), (E_010004, 10)]])
check_uncompressed('numeric ed3', 3, [5001, 12001, 1001],
    [[(E_005001, 45.5), (E_012001, None), (E_001001, 7)], [(E_005001, None), (E_012001, 300), (E_001001, None)]])
check_uncompressed('ints given as floats, scale 0', 4, [1001, 1002], [[(E_001001, 12.0), (E_001002, 1022)]])
# delayed replication factor varying per subset
check_uncompressed('delayed replication', 4, [102000, 31001, 12001, 5002, 1001],
    [[(E_031001, 3), (E_012001, 1.5), (E_005002, 1.25), (E_012001, None), (E_005002, None),
      (E_012001, 409.4), (E_005002, -90), (E_001001, 1)],
     [(E_031001, 0), (E_001001, None)],
     [(E_031001, 1), (E_012001, 0.1), (E_005002, 0.0), (E_001001, 126)]])
# operators changing width, scale and reference value
check_uncompressed('201/202', 4, [201130, 202129, 12001, 202000, 201000, 12001],
    [[((NUM, 14, 2, 0), 123.45), (E_012001, 123.4)], [((NUM, 14, 2, 0), None), (E_012001, None)]])
check_uncompressed('207', 4, [207001, 12001, 5002, 207000, 5002],
    [[((NUM, 16, 2, 0), 300.12), ((NUM, 19, 3, -90000), -12.345), (E_005002, -12.34)],
     [((NUM, 16, 2, 0), None), ((NUM, 19, 3, -90000), None), (E_005002, None)]])


def signed_field(v, nbits):
    return (1 << (nbits - 1) if v < 0 else 0) | abs(v)


# 203 YYY: the new reference value itself is a sign-and-magnitude field of YYY bits (given to the
# reference writer as a code value), the following 012001 are relative to it until 203000
for subsets in (
    [[-500, -40.5, 40.5]],
    [[-500, None, None], [-500, 359.4, 0]],
    [[300, 30.0, 1.0]],
):
    fields = [[((CODE, 12), signed_field(vs[0], 12)), ((NUM, 12, 1, vs[0]), vs[1]), (E_012001, vs[2])] for vs in subsets]
    expected = ref_message(4, [203012, 12001, 203255, 12001, 203000, 12001], len(subsets), False, data_uncompressed(fields))
    for kw in ({}, {'compiled_template_cache_max': 3}):
        assert encode(4, [203012, 12001, 203255, 12001, 203000, 12001], False, subsets, **kw) == expected, subsets

# ---- whole messages, compressed ---------------------------------------------
check_compressed('all equal / all missing / one subset', 4, [1001, 12001, 5001],
    [(E_001001, [17]), (E_012001, [None]), (E_005001, [-45.12345])])
check_compressed('columns', 4, [1001, 1002, 12001, 12101, 5001, 5002, 10004, 1001, 1001, 1001],
    [(E_001001, [5, 5, 5, 5]),                      # equal
     (E_001002, [None, None, None, None]),          # all missing
     (E_012001, [273.2, None, 273.2, 273.2]),       # missing next to equal ones: width 2, diffs 0 / 3
     (E_012101, [0.0, 655.34, None, 300.0]),        # full range
     (E_005001, [-90.0, 90.0, 0.0, None]),
     (E_005002, [1.00, 1.01, 1.02, 1.00]),          # max diff 2 -> 2 + 1 is all ones -> width 3
     (E_010004, [100000, 100010, None, 100000]),    # max diff 1 -> width 2
     (E_001001, [0, 126, 0, 126]),
     (E_001001, [None, None, None, 0]),
     (E_001001, [1, 7, 3, None])])                  # max diff 6 -> 7 is all ones -> width 4
check_compressed('ed3 compressed', 3, [12001, 5002],
    [(E_012001, [250.0, 251.5]), (E_005002, [None, -12.5])])
check_compressed('delayed replication shared', 4, [101000, 31001, 12001, 1001],
    [(E_031001, [2, 2, 2]), (E_012001, [1.0, 2.0, 3.0]), (E_012001, [None, 4.4, None]), (E_001001, [9, 9, 9])])
check_compressed('207 compressed', 4, [207002, 5002, 207000, 5002],
    [((NUM, 22, 4, -900000), [1.2345, None, -1.2345]), (E_005002, [1.23, 1.23, 1.23])])
for columns in ([[-500, -500], [-40.5, None], [40.5, 41.5]], [[7, 7, 7], [1.0, 1.0, 1.0], [None, None, None]]):
    cols = [((CODE, 12), [signed_field(v, 12) for v in columns[0]]),
            ((NUM, 12, 1, columns[0][0]), columns[1]), (E_012001, columns[2])]
    n = len(columns[0])
    expected = ref_message(4, [203012, 12001, 203255, 12001, 203000, 12001], n, True, data_compressed(cols))
    vls = [[c[i] for c in columns] for i in range(n)]
    for kw in ({}, {'compiled_template_cache_max': 3}):
        assert encode(4, [203012, 12001, 203255, 12001, 203000, 12001], True, vls, **kw) == expected, columns

# ---- the input is not modified, neither uncompressed nor compressed -------------------
for compressed in (False, True):
    js = make_json(4, [12001, 5002, 1001], compressed, [[273.2, None, 1], [None, 1.5, 1], [300.0, -1.5, 1]])
    before = copy.deepcopy(js[3][2])
    msg = Encoder().process(js)
    assert js[3][2] == before, js[3][2]
    # the values kept by the message object are the given ones, not the raw integers
    assert msg.template_data.value.decoded_values_all_subsets == before

# ---- direct calls: state bookkeeping, writes, return value ------------------------------
D = object()  # any descriptor object, it is only recorded


def direct_uncompressed(values, nbits, scale_powered, refval):
    state = CoderState(False, 1, [list(values)])
    state.switch_subset_context(0)
    state.idx_value = 0
    w = get_bit_writer()
    enc = Encoder()
    out = []
    for _ in values:
        start = w.get_pos()
        assert enc.process_numeric_uncompressed(state, w, D, nbits, scale_powered, refval) is None
        assert w.get_pos() - start == nbits
        out.append(w.bit_stream[start:].uint)
    assert state.idx_value == len(values)
    assert state.decoded_descriptors == [D] * len(values)
    assert state.decoded_values == list(values)
    return out


assert direct_uncompressed([1, None, 2.5, 0], 12, 10.0, 0) == [10, 4095, 25, 0]
assert direct_uncompressed([1, None, 0], 12, 1.0, -7) == [8, 4095, 7]
assert direct_uncompressed([1, None, 0], 12, 1, 0) == [1, 4095, 0]
assert direct_uncompressed([1.6], 12, 1.0, 0) == [1]           # scale 0: no rounding, write_uint truncates
assert direct_uncompressed([1.6], 12, 1.0, 1) == [0]
assert direct_uncompressed([0.5, 1.5, 2.5], 8, 1.0000001, 0) == [1, 2, 3]
assert direct_uncompressed([0.25, 0.35], 8, 10.0, 0) == [2, 4]  # round half even of 2.5, 3.5
assert direct_uncompressed([True, False], 4, 1.0, 0) == [1, 0]
assert direct_uncompressed([None], 64, 10.0, 5) == [2 ** 64 - 1]


def direct_compressed(values, nbits, scale_powered, refval):
    rows = [[v] for v in values]
    state = CoderState(True, len(values), rows)
    w = get_bit_writer()
    assert Encoder().process_numeric_compressed(state, w, D, nbits, scale_powered, refval) is None
    assert state.idx_value == 1 and state.decoded_descriptors == [D]
    assert rows == [[v] for v in values]
    bits = w.bit_stream.bin
    mn, nbd, rest = int(bits[:nbits], 2), int(bits[nbits:nbits + 6], 2), bits[nbits + 6:]
    assert len(rest) == nbd * len(values) if nbd else rest == ''
    return mn, nbd, [int(rest[i * nbd:(i + 1) * nbd], 2) for i in range(len(values))] if nbd else []


assert direct_compressed([None, None], 12, 10.0, 3) == (4095, 0, [])
assert direct_compressed([2.5, 2.5], 12, 10.0, 3) == (22, 0, [])
assert direct_compressed([2, 2.0], 12, 1.0, 0) == (2, 0, [])
assert direct_compressed([2.5], 12, 10.0, -3) == (28, 0, [])
assert direct_compressed([None], 12, 10.0, -3) == (4095, 0, [])
assert direct_compressed([2.5, None], 12, 10.0, 3) == (22, 2, [0, 3])
assert direct_compressed([None, 2.5, 2.5], 12, 10.0, 3) == (22, 2, [3, 0, 0])
assert direct_compressed([2.5, 2.6], 12, 10.0, 3) == (22, 2, [0, 1])
# values that agree after scaling: one field, width 0 - unless an entry is missing
assert direct_compressed([2.51, 2.52, 2.49], 12, 10.0, 3) == (22, 0, [])
assert direct_compressed([2.51, None, 2.49], 12, 10.0, 3) == (22, 2, [0, 3, 0])
assert direct_compressed([2.7, 2.5, None], 12, 10.0, 3) == (22, 3, [2, 0, 7])
assert direct_compressed([0, 6, 3], 12, 1.0, 0) == (0, 4, [0, 6, 3])
assert direct_compressed([0, 7, 3], 12, 1.0, 0) == (0, 4, [0, 7, 3])
assert direct_compressed([10, 7, 3], 12, 1.0, -5) == (8, 4, [7, 4, 0])
assert direct_compressed([0, 4093], 12, 1.0, 0) == (0, 12, [0, 4093])
assert direct_compressed([0, 4094], 12, 1.0, 0) == (0, 13, [0, 4094])                # 4095 is all ones -> 13 bits
assert direct_compressed([0, 4094, None], 12, 1.0, 0) == (0, 13, [0, 4094, 8191])
# floats that differ, with scale 0 (hence not rounded to int): bin() of the float range fails
expect_raises('float range', TypeError, direct_compressed, [1.0, 2], 12, 1.0, 0)
expect_raises('float range', TypeError, direct_compressed, [1, 2.0, None], 12, 1.0, 5)
assert direct_compressed([True, 3], 4, 1.0, 0) == (1, 3, [0, 2])

# ---- error cases --------------------------------------------------------------------
for compressed in (False, True):
    # does not fit the width (the all-ones value itself still fits: it is written as missing)
    expect_raises('too large', bitstring.CreationError, encode, 4, [1001], compressed, [[128], [128]])
    expect_raises('negative raw', bitstring.CreationError, encode, 4, [5002], compressed, [[-90.01], [-90.01]])
    expect_raises('negative raw, varying', bitstring.CreationError, encode, 4, [5002], compressed, [[-90.01], [0]])
    # not a number
    expect_raises('str, scale 1', TypeError, encode, 4, [12001], compressed, [['12.5'], ['12.5']])
    expect_raises('str, varying', TypeError, encode, 4, [12001], compressed, [['12.5'], [1]])
    expect_raises('str, scale 0, ref', TypeError, encode, 4, [5002, 1001], compressed, [['1', 1], [1, 1]])
    expect_raises('str, scale 0', ValueError, encode, 4, [1001], compressed, [['x'], ['x']])
    expect_raises('list', TypeError, encode, 4, [12001], compressed, [[[1]], [[2]]])
    # not enough values
    expect_raises('too few values', IndexError, encode, 4, [1001, 12001], compressed, [[1], [1]])
expect_raises('str, scale 0, varying', TypeError, encode, 4, [1001], True, [['x'], ['y']])
expect_raises('str and int, scale 0', TypeError, encode, 4, [1001], True, [['x'], [1]])
assert encode(4, [1001], False, [[127]]) == encode(4, [1001], False, [[None]])
# a difference that needs more than 63 bits of width cannot be written in 6 bits
expect_raises('huge range', bitstring.CreationError, Encoder().process_numeric_compressed,
              CoderState(True, 2, [[0], [2 ** 70]]), get_bit_writer(), D, 12, 1.0, 0)


def uncompressed_state(values):
    state = CoderState(False, 1, [values])
    state.switch_subset_context(0)
    state.idx_value = 0
    return state


# width above 64 bits (206YYY, 204YYY): missing values are known up to 255 bits
w = get_bit_writer()
Encoder().process_numeric_uncompressed(uncompressed_state([None]), w, D, 65, 1.0, 0)
assert w.get_pos() == 65 and w.bit_stream.uint == 2 ** 65 - 1
w = get_bit_writer()
Encoder().process_numeric_compressed(CoderState(True, 2, [[None], [None]]), w, D, 65, 1.0, 0)
assert w.get_pos() == 71 and w.bit_stream.bin == '1' * 65 + '000000'
# width above 255 bits: no missing value is known for it, but only a missing entry asks for it
expect_raises('missing in 256 bits', IndexError, Encoder().process_numeric_uncompressed,
              uncompressed_state([None]), get_bit_writer(), D, 256, 1.0, 0)
w = get_bit_writer()
Encoder().process_numeric_uncompressed(uncompressed_state([5]), w, D, 256, 1.0, 0)
assert w.get_pos() == 256 and w.bit_stream.uint == 5
expect_raises('all missing in 256 bits', IndexError, Encoder().process_numeric_compressed,
              CoderState(True, 2, [[None], [None]]), get_bit_writer(), D, 256, 1.0, 0)
# ... and a failing call has recorded the descriptor and advanced the index before it failed
st = CoderState(True, 2, [['a'], [1]])
expect_raises('str * float', TypeError, Encoder().process_numeric_compressed, st, get_bit_writer(), D, 12, 10.0, 0)
assert st.idx_value == 1 and st.decoded_descriptors == [D] and st.decoded_values_all_subsets == [['a'], [1]]
st = uncompressed_state(['a'])
w = get_bit_writer()
expect_raises('str * float', TypeError, Encoder().process_numeric_uncompressed, st, w, D, 12, 10.0, 0)
assert st.idx_value == 1 and st.decoded_descriptors == [D] and w.get_pos() == 0

# ---- the files of the test suite ------------------------------------------------------
check_test_data_files()
check_test_data_files(('207003', 'jaso_214', 'rado_250', 'mpco_217'), compiled_template_cache_max=5)

print('demo 2 OK')
