import os, sys; sys.path.insert(0, os.getcwd())

import itertools
import json

from pybufrkit.encoder import Encoder
from pybufrkit.decoder import Decoder
from pybufrkit.errors import PyBufrKitError
from pybufrkit.renderer import NestedJsonRenderer

# --------------------------------------------------------------------------
# Harness: build a message from descriptor ids and values, encode it, decode it
# both by walking the template and through the compiled template, and check
# that the three of them agree on the bitmap links.
ENCODER = Encoder(ignore_declared_length=True)
DECODERS = [Decoder(), Decoder(compiled_template_cache_max=16)]
RENDERER = NestedJsonRenderer()


def make_json(ids, subsets, compressed):
    return [["BUFR", 0, 3],
            [18, 0, 0, 98, 0, False, "0000000", 21, 202, 15, 0, 12, 11, 2, 0, 0, 0],
            [10, "00000000", len(subsets), True, compressed, "000000", list(ids)],
            [0, "00000000", [list(s) for s in subsets]],
            ["7777"]]


def run(ids, subsets, compressed=False):
    """Return (links of all subsets, the decoded message)."""
    if not isinstance(subsets[0], (list, tuple)):
        subsets = [subsets]
    encoded = ENCODER.process(json.dumps(make_json(ids, subsets, compressed)))
    decoded = [d.process(encoded.serialized_bytes) for d in DECODERS]
    links = [m.template_data.value.bitmap_links_all_subsets for m in [encoded] + decoded]
    assert links[0] == links[1] == links[2], links
    values = [m.template_data.value.decoded_values_all_subsets for m in decoded]
    assert values[0] == values[1]
    assert RENDERER.render(decoded[0]) == RENDERER.render(decoded[1])
    assert len(links[1]) == len(subsets)
    return [dict(x) for x in links[1]], decoded[0]


def error_of(ids, subsets, compressed=False):
    """Name of the exception raised for the message, None if there is none."""
    try:
        run(ids, subsets, compressed)
    except Exception as e:
        return type(e).__name__
    return None


def owners(message, idx_subset=0):
    """
    From the hierarchical view: [(owner id, owner value, [attribute, ...]), ...]
    for every element (not marker) node with attributes, in document order, where each attribute is
    (id, description, value, meaning) and meaning is (id, value) or None.
    """
    found = []

    def attr(a):
        meaning = None
        if 'attributes' in a:
            assert len(a['attributes']) == 1
            meaning = (a['attributes'][0]['id'], a['attributes'][0]['value'])
        return a['id'], a['description'], a['value'], meaning

    def walk(nodes):
        for n in nodes:
            if isinstance(n, list):
                walk(n)
                continue
            if 'factor' in n:
                walk([n['factor']])
            if 'attributes' in n and n['id'].isdigit():
                found.append((n['id'], n['value'], [attr(a) for a in n['attributes']]))
            if 'members' in n:
                walk(n['members'])

    walk(RENDERER.render(message)[3][2]['value'][idx_subset])
    return found


# --------------------------------------------------------------------------
from pybufrkit.descriptors import OperatorDescriptor
from pybufrkit.templatedata import (TemplateData, ValueDataNode, NoValueDataNode, AssociatedFieldNode,
                                    FirstOrderStatsNode, DifferenceStatsNode, SubstitutionNode,
                                    ReplacementNode, QualityInfoNode, DelayedReplicationNode,
                                    FixedReplicationNode, SequenceNode)


def index_nodes(nodes, found=None):
    """All value nodes of the hierarchy by their flat index; every index must occur once."""
    found = {} if found is None else found
    for node in nodes:
        if isinstance(node, NoValueDataNode):
            if isinstance(node, DelayedReplicationNode):
                index_nodes([node.factor], found)
            index_nodes(getattr(node, 'members', []), found)
        else:
            assert node.index not in found
            found[node.index] = node
    return found


def attributes_of(nodes):
    """{owner index: [(attribute type name, attribute index), ...]} for every node that has attributes."""
    out = {}
    for index, node in index_nodes(nodes).items():
        if hasattr(node, 'attributes'):
            out[index] = [(type(a).__name__, a.index) for a in node.attributes]
    return out


def rewire(message, links_all_subsets=None):
    """A fresh TemplateData over the decoded flat lists of the message, optionally with other links."""
    td = message.template_data.value
    fresh = TemplateData(td.template, td.is_compressed,
                         td.decoded_descriptors_all_subsets, td.decoded_values_all_subsets,
                         td.bitmap_links_all_subsets if links_all_subsets is None else links_all_subsets)
    fresh.wire()
    return fresh


# Everything at once: sequence, delayed and fixed replication before the
# operators; quality information, substituted, first order statistics,
# difference statistics and replaced values over one reused bitmap.
#   flat: 0 004001  1 004002  2 004003  3 031001  4 012001  5 012001  6 010004  7 011001  8 010004  9 011001
ids = [301011, 101000, 31001, 12001, 102002, 10004, 11001,
       222000, 236000, 101007, 31031, 33007, 33007, 33007,   # 10, 11, 12-18, 19-21
       223000, 237000, 223255, 223255, 223255,               # 22, 23, 24-26
       224000, 237000, 8023, 224255, 224255, 224255,         # 27, 28, 29, 30-32
       225000, 237000, 8024, 225255, 225255, 225255,         # 33, 34, 35, 36-38
       232000, 237000, 232255, 232255, 232255,               # 39, 40, 41-43
       235000, 12004]                                        # (no value), 44
bits = [0, 1, 1, 0, 1, 1, 0]  # over flat 3..9: 031001, 010004 (1st repeat), 011001 (2nd repeat)
vals = [2020, 1, 2, 2, 280.0, 281.0, 100000.0, 120, 100100.0, 130,
        0, 0] + bits + [51, 52, 53,
        0, 0, 3, 99000.0, 140,
        0, 0, 4, 2, 100500.0, 125,
        0, 0, 2, -1, -20.0, -5,
        0, 0, 1, 99500.0, 135,
        283.0]
OWNERS = [3, 6, 9]
expected_links = {}
for start in (19, 24, 30, 36, 41):
    for k, owner in enumerate(OWNERS):
        expected_links[start + k] = owner
TYPES = {19: QualityInfoNode, 24: SubstitutionNode, 30: FirstOrderStatsNode,
         36: DifferenceStatsNode, 41: ReplacementNode}

for compressed, n in ((False, 1), (False, 2), (True, 1), (True, 3)):
    links, msg = run(ids, [vals] * n, compressed)
    assert links == [expected_links] * n, links
    td = msg.template_data.value
    assert td.decoded_values_all_subsets[n - 1] == vals
    if compressed:
        assert all(nodes is td.decoded_nodes_all_subsets[0] for nodes in td.decoded_nodes_all_subsets)
    for i in range(n):
        top = td.decoded_nodes_all_subsets[i]
        assert [type(x) for x in top[:3]] == [SequenceNode, DelayedReplicationNode, FixedReplicationNode]
        assert type(top[-2]) is NoValueDataNode and str(top[-2].descriptor) == '235000'
        by_index = index_nodes(top)
        assert sorted(by_index) == list(range(45))
        # types of the nodes in their own (flat) position
        for start, node_type in TYPES.items():
            for k in range(3):
                assert type(by_index[start + k]) is node_type
        for plain in (0, 3, 4, 5, 6, 9, 10, 11, 12, 18, 22, 23, 27, 28, 29, 33, 34, 35, 39, 40, 44):
            assert type(by_index[plain]) is ValueDataNode, plain
        # each owner has the five values of its own zero bit, in template order, and nothing else has attributes
        for k, owner in enumerate(OWNERS):
            assert by_index[owner].attributes == [by_index[start + k] for start in (19, 24, 30, 36, 41)]
            # the attribute IS the node of the flat position, not a copy
            assert all(a is by_index[a.index] for a in by_index[owner].attributes)
        for k in range(3):
            assert by_index[30 + k].attributes == [by_index[29]]      # 008023
            assert by_index[36 + k].attributes == [by_index[35]]      # 008024
            assert by_index[30 + k].attributes[0] is by_index[29]
            for start in (19, 24, 41):
                assert not hasattr(by_index[start + k], 'attributes')
        assert sorted(i_ for i_, x in by_index.items() if hasattr(x, 'attributes')) == \
            sorted(OWNERS + [30, 31, 32, 36, 37, 38])
        # and the same in the rendered view
        assert owners(msg, i) == [
            ('031001', 2, [('033007', 'PER CENT CONFIDENCE', 51, None), ('T31001', '223255', 3, None),
                           ('F31001', '224255', 2, ('008023', 4)), ('D31001', '225255', -1, ('008024', 2)),
                           ('R31001', '232255', 1, None)]),
            ('010004', 100000.0, [('033007', 'PER CENT CONFIDENCE', 52, None), ('T10004', '223255', 99000.0, None),
                                  ('F10004', '224255', 100500.0, ('008023', 4)),
                                  ('D10004', '225255', -20.0, ('008024', 2)),
                                  ('R10004', '232255', 99500.0, None)]),
            ('011001', 130, [('033007', 'PER CENT CONFIDENCE', 53, None), ('T11001', '223255', 140, None),
                             ('F11001', '224255', 125, ('008023', 4)), ('D11001', '225255', -5, ('008024', 2)),
                             ('R11001', '232255', 135, None)])], owners(msg, i)

    # wiring is done once only
    before = [list(x) for x in td.decoded_nodes_all_subsets]
    td.wire()
    assert [list(x) for x in td.decoded_nodes_all_subsets] == before

    # the wiring follows the links and nothing else: other links, other owners
    moved = dict(expected_links)
    moved.update({19: 0, 24: 7, 30: 29, 36: 10, 41: 2})
    td2 = rewire(msg, [moved] * n)
    got = attributes_of(td2.decoded_nodes_all_subsets[n - 1])
    assert got[0] == [('QualityInfoNode', 19)] and got[7] == [('SubstitutionNode', 24)]
    assert got[29] == [('FirstOrderStatsNode', 30)] and got[10] == [('DifferenceStatsNode', 36)]
    assert got[2] == [('ReplacementNode', 41)]
    assert 3 not in got  # all five values of the first zero bit went elsewhere
    assert got[6] == [('QualityInfoNode', 20), ('SubstitutionNode', 25), ('FirstOrderStatsNode', 31),
                                   ('DifferenceStatsNode', 37), ('ReplacementNode', 42)]

    # a value without a link, or linked to something that is not there (yet), cannot be wired
    for position in (19, 25, 31, 37, 43):
        for bad in (None, 99, position + 1):
            broken = dict(expected_links)
            if bad is None:
                del broken[position]
            else:
                broken[position] = bad
            try:
                rewire(msg, [broken] * n)
            except KeyError:
                pass
            else:
                raise AssertionError('expected KeyError')

# the meaning of statistics is the most recent 008023 / 008024 announced by
# the operator: two blocks with different meanings; 008023 elsewhere is an ordinary element
B = [8023, 12001, 10004]
BV = [9, 280.5, 101000.0]
ids = B + [224000, 236000, 101002, 31031, 8023, 224255, 224255,
           224000, 237000, 8023, 224255, 224255,
           224000, 237000, 224255, 224255]
vals = BV + [0, 0, 0, 0, 4, 281.0, 100900.0,
             0, 0, 5, 282.0, 100800.0,
             0, 0, 283.0, 100700.0]
for compressed, n in ((False, 1), (False, 2), (True, 2)):
    links, msg = run(ids, [vals] * n, compressed)
    assert links == [{8: 1, 9: 2, 13: 1, 14: 2, 17: 1, 18: 2}] * n
    assert owners(msg, n - 1) == [
        ('012001', 280.5, [('F12001', '224255', 281.0, ('008023', 4)), ('F12001', '224255', 282.0, ('008023', 5)),
                           ('F12001', '224255', 283.0, ('008023', 5))]),
        ('010004', 101000.0, [('F10004', '224255', 100900.0, ('008023', 4)),
                              ('F10004', '224255', 100800.0, ('008023', 5)),
                              ('F10004', '224255', 100700.0, ('008023', 5))])], owners(msg, n - 1)
    by_index = index_nodes(msg.template_data.value.decoded_nodes_all_subsets[n - 1])
    assert not hasattr(by_index[0], 'attributes') and type(by_index[0]) is ValueDataNode

# statistics without their meaning cannot be shown
for operator, meaning in ((224, 8023), (225, 8024)):
    base = [12001, 10004, operator * 1000, 101002, 31031]
    assert error_of(base + [operator * 1000 + 255], [280.5, 101000.0, 0, 0, 1, 1.0]) == 'AttributeError'
    # the meaning of the other kind of statistics does not count
    other = 8024 if meaning == 8023 else 8023
    assert error_of(base + [other, operator * 1000 + 255], [280.5, 101000.0, 0, 0, 1, 2, 1.0]) == 'AttributeError'
    assert error_of(base + [meaning, operator * 1000 + 255], [280.5, 101000.0, 0, 0, 1, 2, 1.0]) is None
# whereas substituted and replaced values have none
for operator in (223, 232):
    links, msg = run([12001, 10004, operator * 1000, 101002, 31031, operator * 1000 + 255],
                     [280.5, 101000.0, 0, 1, 0, 100500.0])
    assert links == [{5: 1}]
    assert [(o[0], [a[3] for a in o[2]]) for o in owners(msg)] == [('010004', [None])]

# associated fields: the field belongs to the element it precedes, with the
# 031021 in force as its meaning; class 31 has no associated field; 204000 ends it
ids = [204008, 31021, 12001, 101000, 31001, 10004, 204000, 11001,
       222000, 101002, 31031, 33007]
vals = [1, 7, 280.5, 2, 8, 101000.0, 9, 101100.0, 120,
        0, 1, 0, 66]
for compressed, n in ((False, 1), (False, 2), (True, 2)):
    links, msg = run(ids, [vals] * n, compressed)
    #  flat: 0 031021  1 A12001  2 012001  3 031001  4 A10004  5 010004  6 A10004  7 010004  8 011001
    #        9 222000  10 11 031031  12 033007
    assert links == [{12: 8}] * n, links
    top = msg.template_data.value.decoded_nodes_all_subsets[n - 1]
    by_index = index_nodes(top)
    assert sorted(by_index) == [0, 2, 3, 5, 7, 8, 9, 10, 11, 12]  # associated fields only live as attributes
    for owner in (2, 5, 7):
        (assoc,) = by_index[owner].attributes
        assert type(assoc) is AssociatedFieldNode and assoc.index == owner - 1
        assert assoc.attributes == [by_index[0]] and assoc.attributes[0] is by_index[0]
    assert not hasattr(by_index[3], 'attributes') and not hasattr(by_index[0], 'attributes')
    assert [type(a) for a in by_index[8].attributes] == [QualityInfoNode]
    assert owners(msg, n - 1) == [
        ('012001', 280.5, [('A12001', 'AssociatedField', 7, ('031021', 1))]),
        ('010004', 101000.0, [('A10004', 'AssociatedField', 8, ('031021', 1))]),
        ('010004', 101100.0, [('A10004', 'AssociatedField', 9, ('031021', 1))]),
        ('011001', 120, [('033007', 'PER CENT CONFIDENCE', 66, None)])], owners(msg, n - 1)

# an associated field without 031021 has no meaning to show
assert error_of([204008, 12001], [7, 280.5]) == 'AttributeError'

# operators that are not implemented are refused, without a node being added
td = rewire(run([12001], [280.5])[1])
td.decoded_nodes = []
for id_ in (241000, 242000, 243255, 209000):
    try:
        td.wire_operator_descriptor(OperatorDescriptor(id_))
    except NotImplementedError:
        assert td.decoded_nodes == []
    else:
        raise AssertionError('expected NotImplementedError')

print('demo 4 OK')
