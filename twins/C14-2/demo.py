"""
Demo for refactor 2: TableD.__init__ (two-pass loading) and TableD.lookup.

Run as: cd /tmp/tw_C14 && /venv/bin/python _out/2/demo.py
"""
import os, sys; sys.path.insert(0, os.getcwd())

import json

from pybufrkit.constants import DEFAULT_TABLES_DIR
from pybufrkit.errors import PyBufrKitError
from pybufrkit.tables import (TableGroupCacheManager, TableGroupKey, TableB, TableC, TableR, TableD)
from pybufrkit.descriptors import (ElementDescriptor, FixedReplicationDescriptor, ReplicationDescriptor,
                                   DelayedReplicationDescriptor, OperatorDescriptor, BufrTemplate,
                                   SequenceDescriptor, UndefinedElementDescriptor,
                                   UndefinedSequenceDescriptor, flat_member_ids)

ROOT = os.path.join(DEFAULT_TABLES_DIR, '0')


def load(centres, version, name):
    with open(os.path.join(ROOT, centres, version, name)) as ins:
        return json.load(ins)


def expand(id_, scopes):
    """
    Direct expansion of the table files. `scopes` is a list of dicts, the
    first one is the file the id is looked up first (local), the last the WMO
    file. A sequence found in scopes[k] resolves its own members in scopes[k:],
    as a WMO sequence never sees the local definitions.
    """
    for k, scope in enumerate(scopes):
        if id_ in scope:
            ret = []
            for member_id in scope[id_]:
                if member_id >= 300000:
                    ret.extend(expand(member_id, scopes[k:]))
                else:
                    ret.append(member_id)
            return ret
    return [id_]  # not a known sequence: stays


SHORT_REPLICATIONS = set()
ODD_FACTORS = set()


def check_members(members, b_fields, table_group, n_seen):
    """Walk the tree: replication ownership and Table B attributes"""
    for member in members:
        if isinstance(member, ReplicationDescriptor):
            n_ids = len(BufrTemplate(members=member.members).original_descriptor_ids)
            assert n_ids <= member.n_items, (member, n_ids)
            if n_ids < member.n_items:  # the list of the table file ran out (ill-defined entry)
                SHORT_REPLICATIONS.add(member.id)
            if isinstance(member, DelayedReplicationDescriptor):
                # whatever follows is taken as the factor, looked up in Table B
                if member.factor.X != 31:
                    ODD_FACTORS.add(member.factor.id)
                if member.factor.id in b_fields:
                    assert member.factor is table_group.B.descriptors[member.factor.id]
                else:
                    assert type(member.factor) is UndefinedElementDescriptor
            else:
                assert type(member) is FixedReplicationDescriptor
            check_members(member.members, b_fields, table_group, n_seen)
        elif type(member) is SequenceDescriptor:
            assert member.members is not None
        elif type(member) is ElementDescriptor:
            fields = b_fields[member.id]
            assert member is table_group.B.descriptors[member.id]
            assert member.as_list() == [member.id] + fields[:5]
            assert [member.crex_unit, member.crex_scale, member.crex_nchars] == fields[5:]
            n_seen[0] += 1
        elif type(member) is OperatorDescriptor:
            assert 200000 <= member.id < 300000
        else:
            assert type(member) in (UndefinedElementDescriptor, UndefinedSequenceDescriptor), type(member)
            if member.id >= 300000:
                assert type(member) is UndefinedSequenceDescriptor
                assert member.id not in table_group.D.descriptors
            else:
                assert type(member) is UndefinedElementDescriptor
                assert member.id not in b_fields


def check_table_group(table_group, d_scopes, b_fields):
    n_elements = [0]
    merged_ids = set()
    for scope in d_scopes:
        merged_ids.update(scope)
    assert set(table_group.D.descriptors) == merged_ids
    for id_ in sorted(merged_ids):
        sequence = table_group.lookup(id_)
        assert type(sequence) is SequenceDescriptor and sequence.id == id_
        assert sequence is table_group.D.lookup(str(id_)) is table_group.D.descriptors[id_]
        own_ids = next(scope[id_] for scope in d_scopes if id_ in scope)
        # flatten back gives the list of the file
        assert BufrTemplate(members=sequence.members).original_descriptor_ids == own_ids, id_
        # full expansion equals the direct expansion of the file(s)
        assert flat_member_ids(sequence) == expand(id_, d_scopes), id_
        # and a template of the single sequence gives the same
        template = table_group.template_from_ids(id_)
        assert template.original_descriptor_ids == [id_]
        assert template.members[0] is sequence
        assert flat_member_ids(template) == expand(id_, d_scopes)
        check_members(sequence.members, b_fields, table_group, n_elements)
    return len(merged_ids), n_elements[0]


def as_int_table_d(data):
    return {int(k): [int(m) for m in v[1]] for k, v in data.items()}


n_sequences = n_elements = 0

# --- every bundled master table version -------------------------------------------------
versions = sorted(os.listdir(os.path.join(ROOT, '0_0')), key=int)
assert len(versions) == 36
for version in versions:
    wmo_d = load('0_0', version, 'TableD.json')
    wmo_b = {int(k): v for k, v in load('0_0', version, 'TableB.json').items()}
    tg = TableGroupCacheManager.get_table_group(master_table_version=int(version))
    assert tg.key.wmo_tables_sn == ('0', '0_0', version) and tg.key.local_tables_sn is None
    for k, v in wmo_d.items():
        assert tg.D.descriptors[int(k)].name == v[0]
    ns, ne = check_table_group(tg, [as_int_table_d(wmo_d)], wmo_b)
    n_sequences += ns
    n_elements += ne

# --- the local tables (on top of the default master version) -----------------------------
wmo_d = as_int_table_d(load('0_0', '33', 'TableD.json'))
wmo_b = {int(k): v for k, v in load('0_0', '33', 'TableB.json').items()}
for local_version in sorted(os.listdir(os.path.join(ROOT, '98_0')), key=int):
    local_d = as_int_table_d(load('98_0', local_version, 'TableD.json'))
    local_b = {int(k): v for k, v in load('98_0', local_version, 'TableB.json').items()}
    merged_b = dict(wmo_b)
    merged_b.update(local_b)
    tg = TableGroupCacheManager.get_table_group(originating_centre=98, local_table_version=int(local_version))
    assert tg.key.local_tables_sn == ('0', '98_0', local_version)
    ns, ne = check_table_group(tg, [local_d, wmo_d], merged_b)
    n_sequences += ns
    n_elements += ne

assert n_sequences > 20000, n_sequences
# the only entries of the bundled files where a replication wants more than the list has:
# 313043 of version 6 (112000 ... 110000 ...) and the local 312209 (104000 022192 102000 005232 022191)
assert SHORT_REPLICATIONS == {112000, 110000, 104000, 102000}, SHORT_REPLICATIONS
assert ODD_FACTORS == {22192, 5232}, ODD_FACTORS  # the same local 312209

# --- hand made Table D contents through extra entries -----------------------------------
key = TableGroupKey(DEFAULT_TABLES_DIR, ('0', '0_0', '33'), None)
b, c, r = TableB(key), TableC(key), TableR(key)


def table_d(extra):
    return TableD(b, c, r, key, extra)


d = table_d({
    '399001': ['uses a later one', ['399002', '001001', '301011']],
    '399002': ['later', ['004001', '101000', '031001', '399004']],
    '399003': ['refers to itself', ['399003']],
    '399004': ['empty', []],
    '399005': ['unknown members', ['063255', '363255', '102002', '063254', '363254']],
    '301011': ['redefined', ['004001']],
})
s1, s2, s3, s4, s5 = [d.lookup(i) for i in (399001, 399002, 399003, 399004, 399005)]
assert [s.name for s in (s1, s2, s3, s4, s5)] == ['uses a later one', 'later', 'refers to itself', 'empty',
                                                  'unknown members']
assert s1.members[0] is s2 and s1.members[1] is b.descriptors[1001]
assert s2.members[1].members == [s4] and s2.members[1].factor is b.descriptors[31001]
assert s3.members == [s3]
assert s4.members == []
assert flat_member_ids(s1) == [4001, 101000, 31001, 1001, 4001]
assert [type(m) for m in s5.members] == [UndefinedElementDescriptor, UndefinedSequenceDescriptor,
                                         FixedReplicationDescriptor]
assert [type(m) for m in s5.members[2].members] == [UndefinedElementDescriptor, UndefinedSequenceDescriptor]
assert flat_member_ids(s5) == [63255, 363255, 102002, 63254, 363254]
# the redefinition supersedes the WMO one for lookups and for the entries of the same file ...
new_301011 = d.lookup(301011)
assert new_301011.name == 'redefined' and flat_member_ids(new_301011) == [4001]
assert s1.members[2] is new_301011
# ... but the WMO sequences still hold the WMO definition
old_301011 = d.lookup(340009).members[4]
assert old_301011.id == 301011 and old_301011 is not new_301011
assert flat_member_ids(old_301011) == [4001, 4002, 4003]
# every table instance has descriptors of its own
d_plain = table_d(())
assert d_plain.lookup(301011) is not d.lookup(301011) and d_plain.lookup(301011) is not old_301011
assert 399001 not in d_plain.descriptors
assert flat_member_ids(d_plain.lookup(301011)) == [4001, 4002, 4003]
assert len(d.descriptors) == len(d_plain.descriptors) + 5

# keys which are integers are fine as well
d = table_d({399010: ['', [399011, '004001']], 399011: ['', [5001]]})
assert flat_member_ids(d.lookup(399010)) == [5001, 4001]

# lookup of ids
assert d.lookup('399010') is d.lookup(399010) is d.lookup(399010.0) is d.descriptors[399010]
u1, u2 = d.lookup(399999), d.lookup('399999')
assert type(u1) is type(u2) is UndefinedSequenceDescriptor and u1 is not u2 and u1.id == u2.id == 399999
assert not isinstance(u1, SequenceDescriptor)
assert 399999 not in d.descriptors
assert type(d.lookup(1001)) is UndefinedSequenceDescriptor  # no check of the range
for bad, error in (('xyz', ValueError), (None, TypeError), ('', ValueError), ([], TypeError)):
    try:
        d.lookup(bad)
    except error:
        pass
    else:
        raise AssertionError('no {} for {!r}'.format(error, bad))

# broken contents
for extra, error in (
        ({'abc': ['', []]}, ValueError),
        ({'399020': ['only a name']}, IndexError),
        ({'399020': []}, IndexError),
        ({'399020': None}, TypeError),
        ({'399020': ['', None]}, TypeError),
        ({'399020': ['', ['12x']]}, ValueError),
        ({'399020': ['', ['001001', '101000']]}, PyBufrKitError),
        ({399020: ['', []], '399021': ['', []]}, TypeError),
):
    try:
        table_d(extra)
    except error as e:
        assert type(e) is error
    else:
        raise AssertionError('no {} for {!r}'.format(error, extra))

print('demo 2 OK ({} sequences, {} element members checked)'.format(n_sequences, n_elements))
