import os, sys; sys.path.insert(0, os.getcwd())
"""
Differential demonstration for refactor 6 (reading the table files and making the Table B entries).

The expectations come from the JSON files read here directly, and from small table directories written by this script
(under _out/6, removed at the end) for the cases the bundled tables do not have: an ID spelled in two ways, an entry
with a wrong number of fields, a key that is no number, a broken or a missing file, a root directory with a trailing
separator.
"""
import errno
import json
import shutil
import struct
import tempfile

import pybufrkit
assert os.path.dirname(os.path.dirname(os.path.abspath(pybufrkit.__file__))) == os.getcwd(), pybufrkit.__file__

from pybufrkit.tables import (TableGroupCacheManager, TableGroupKey, BaseTable, TableA, TableB, TableC, TableD, TableR)
from pybufrkit.descriptors import (ElementDescriptor, MarkerDescriptor, FixedReplicationDescriptor,
                                   DelayedReplicationDescriptor, SequenceDescriptor, UndefinedElementDescriptor,
                                   flat_member_ids)
from pybufrkit.errors import UnknownDescriptor
from pybufrkit.decoder import Decoder

TABLES_ROOT = os.path.join(os.getcwd(), 'pybufrkit', 'tables')
n_checks = 0


def check(cond, *what):
    global n_checks
    n_checks += 1
    if not cond:
        print('FAILED:', *what)
        sys.exit(1)


def raised(func, *args):
    try:
        func(*args)
    except Exception as e:
        return e
    return None


def read_json(*parts):
    with open(os.path.join(*parts)) as ins:
        return json.load(ins)


def merged_b(dicts):
    """What Table B must hold: keys in the order they are first met, fields of the entry met last."""
    order, fields = [], {}
    for data in dicts:
        for k, v in data.items():
            if int(k) not in fields:
                order.append(int(k))
            fields[int(k)] = v
    return order, fields


def get_group(root, master_version, centre=0, subcentre=0, local_version=0):
    return TableGroupCacheManager.get_table_group(
        tables_root_dir=root, master_table_number=0, originating_centre=centre,
        originating_subcentre=subcentre, master_table_version=master_version,
        local_table_version=local_version, normalize=0)


# ----------------------------------------------------------------------------
# 1. ElementDescriptor: the attributes, their order, the two renderings
# ----------------------------------------------------------------------------
args = (12101, 'TEMPERATURE/AIR TEMPERATURE', 'K', 2, 0, 16, 'C', 2, 4)
names = ['id', 'name', 'unit', 'scale', 'refval', 'nbits', 'crex_unit', 'crex_scale', 'crex_nchars']
e = ElementDescriptor(*args)
check(list(vars(e)) == names, 'attribute order', list(vars(e)))
check([getattr(e, n) for n in names] == list(args), 'attributes')
check(e.as_list() == list(args[:6]) and type(e.as_list()) is list, 'as_list', e.as_list())
check(e.as_list() is not e.as_list(), 'as_list is a new list each time')
check(e.as_dict() == {12101: args[1:6]} and type(e.as_dict()[12101]) is tuple, 'as_dict', e.as_dict())
unhashable = ElementDescriptor(1, ['a'], {'u': 1}, None, 2.5, '7', (), [], {})
check(unhashable.as_list() == [1, ['a'], {'u': 1}, None, 2.5, '7'], 'as_list keeps the objects')
check(unhashable.as_list()[1] is unhashable.name and unhashable.as_dict()[1][1] is unhashable.unit, 'same objects')
m = MarkerDescriptor.from_element_descriptor(e, 224255, nbits=9)
check(list(vars(m)) == names + ['marker_id'] and m.nbits == 9, 'marker attributes')
check(m.as_list() == list(args[:5]) + [9] and m.as_dict() == {12101: args[1:5] + (9,)}, 'marker renderings')
e.name = 'CHANGED'
check(e.as_list()[1] == 'CHANGED' and e.as_dict()[12101][0] == 'CHANGED', 'renderings read the attributes anew')
for bad_args in (args[:8], args + (1,), ()):
    check(type(raised(ElementDescriptor, *bad_args)) is TypeError, 'wrong number of arguments', bad_args)

# ----------------------------------------------------------------------------
# 2. Directories and files of a table
# ----------------------------------------------------------------------------
for root in (TABLES_ROOT, TABLES_ROOT + os.sep, 'relative/dir', ''):
    for wmo_sn, local_sn in ((('0', '0_0', '33'), None),
                             (('0', '0_0', '13'), ('0', '98_0', '1')),
                             (('0', '0_0', '13'), ()),
                             ((), ('0', '98_0', '1')),
                             (('0', '/absolute', '13'), ('..', 'x'))):
        key = TableGroupKey(root, wmo_sn, local_sn)
        for cls in (BaseTable, TableA):
            t = cls(key)
            want_wmo = os.path.join(root, *wmo_sn)
            check(t.tables_dir_wmo == want_wmo and type(t.tables_dir_wmo) is str, 'wmo dir', key, t.tables_dir_wmo)
            want_local = os.path.join(root, *local_sn) if local_sn else None
            check(t.tables_dir_local == want_local, 'local dir', key, t.tables_dir_local)
for bad_key in (TableGroupKey(TABLES_ROOT, None, None), TableGroupKey(TABLES_ROOT, ('0', 0), None),
                TableGroupKey(None, ('0',), ('1',))):
    t = BaseTable(bad_key)
    check(type(raised(lambda: t.tables_dir_wmo)) is TypeError, 'bad sn', bad_key)
    if bad_key.local_tables_sn:
        check(type(raised(lambda: t.tables_dir_local)) is TypeError, 'bad root', bad_key)
    else:
        check(t.tables_dir_local is None, 'no local sn')

key_wmo = TableGroupKey(TABLES_ROOT, ('0', '0_0', '33'), None)
key_local = TableGroupKey(TABLES_ROOT, ('0', '0_0', '13'), ('0', '98_0', '1'))
for fname in ('TableB.json', 'TableD.json', 'code_and_flag.json'):
    want_wmo = read_json(TABLES_ROOT, '0', '0_0', '33', fname)
    got = TableA(key_wmo).load_json_files(fname)
    check(type(got) is list and got == [want_wmo], 'one file', fname)
    check(list(got[0]) == list(want_wmo), 'key order of the file is kept', fname)
    want = [read_json(TABLES_ROOT, '0', '0_0', '13', fname), read_json(TABLES_ROOT, '0', '98_0', '1', fname)]
    got = TableA(key_local).load_json_files(fname)
    check(type(got) is list and got == want, 'two files, WMO first', fname)
    extra = {'063250': ['X', 'Numeric', 0, 0, 8, 'Numeric', 0, 3]}
    for k, n_files in ((key_wmo, 1), (key_local, 2)):
        got = TableA(k, extra).load_json_files(fname)
        check(len(got) == n_files + 1 and got[-1] is extra, 'extra entries come last, the object itself', fname)
        for falsy in ((), {}, None, 0):
            check(len(TableA(k, falsy).load_json_files(fname)) == n_files, 'empty extra entries are left out')
    got = TableA(key_wmo, extra_entries=[1]).load_json_files(fname)
    check(got[-1] == [1], 'whatever is true is appended')

# what cannot be read
for key, fname in ((key_wmo, 'no_such_file.json'),
                   (TableGroupKey(TABLES_ROOT, ('0', '0_0', '99'), None), 'TableB.json'),
                   (TableGroupKey(TABLES_ROOT, ('0', '0_0', '33'), ('0', '98_0', '77')), 'TableB.json'),
                   (TableGroupKey(TABLES_ROOT, ('0', '0_0', '99'), ('0', '98_0', '77')), 'TableB.json')):
    err = raised(TableA(key, {'1': 2}).load_json_files, fname)
    check(isinstance(err, IOError) and err.errno == errno.ENOENT, 'missing file', key, err)
    # the first directory that fails is the one reported: WMO before local
    first = TableA(key).tables_dir_wmo
    if os.path.isfile(os.path.join(first, fname)):
        first = TableA(key).tables_dir_local
    check(err.filename == os.path.join(first, fname), 'which file', err.filename)
    for cls, cls_args in ((TableB, ()), (TableD, (None, None, None))):
        if fname == 'TableB.json':
            err = raised(cls, *(cls_args + (key,)))
            check(isinstance(err, IOError) and err.errno == errno.ENOENT, 'missing file at construction', cls, err)

# ----------------------------------------------------------------------------
# 3. Table B of every bundled version (and of the local tables on top of two of them)
# ----------------------------------------------------------------------------
def check_table_b(group, dicts, what):
    order, fields = merged_b(dicts)
    b = group.B
    check(type(b.descriptors) is dict and list(b.descriptors) == order, 'ids and their order', what)
    for id_, d in b.descriptors.items():
        check(type(d) is ElementDescriptor and d.id == id_ and type(d.id) is int, 'entry', what, id_)
        check([d.name, d.unit, d.scale, d.refval, d.nbits, d.crex_unit, d.crex_scale, d.crex_nchars] == fields[id_],
              'attributes', what, id_)
        check(b.lookup(id_) is d and group.lookup('%06d' % id_) is d, 'lookup gives the entry', what, id_)
    check(list(vars(b)) == ['table_group_key', 'extra_entries', 'code_and_flag', 'descriptors'], vars(b).keys())
    check(b.code_and_flag == {}, 'code and flag tables are not read yet')
    return len(order)


def model_flat(d_json, id_string, memo):
    if id_string not in memo:
        out = []
        for m in d_json[id_string][1]:
            if int(m) >= 300000 and m in d_json:
                out.extend(model_flat(d_json, m, memo))
            else:
                out.append(int(m))
        memo[id_string] = out
    return memo[id_string]


def check_elements_in_trees(group, what):
    seen = set()

    def walk(members):
        for m in members:
            if id(m) in seen:
                continue
            seen.add(id(m))
            if type(m) is ElementDescriptor:
                check(m is group.B.descriptors[m.id], 'element of a sequence is the Table B entry', what, m)
            elif isinstance(m, DelayedReplicationDescriptor):
                check(m.factor is group.B.descriptors.get(m.factor.id) or
                      type(m.factor) is UndefinedElementDescriptor, 'factor is the Table B entry', what, m)
                walk(m.members)
            elif isinstance(m, (FixedReplicationDescriptor, SequenceDescriptor)):
                walk(m.members)
    for seq in group.D.descriptors.values():
        walk(seq.members)


n_b = n_d = 0
versions = sorted(os.listdir(os.path.join(TABLES_ROOT, '0', '0_0')), key=int)
for v in versions:
    group = get_group(TABLES_ROOT, int(v))
    n_b += check_table_b(group, [read_json(TABLES_ROOT, '0', '0_0', v, 'TableB.json')], v)
    d_json = read_json(TABLES_ROOT, '0', '0_0', v, 'TableD.json')
    memo = {}
    check(set(group.D.descriptors) == set(int(k) for k in d_json), 'D ids', v)
    for k in d_json:
        check(flat_member_ids(group.lookup(k)) == model_flat(d_json, k, memo), 'flat expansion', v, k)
        n_d += 1
    check_elements_in_trees(group, v)
for lv in sorted(os.listdir(os.path.join(TABLES_ROOT, '0', '98_0')), key=int):
    for v in ('13', '33'):
        group = get_group(TABLES_ROOT, int(v), 98, 0, int(lv))
        dicts = [read_json(TABLES_ROOT, '0', '0_0', v, 'TableB.json'), read_json(TABLES_ROOT, '0', '98_0', lv, 'TableB.json')]
        n_b += check_table_b(group, dicts, (v, lv))
        check_elements_in_trees(group, (v, lv))
print('Table B entries checked:', n_b, ' Table D sequences checked:', n_d)

# code and flag tables: read on demand, once, WMO first and local on top
group = get_group(TABLES_ROOT, 13, 98, 0, 1)
want = read_json(TABLES_ROOT, '0', '0_0', '13', 'code_and_flag.json')
local = read_json(TABLES_ROOT, '0', '98_0', '1', 'code_and_flag.json')
want.update(local)
group.B.load_code_and_flag()
check(group.B.code_and_flag == want and len(want) > 0, 'code and flag')
marker = object()
group.B.code_and_flag['marker'] = marker
group.B.load_code_and_flag()
check(group.B.code_and_flag.get('marker') is marker, 'not read twice')
some = sorted(want)[0]
check(group.B.code_and_flag_for_descriptor(group.B.lookup(some)) == want[some], 'code and flag by descriptor')

# ----------------------------------------------------------------------------
# 4. Table directories written here
# ----------------------------------------------------------------------------
tmp_root = tempfile.mkdtemp(prefix='tables_', dir=os.path.join(os.getcwd(), '_out', '6'))
try:
    def write_tables(root, sn, b, d, b_text=None):
        directory = os.path.join(root, *sn)
        os.makedirs(directory)
        with open(os.path.join(directory, 'TableB.json'), 'w') as outs:
            outs.write(json.dumps(b) if b_text is None else b_text)
        with open(os.path.join(directory, 'TableD.json'), 'w') as outs:
            json.dump(d, outs)
        with open(os.path.join(directory, 'code_and_flag.json'), 'w') as outs:
            json.dump({}, outs)

    f1 = ['FIRST', 'Numeric', 0, 0, 7, 'Numeric', 0, 3]
    f2 = ['SECOND', 'Numeric', 0, 0, 9, 'Numeric', 0, 3]
    f3 = ['THIRD', 'CCITT IA5', 0, 0, 16, 'Character', 0, 2]
    f4 = ['LOCAL', 'Numeric', 1, -5, 11, 'Numeric', 1, 4]
    # the same ID spelled in three ways in one file (the JSON keys differ, so all three reach the loader), in an order
    # that is not the numeric one; 031001 for a delayed replication
    b_text = ('{"001002": %s, "001001": %s, "1001": %s, "031001": %s, "  1001": %s}'
              % tuple(json.dumps(f) for f in (f3, f1, f2, f1, f3)))
    check(len(json.loads(b_text)) == 5, 'five keys')
    d = {'301001': ['SEQ', ['001001', '101000', '031001', '001002']], '301002': ['SEQ2', ['301001', '001777']]}
    write_tables(tmp_root, ('0', '0_0', '50'), None, d, b_text=b_text)
    write_tables(tmp_root, ('0', '7_0', '2'), {'001002': f4, '001777': f4, '01001': f4}, {'301003': ['L', ['301002', '363255']]})

    g = get_group(tmp_root, 50)
    check(list(g.B.descriptors) == [1002, 1001, 31001], 'first spelling fixes the position', list(g.B.descriptors))
    check(g.B.lookup(1001).name == 'THIRD' and g.B.lookup(1001).nbits == 16, 'last spelling fixes the entry')
    check(flat_member_ids(g.lookup(301002)) == [1001, 101000, 31001, 1002, 1777], 'flat expansion')
    check(type(g.lookup(301002).members[1]) is UndefinedElementDescriptor, 'undefined member')
    check(g.lookup(301001).members[0] is g.B.descriptors[1001], 'member is the entry that stayed')

    with_trailing_sep = get_group(tmp_root + os.sep, 50)
    check(with_trailing_sep is not g and list(with_trailing_sep.B.descriptors) == [1002, 1001, 31001], 'trailing separator')

    gl = get_group(tmp_root, 50, 7, 0, 2)
    check(list(gl.B.descriptors) == [1002, 1001, 31001, 1777], 'local entries after the WMO ones', list(gl.B.descriptors))
    check([gl.B.lookup(i).name for i in (1002, 1001, 31001, 1777)] == ['LOCAL', 'LOCAL', 'FIRST', 'LOCAL'], 'local wins')
    check(gl.B.lookup(1001).as_list() == [1001] + f4[:5], 'local attributes')
    check(flat_member_ids(gl.lookup(301003)) == [1001, 101000, 31001, 1002, 1777, 363255], 'local sequence')
    check(type(gl.lookup(301002).members[1]) is ElementDescriptor, 'defined by the local table')

    # decoding with these tables: a descriptor in no table is an error, not skipped
    def build_bufr(ids, payload, master_version, centre=0, local_version=0):
        sec1 = struct.pack('>BHHBBBBBBBHBBBBB', 0, centre, 0, 0, 0, 0, 0, 0, master_version, local_version,
                           2020, 1, 2, 3, 4, 5)
        sec1 = struct.pack('>I', len(sec1) + 3)[1:] + sec1
        sec3 = b'\x00' + struct.pack('>HB', 1, 0x80)
        for i in ids:
            sec3 += struct.pack('>H', (i // 100000) << 14 | (i // 1000 % 100) << 8 | i % 1000)
        sec3 = struct.pack('>I', len(sec3) + 3)[1:] + sec3
        sec4 = b'\x00' + payload
        sec4 = struct.pack('>I', len(sec4) + 3)[1:] + sec4
        total = 8 + len(sec1) + len(sec3) + len(sec4) + 4
        return b'BUFR' + struct.pack('>I', total)[1:] + b'\x04' + sec1 + sec3 + sec4 + b'7777'

    def bits(*pairs):
        s = ''.join(format(value, '0{}b'.format(nbits)) for value, nbits in pairs)
        s += '0' * (-len(s) % 8)
        return bytes(bytearray(int(s[i:i + 8], 2) for i in range(0, len(s), 8)))

    decoder = Decoder(tables_root_dir=tmp_root)
    # 301001 with the version 50 tables: 001001 is THIRD (16 bits of text), one repetition of 001002 (16 bits of text)
    payload = bits((ord('a'), 8), (ord('b'), 8), (1, 7), (ord('c'), 8), (ord('d'), 8))
    message = decoder.process(build_bufr([301001], payload, 50))
    check(message.template_data.value.decoded_values_all_subsets == [[b'ab', 1, b'cd']], 'decoded with version 50',
          message.template_data.value.decoded_values_all_subsets)
    # the same sequence with the local tables: both are LOCAL now (11 bits, scale 1, reference -5)
    payload = bits((25, 11), (1, 7), (35, 11))
    message = decoder.process(build_bufr([301001], payload, 50, centre=7, local_version=2))
    check(message.template_data.value.decoded_values_all_subsets == [[2.0, 1, 3.0]], 'decoded with local tables',
          message.template_data.value.decoded_values_all_subsets)
    err = raised(decoder.process, build_bufr([301002], bits((0, 16), (0, 7)), 50))
    check(type(err) is UnknownDescriptor and
          str(err) == 'Error: Cannot process descriptor 001777 of type: UndefinedElementDescriptor', 'unknown', err)

    # entries the loader must refuse, with the exception it always raised
    for sn, b, exc in ((('0', '0_0', '51'), {'001001': f1[:7]}, TypeError),
                       (('0', '0_0', '52'), {'001001': f1 + [0]}, TypeError),
                       (('0', '0_0', '53'), {'001001': 5}, TypeError),
                       (('0', '0_0', '54'), {'0x1001': f1}, ValueError),
                       (('0', '0_0', '55'), {'': f1}, ValueError),
                       (('0', '0_0', '56'), {'1.5': f1}, ValueError),
                       (('0', '0_0', '57'), ['001001'], AttributeError),
                       (('0', '0_0', '58'), {'bad': 5}, ValueError),  # the key is looked at before the fields
                       ):
        write_tables(tmp_root, sn, b, {})
        err = raised(get_group, tmp_root, int(sn[2]))
        check(type(err) is exc, 'bad Table B', b, repr(err))
        err = raised(TableB, TableGroupKey(tmp_root, sn, None))
        check(type(err) is exc, 'bad Table B, direct', b, repr(err))
    write_tables(tmp_root, ('0', '0_0', '59'), None, {}, b_text='{"001001": ')
    err = raised(get_group, tmp_root, 59)
    check(isinstance(err, ValueError), 'broken JSON', repr(err))
    # a good WMO table and a broken local one: still the same error, and nothing is cached for the key
    write_tables(tmp_root, ('0', '8_0', '1'), None, {}, b_text='[')
    err = raised(get_group, tmp_root, 50, 8, 0, 1)
    check(isinstance(err, ValueError), 'broken local JSON', repr(err))
    err = raised(get_group, tmp_root, 50, 8, 0, 1)
    check(isinstance(err, ValueError), 'broken local JSON, again', repr(err))

    # ------------------------------------------------------------------------
    # 5. Extra entries given by the program (as the PrepBUFR reader does): they come after the files
    # ------------------------------------------------------------------------
    TableGroupCacheManager.add_extra_entries({'001001': f2, '063250': f4}, {'363250': ['EXTRA', ['063250', '001001']]})
    TableGroupCacheManager.invalidate()
    ge = get_group(tmp_root, 50, 7, 0, 2)
    check(ge is not gl, 'new group after invalidate')
    check(list(ge.B.descriptors) == [1002, 1001, 31001, 1777, 63250], 'extra entries last', list(ge.B.descriptors))
    check(ge.B.lookup(1001).as_list() == [1001] + f2[:5], 'extra entry wins over WMO and local')
    check(ge.B.lookup(63250).as_dict() == {63250: tuple(f4[:5])}, 'extra entry')
    check(flat_member_ids(ge.lookup(363250)) == [63250, 1001], 'extra sequence')
    template = ge.template_from_ids(363250, 101000, 31001, 301003)
    check(template.original_descriptor_ids == [363250, 101000, 31001, 301003], 'template with extra entries')
    check(flat_member_ids(template) == [63250, 1001, 101000, 31001, 1001, 101000, 31001, 1002, 1777, 363255], 'flat')
    g33 = get_group(TABLES_ROOT, 33)
    want_order, want_fields = merged_b([read_json(TABLES_ROOT, '0', '0_0', '33', 'TableB.json'),
                                        {'001001': f2, '063250': f4}])
    check(list(g33.B.descriptors) == want_order and g33.B.lookup(1001).name == 'SECOND', 'extra entries, bundled')
finally:
    shutil.rmtree(tmp_root)

print('OK: {} checks'.format(n_checks))
