import os, sys; sys.path.insert(0, os.getcwd())
import json
import itertools

from pybufrkit.encoder import Encoder
from pybufrkit.decoder import Decoder


def make_message(ids, subsets, compressed=False, version=29):
    """A BUFR edition 4 message in the JSON form the Encoder accepts."""
    return [["BUFR", 0, 4],
            [22, 0, 0, 0, 0, False, "0000000", 0, 0, 0, version, 0, 2020, 1, 1, 0, 0, 0],
            [0, "00000000", len(subsets), True, compressed, "000000", list(ids)],
            [0, "00000000", [list(s) for s in subsets]],
            ["7777"]]


def outcome(func, *args):
    try:
        return ('ok', func(*args))
    except Exception as e:  # the property demands "the same error"
        return ('error', type(e).__name__, str(e))


def describe(template_data):
    return (
        [[(type(d).__name__, d.id, str(d)) for d in ds] for ds in template_data.decoded_descriptors_all_subsets],
        [list(vs) for vs in template_data.decoded_values_all_subsets],
        [sorted(links.items()) for links in template_data.bitmap_links_all_subsets],
    )


def encode(encoder, message):
    m = encoder.process(json.dumps(message))
    return (m.serialized_bytes,) + describe(m.template_data.value)


def decode(decoder, data):
    m = decoder.process(data)
    return describe(m.template_data.value)


def rep(factor, *values):
    """factor followed by `factor` copies of values"""
    return [factor] + list(values) * factor


# (name, descriptor ids, function(factors...) -> values of one subset, number of factors)
PROGRAMS = [
    ('plain', [1001, 1002, 12001], lambda: [5, 100, 280.5], 0),
    ('delayed', [1001, 101000, 31001, 12001, 1002],
     lambda a: [5] + rep(a, 281.5) + [7], 1),
    ('nested', [104000, 31001, 1001, 101000, 31001, 12001],
     lambda a, b: [a] + ([3] + rep(b, 270.2)) * a, 2),
    ('fixed-in-delayed', [104000, 31001, 1001, 102002, 12001, 1002],
     lambda a: [a] + [3, 270.2, 9, 271.2, 8] * a, 1),
    ('201-202', [201130, 12001, 201000, 201132, 202129, 12001, 202000, 201000, 12001],
     lambda: [280.5, 280.55, 280.5], 0),
    ('207-208', [207001, 12001, 207000, 12001, 208002, 1015, 208000, 1015],
     lambda: [280.55, 280.5, 'AB', 'ABCDEFGHIJKLMNOPQRST'], 0),
    ('operators-in-loop', [106000, 31001, 201130, 207001, 12001, 207000, 201000, 12001],
     lambda a: [a] + [280.55, 280.5] * a, 1),
    ('203', [203012, 12001, 203255, 12001, 203000, 12001],
     lambda: [-100, 10.5, 280.5], 0),
    ('204', [204004, 31021, 12001, 1001, 204000, 12001],
     lambda: [1, 3, 280.5, 2, 5, 281.5], 0),
    ('205-206-221', [205003, 206008, 1001, 221002, 12001, 1002, 12001],
     lambda: ['abc', 17, 9, 280.5], 0),
]


def qa_bitmap_case(n, bits):
    """n temperatures, then a bitmap over (001001, n x 012001), QA values for the zero bits"""
    assert len(bits) == n + 1
    ids = [1001, 101000, 31001, 12001, 222000, 236000, 101000 + (n + 1), 31031, 1031, 1032]
    nzero = bits.count(0)
    if nzero:
        ids += [101000 + nzero, 33007]
    values = [5] + rep(n, 280.5) + [0, 0] + list(bits) + [7, 0] + [50] * nzero
    return ids, values


def marker_case(bits):
    """223/224/225/232 markers mixed with 201, 202, 207 and 208 and 203"""
    nzero = bits.count(0)
    ids = [12001, 1015, 10004,
           223000, 236000, 101003, 31031]
    values = [280.5, 'STATION', 101300, 0, 0] + list(bits)
    # substituted values with changed width/scale, string with changed width
    per_marker = {
        0: (280.55, 280.5),
        1: ('SUBST', 'SUBSTITUTE'),
        2: (101300.0, 101300),
    }
    zero_idx = [i for i, b in enumerate(bits) if b == 0]
    ids += [207001, 208005] + [223255] * nzero + [207000, 208000]
    values += [per_marker[i][0] for i in zero_idx]
    ids += [224000, 237000, 8023] + [224255] * nzero
    values += [0, 0, 4] + ['SUBSTITUTE' if i == 1 else (280.5 if i == 0 else 101300) for i in zero_idx]
    ids += [225000, 237000, 8024, 201129] + [225255] * nzero + [201000]
    values += [0, 0, 2] + ['SUBSTITUTE' if i == 1 else (-1.5 if i == 0 else -20) for i in zero_idx]
    ids += [232000, 237000, 201132, 202129] + [232255] * nzero + [202000, 201000, 237255, 235000, 12001]
    values += [0, 0] + ['SUBSTITUTE' if i == 1 else (280.55 if i == 0 else 101300.0) for i in zero_idx]
    values += [0, 270.5]
    return ids, values


# (name, descriptor ids, subsets, compressed): the encoder must fail (or not) identically on both paths
ERROR_CASES = [
    ('repetition-31011', [101000, 31011, 1001], [[1, 5]], False),
    ('operator-241', [1001, 241000, 1002], [[5, 7]], False),
    ('marker-without-bitmap', [12001, 223255], [[280.5, 280.5]], False),
    ('bitmap-too-long', [12001, 222000, 101003, 31031, 33007], [[280.5, 0, 0, 0, 0, 50]], False),
    ('factor-missing', [1001, 101000, 31001, 1002], [[5, None]], False),
    ('factor-differs-compressed', [101000, 31001, 1002], [[1, 5], [2, 5, 5]], True),
    ('too-few-values', [1001, 1002, 12001], [[5, 7]], False),
    ('204-cancel-without-open', [1001, 204000, 1002], [[5, 7]], False),
    ('203-on-string', [203012, 1015, 203255], [['X']], False),
    ('undefined-descriptor', [1001, 63255], [[5, 7]], False),
    ('recall-without-bitmap', [12001, 224000, 237000, 224255], [[280.5, 0, 0, 280.5]], False),
    ('value-too-large', [1001], [[100000]], False),
    ('string-for-number', [12001], [['warm']], False),
]


def corrupt_factor(data, new_factor):
    """
    `data` encodes template 001001 101000 031001 012001 (one subset, not
    compressed). Overwrite the 8 bits of the replication factor.
    """
    start_of_section4 = data.index(b'\x41\x00\x1f\x01\x0c\x01') + 6  # end of section 3
    assert data[start_of_section4 + 3:start_of_section4 + 4] == b'\x00'
    pos = (start_of_section4 + 4) * 8 + 7  # after 7 bits of 001001
    n = int.from_bytes(data, 'big')
    total = len(data) * 8
    shift = total - pos - 8
    n = (n & ~(0xff << shift)) | (new_factor << shift)
    return n.to_bytes(len(data), 'big')


def run_battery(make_encoder, make_decoder, label, skip=()):
    """
    Every program x data content x compression: the coder from make_encoder /
    make_decoder must agree with the plain (not compiling) one.
    Returns the number of comparisons.
    """
    plain_encoder = Encoder(ignore_declared_length=True)
    plain_decoder = Decoder()
    encoder = make_encoder()
    decoder = make_decoder()
    n = 0

    def check(name, ids, subsets, compressed, expect=None):
        message = make_message(ids, subsets, compressed)
        expected = outcome(encode, plain_encoder, message)
        got = outcome(encode, encoder, message)
        assert got == expected, (label, 'encode', name, compressed, expected, got)
        if expect is not None:
            assert expected[0] == expect, (label, name, expected)
        if expected[0] == 'ok':
            data = expected[1][0]
            expected_decoded = outcome(decode, plain_decoder, data)
            got_decoded = outcome(decode, decoder, data)
            assert expected_decoded[0] == 'ok', (label, name, expected_decoded)
            assert got_decoded == expected_decoded, (label, 'decode', name, compressed, expected_decoded, got_decoded)
            # labels and links seen by the encoder are those seen by the decoder
            assert expected_decoded[1][0] == expected[1][1], (label, name)
            assert expected_decoded[1][2] == expected[1][3], (label, name)
        return expected

    for name, ids, values_of, n_factors in PROGRAMS:
        if name in skip:
            continue
        for factors in itertools.product(range(4), repeat=n_factors):
            for compressed in (False, True):
                subsets = [values_of(*factors), values_of(*factors)]
                check('{}{}'.format(name, factors), ids, subsets, compressed, expect='ok')
                n += 1
        if n_factors:
            # different factors in the subsets of one (uncompressed) message
            subsets = [values_of(*([k % 4] * n_factors)) for k in (3, 0, 1, 2)]
            check(name + '-mixed', ids, subsets, False, expect='ok')
            r = check(name + '-mixed', ids, subsets, True, expect='error')
            assert r[1] == 'PyBufrKitError', r
            n += 2

    for n_temperatures in range(3):
        for bits in itertools.product((0, 1), repeat=n_temperatures + 1):
            ids, values = qa_bitmap_case(n_temperatures, list(bits))
            for compressed in (False, True):
                check('qa{}'.format(bits), ids, [values, values], compressed, expect='ok')
                n += 1

    for bits in itertools.product((0, 1), repeat=3):
        ids, values = marker_case(list(bits))
        for compressed in (False, True):
            check('markers{}'.format(bits), ids, [values, values, values], compressed, expect='ok')
            n += 1

    for name, ids, subsets, compressed in ERROR_CASES:
        r = check(name, ids, subsets, compressed)
        assert name == 'repetition-31011' or r[0] == 'error', (name, r)
        n += 1

    good = encode(plain_encoder, make_message([1001, 101000, 31001, 12001], [[5, 1, 280.5]]))[0]
    for factor, expect in ((0, 'ok'), (1, 'ok'), (2, 'PyBufrKitError'), (3, 'PyBufrKitError'),
                           (200, 'BitReadError'), (255, 'PyBufrKitError')):
        data = corrupt_factor(good, factor)
        expected = outcome(decode, plain_decoder, data)
        got = outcome(decode, decoder, data)
        assert got == expected, (label, 'corrupt', factor, expected, got)
        assert expected[0] == expect or expected[1] == expect, (factor, expected)
        n += 1

    return n


def sample_files():
    base = os.path.join(os.getcwd(), 'tests', 'data')
    names = ['207003', 'ISMD01_OKPR', 'IUSK73_AMMC_182300', 'amv2_87', 'asr3_190', 'b002_95', 'b005_89',
             'g2nd_208', 'jaso_214', 'mpco_217', 'profiler_european', 'rado_250', 'uegabe']
    return [os.path.join(base, name) for name in names]


def run_samples(make_encoder, make_decoder, label, skip=()):
    """The sample files: decode, and encode from their JSON form."""
    plain_encoder = Encoder(ignore_declared_length=True)
    plain_decoder = Decoder()
    encoder = make_encoder()
    decoder = make_decoder()
    n = 0
    for stub in sample_files():
        if os.path.basename(stub) in skip:
            continue
        n += 1
        with open(stub + '.bufr', 'rb') as ins:
            data = ins.read()
        expected = outcome(decode, plain_decoder, data)
        assert expected[0] == 'ok', (stub, expected)
        assert outcome(decode, decoder, data) == expected, (label, 'decode', stub)
        with open(stub + '.json') as ins:
            message = json.load(ins)
        expected = outcome(encode, plain_encoder, message)
        assert expected[0] == 'ok', (stub, expected)
        assert outcome(encode, encoder, message) == expected, (label, 'encode', stub)
    return n


###########################################################################
# Part 1: compiled against not compiled (bitmaps and marker operators are in the battery)
import hashlib
from unittest import mock

from pybufrkit.errors import PyBufrKitError
from pybufrkit.coder import (Coder, BSRModifier, BITMAP_NA, BITMAP_INDICATOR, BITMAP_WAITING_FOR_BIT,
                             BITMAP_BIT_COUNTING)
from pybufrkit.descriptors import OperatorDescriptor
from pybufrkit.tables import TableGroupCacheManager
from pybufrkit.templatecompiler import (
    TemplateCompiler, CompilerState, CompiledTemplate, CoderMethodCall, StateMethodCall, Loop,
    State031031Reset, State031031Increment)

n = run_battery(lambda: Encoder(ignore_declared_length=True, compiled_template_cache_max=2),
                lambda: Decoder(compiled_template_cache_max=2), 'cache 2')
n += run_samples(lambda: Encoder(ignore_declared_length=True, compiled_template_cache_max=20),
                 lambda: Decoder(compiled_template_cache_max=20), 'samples')

###########################################################################
# Part 2: what the compiler records for bitmaps and marker operators
group = TableGroupCacheManager.get_table_group(master_table_version=29)


def compile_ids(*ids):
    return TemplateCompiler().process(group.template_from_ids(*ids), group)


GOLDEN = [
    ([12001, 222000, 236000, 101003, 31031, 33007],
     '[coder.process_numeric(012001,12,10.0,0),state.mark_back_reference_boundary(),coder.process_constant(222000,0),n_031031 = 0,coder.process_constant(236000,0),n_031031 = 0,<3, [n_031031 + 1,coder.process_codeflag(031031,1)]>,coder.define_bitmap(True),state.add_bitmap_link(),coder.process_numeric(033007,7,1.0,0)]',
     '020659c2b35a40ef24811322375046fbc4ef454e6b6078db817ad45170fb9ef1'),
    ([12001, 1015, 223000, 101002, 31031, 207001, 208005, 201130, 202129, 223255, 202000, 201000, 223255, 208000, 207000, 223255],
     '[coder.process_numeric(012001,12,10.0,0),coder.process_string(001015,20),state.mark_back_reference_boundary(),coder.process_constant(223000,0),n_031031 = 0,<2, [n_031031 + 1,coder.process_codeflag(031031,1)]>,coder.define_bitmap(False),coder.process_bitmapped_descriptor(223255),coder.process_bitmapped_descriptor(223255),coder.process_bitmapped_descriptor(223255)]',
     'abf649838fadf03cd0474eceb34fc0b7e605be0b1d568bd2f624e666d2967a51'),
    ([12001, 222000, 236000, 101002, 31031, 101000, 31001, 33007, 224000, 237000, 8023, 224255, 237255, 235000],
     '[coder.process_numeric(012001,12,10.0,0),state.mark_back_reference_boundary(),coder.process_constant(222000,0),n_031031 = 0,coder.process_constant(236000,0),n_031031 = 0,<2, [n_031031 + 1,coder.process_codeflag(031031,1)]>,coder.define_bitmap(True),coder.process_numeric(031001,8,1.0,0),<coder.get_value_for_delayed_replication_factor(), [state.add_bitmap_link(),coder.process_numeric(033007,7,1.0,0)]>,state.mark_back_reference_boundary(),coder.process_constant(224000,0),state.recall_bitmap(),coder.process_constant(237000,0),coder.process_codeflag(008023,6),coder.process_bitmapped_descriptor(224255),state.cancel_bitmap(),coder.process_constant(237255,0),state.cancel_all_back_references()]',
     '6f973f5296474bdfd18645d42d6ef93d09d4475578be05ccb0c340275c2128e0'),
    ([1001, 222000, 101000, 31001, 31031, 33007],
     '[coder.process_numeric(001001,7,1.0,0),state.mark_back_reference_boundary(),coder.process_constant(222000,0),n_031031 = 0,coder.process_numeric(031001,8,1.0,0),<coder.get_value_for_delayed_replication_factor(), [n_031031 + 1,coder.process_codeflag(031031,1)]>,coder.define_bitmap(False),state.add_bitmap_link(),coder.process_numeric(033007,7,1.0,0)]',
     '7086b74a52fae75fffc080243650c4cd6991f0bd188e046e9cc74aac902b3c7d'),
    ([1001, 1002, 222000, 31031, 31031, 1031, 33007, 33007],
     '[coder.process_numeric(001001,7,1.0,0),coder.process_numeric(001002,10,1.0,0),state.mark_back_reference_boundary(),coder.process_constant(222000,0),n_031031 = 0,coder.process_codeflag(031031,1),n_031031 + 1,coder.process_codeflag(031031,1),coder.define_bitmap(False),coder.process_codeflag(001031,16),state.add_bitmap_link(),coder.process_numeric(033007,7,1.0,0),state.add_bitmap_link(),coder.process_numeric(033007,7,1.0,0)]',
     'f91911f8a34fa4f2ed192d7c75292a192a11bfa3e54053deba6a4cd58fa23989'),
]
for ids, text, digest in GOLDEN:
    compiled = compile_ids(*ids)
    assert str(compiled) == text, (ids, str(compiled))
    saved = json.dumps(compiled.to_dict()['statements'])  # the order of the keys counts
    assert hashlib.sha256(saved.encode()).hexdigest() == digest, ids

# the operator state kept with each marker operator
compiled = compile_ids(*GOLDEN[1][0])
markers = compiled.statements[-3:]
expected_properties = [
    [('new_nbytes', 5), ('nbits_offset', 2), ('scale_offset', 1), ('bsr_modifier', BSRModifier(4, 1, 10))],
    [('new_nbytes', 5), ('nbits_offset', 0), ('scale_offset', 0), ('bsr_modifier', BSRModifier(4, 1, 10))],
    [('new_nbytes', 0), ('nbits_offset', 0), ('scale_offset', 0), ('bsr_modifier', BSRModifier(0, 0, 1))],
]
for call, expected in zip(markers, expected_properties):
    assert type(call) is CoderMethodCall and call.method_name == 'process_bitmapped_descriptor'
    assert type(call.args) is tuple and len(call.args) == 1
    assert type(call.args[0]) is OperatorDescriptor and call.args[0].id == 223255
    assert type(call.state_properties) is dict
    assert list(call.state_properties.items()) == expected, call.state_properties  # also the order
    assert type(call.state_properties['bsr_modifier']) is BSRModifier
    for name, value in expected:
        assert type(call.state_properties[name]) is type(value)
assert len(set(id(call.state_properties) for call in markers)) == 3  # a dictionary of its own each
# no other statement has state properties
for ids, _, _ in GOLDEN:
    def walk(block):
        for s in block.statements:
            if isinstance(s, (CoderMethodCall, StateMethodCall)):
                assert (s.state_properties is not None) == (s.method_name == 'process_bitmapped_descriptor')
            elif isinstance(s, Loop):
                walk(s)
    walk(compile_ids(*ids))

###########################################################################
# Part 3: process_bitmapped_descriptor on its own
marker = group.lookup(224255)
template = group.template_from_ids(12001)
state = CompilerState(group, template)
state.new_nbytes, state.nbits_offset, state.scale_offset = 3, -2, 4
modifier = state.bsr_modifier = BSRModifier(7, 2, 100)
assert TemplateCompiler().process_bitmapped_descriptor(state, None, marker) is None
(call,) = state.compiled_template.statements
assert type(call) is CoderMethodCall and call.method_name == 'process_bitmapped_descriptor'
assert call.args == (marker,) and call.args[0] is marker
assert list(call.state_properties.items()) == [
    ('new_nbytes', 3), ('nbits_offset', -2), ('scale_offset', 4), ('bsr_modifier', modifier)]
assert call.state_properties['bsr_modifier'] is modifier
state.nbits_offset = 9  # later changes of the state do not reach what was recorded
assert call.state_properties['nbits_offset'] == -2


class SubCompiler(TemplateCompiler):
    pass


state = CompilerState(group, template)
SubCompiler().process_bitmapped_descriptor(state, 'anything', 'not even a descriptor')
(call,) = state.compiled_template.statements
assert call.method_name == 'process_bitmapped_descriptor' and call.args == ('not even a descriptor',)


class WatchedState(object):
    """Tells which properties are read, in which order; some may be missing"""

    def __init__(self, missing=()):
        self.log = []
        self.missing = missing

    def __getattr__(self, name):
        self.log.append(name)
        if name in self.missing:
            raise AttributeError(name)
        return name.upper()

    def add_statement(self, statement):
        self.log.append(statement)


state = WatchedState()
TemplateCompiler().process_bitmapped_descriptor(state, None, marker)
assert state.log[:4] == ['new_nbytes', 'nbits_offset', 'scale_offset', 'bsr_modifier'], state.log
assert len(state.log) == 5 and type(state.log[4]) is CoderMethodCall
assert state.log[4].state_properties == {'new_nbytes': 'NEW_NBYTES', 'nbits_offset': 'NBITS_OFFSET',
                                         'scale_offset': 'SCALE_OFFSET', 'bsr_modifier': 'BSR_MODIFIER'}
state = WatchedState(missing=('scale_offset',))
r = outcome(TemplateCompiler().process_bitmapped_descriptor, state, None, marker)
assert r == ('error', 'AttributeError', 'scale_offset'), r
assert state.log == ['new_nbytes', 'nbits_offset', 'scale_offset']  # stops there, records nothing
assert outcome(TemplateCompiler().process_bitmapped_descriptor, None, None, marker)[:2] == ('error', 'AttributeError')

###########################################################################
# Part 4: process_bitmap_definition: what is recorded for which change of the count
def record_change(before, after, raises=None):
    state = CompilerState(group, template)
    state.n_031031 = before
    seen = []

    def fake(self, state_, bit_operator, descriptor):
        seen.append((self, state_, bit_operator, descriptor))
        if raises:
            raise raises
        state_.n_031031 = after

    compiler = TemplateCompiler()
    with mock.patch.object(Coder, 'process_bitmap_definition', fake):
        result = outcome(compiler.process_bitmap_definition, state, 'BITS', marker)
    assert seen == [(compiler, state, 'BITS', marker)]
    assert state.n_031031 == (before if raises else after)
    return result, [type(s).__name__ for s in state.compiled_template.statements]


OK = ('ok', None)
ERRONEOUS = ('error', 'PyBufrKitError', 'Error: erroneous n_031031 change')
for before, after, expected in (
        (0, 0, (OK, ['State031031Reset'])),  # zero is always a reset
        (3, 0, (OK, ['State031031Reset'])),
        (-1, 0, (OK, ['State031031Reset'])),  # not an increment
        (1, 0.0, (OK, ['State031031Reset'])),
        (5, False, (OK, ['State031031Reset'])),
        (0, 1, (OK, ['State031031Increment'])),
        (2, 3, (OK, ['State031031Increment'])),
        (2, 3.0, (OK, ['State031031Increment'])),
        (-2, -1, (OK, ['State031031Increment'])),
        (False, True, (OK, ['State031031Increment'])),
        (1, 1, (OK, [])),
        (2, 2.0, (OK, [])),
        (-4, -4, (OK, [])),
        (3, 2, (ERRONEOUS, [])),
        (1, 3, (ERRONEOUS, [])),
        (0, -1, (ERRONEOUS, [])),
        (0, 2, (ERRONEOUS, [])),
        (1, 1.5, (ERRONEOUS, [])),
        (1, None, (ERRONEOUS, [])),
        (1, 'x', (ERRONEOUS, [])),
        (None, 0, (OK, ['State031031Reset'])),
):
    assert record_change(before, after) == expected, (before, after, record_change(before, after))
for before, after in ((None, 1), ('x', 'x'), ('x', 1), (None, None)):
    r, recorded = record_change(before, after)
    assert r[:2] == ('error', 'TypeError') and recorded == [], (before, after, r)  # cannot add one
r, recorded = record_change(1, 2, raises=KeyError('from the coder'))
assert r[:2] == ('error', 'KeyError') and recorded == []

# ... and with the real state machine of the Coder behind it
d31031, d1031, d236000, d237000 = (group.lookup(x) for x in (31031, 1031, 236000, 237000))


def drive(start_state, n_031031, reuse, *descriptors):
    state = CompilerState(group, template)
    state.bitmap_definition_state = start_state
    state.n_031031 = n_031031
    state.most_recent_bitmap_is_for_reuse = reuse
    compiler = TemplateCompiler()
    for descriptor in descriptors:
        assert compiler.process_bitmap_definition(state, None, descriptor) is None
    recorded = [str(s) for s in state.compiled_template.statements]
    return recorded, state.bitmap_definition_state, state.n_031031, state.most_recent_bitmap_is_for_reuse


assert drive(BITMAP_INDICATOR, 4, False, d236000) == (['n_031031 = 0'], BITMAP_WAITING_FOR_BIT, 0, True)
assert drive(BITMAP_INDICATOR, 4, True, d1031) == (['n_031031 = 0'], BITMAP_WAITING_FOR_BIT, 0, False)
assert drive(BITMAP_INDICATOR, 4, True, d237000) == ([], BITMAP_NA, 4, True)
assert drive(BITMAP_INDICATOR, 0, True, d237000) == (['n_031031 = 0'], BITMAP_NA, 0, True)
assert drive(BITMAP_WAITING_FOR_BIT, 0, False, d1031) == (['n_031031 = 0'], BITMAP_WAITING_FOR_BIT, 0, False)
assert drive(BITMAP_WAITING_FOR_BIT, 0, False, d31031) == (['n_031031 + 1'], BITMAP_BIT_COUNTING, 1, False)
assert drive(BITMAP_BIT_COUNTING, 1, False, d31031, d31031) == (
    ['n_031031 + 1', 'n_031031 + 1'], BITMAP_BIT_COUNTING, 3, False)
assert drive(BITMAP_BIT_COUNTING, 2, True, d1031) == (['coder.define_bitmap(True)'], BITMAP_NA, 2, True)
assert drive(BITMAP_BIT_COUNTING, 2, False, d1031) == (['coder.define_bitmap(False)'], BITMAP_NA, 2, False)
assert drive(BITMAP_NA, 3, False, d31031, d1031) == ([], BITMAP_NA, 3, False)
assert drive(BITMAP_NA, 0, False, d31031) == (['n_031031 = 0'], BITMAP_NA, 0, False)
assert drive(BITMAP_INDICATOR, 9, False, d236000, d31031, d31031, d31031, d1031, d1031) == (
    ['n_031031 = 0', 'n_031031 + 1', 'n_031031 + 1', 'n_031031 + 1', 'coder.define_bitmap(True)'],
    BITMAP_NA, 3, True)

print('demo 4: {} comparisons of compiled with not compiled coders, all agree; recording ok'.format(n))
