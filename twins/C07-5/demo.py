import os, sys; sys.path.insert(0, os.getcwd())
"""
Differential demonstration for refactor 5 (define_bitmap pulled up into Coder,
Decoder / Encoder only say where the bits are).

Messages with data present bitmaps are built by hand, encoded (Encoder side of
define_bitmap), decoded (Decoder side), with the interpreter and with compiled
templates, compressed and not.  What is observed (bitmap_links_all_subsets, the
marker descriptors, the node tree and the 'attributes' of the nested JSON) is
compared with a small model of the BUFR rules written here from scratch, which
does not use any pybufrkit code.  Then define_bitmap is called directly on
hand-made states, including the degenerate n_031031 == 0 and the error case.
"""
import itertools
import json

import pybufrkit
from pybufrkit.coder import CoderState, AuditedList
from pybufrkit.decoder import Decoder
from pybufrkit.encoder import Encoder
from pybufrkit.errors import PyBufrKitError
from pybufrkit.renderer import NestedJsonRenderer
from pybufrkit.descriptors import ElementDescriptor, MarkerDescriptor, OperatorDescriptor
from pybufrkit.templatecompiler import TemplateCompiler

assert os.path.dirname(os.path.abspath(pybufrkit.__file__)) == os.path.join(os.getcwd(), 'pybufrkit')

# --------------------------------------------------------------------------
# Independent model
WIDTH = {1001: 7, 1002: 10, 11001: 9, 12001: 12, 20010: 7, 33007: 7,
         8023: 6, 8024: 6, 31021: 6, 31031: 1, 31001: 8, 31002: 16}
NUMERIC = (1001, 1002, 11001, 12001, 20010, 33007, 31001, 31002)
SEQS = {301001: [1001, 1002]}
PREFIX = {223255: 'T', 224255: 'F', 225255: 'D', 232255: 'R'}
NODE_CLASS = {223255: 'SubstitutionNode', 224255: 'FirstOrderStatsNode',
              225255: 'DifferenceStatsNode', 232255: 'ReplacementNode'}


class Entry(object):
    def __init__(self, kind, id_, marker=None, owner=None):
        self.kind, self.id, self.marker, self.owner = kind, id_, marker, owner

    def idstr(self):
        if self.kind == 'A':
            return 'A%05d' % self.id
        if self.kind == 'M':
            return '%s%05d' % (PREFIX[self.marker], self.id)
        return '%06d' % self.id


class Model(object):
    """
    Lays the template out flat, one entry per value, producing the values on the
    way (bits and replication factors are taken from the queues given).
    """

    def __init__(self, ids, bits, factors, seed):
        self.bits, self.factors = list(bits), list(factors)
        self.counter = itertools.count(seed)
        self.flat, self.values = [], []
        self.links = {}
        self.attrs = {}
        self.node_class = {}
        self.assoc, self.assoc_meaning = [], None
        self.stage, self.for_reuse, self.run = None, False, []
        self.boundary, self.backrefs, self.reuse_bitmap = 0, None, None
        self.zero = None
        self.qa = None
        self.wait = {8023: False, 8024: False}
        self.meaning = {8023: None, 8024: None}
        self.walk(ids)
        assert not self.bits and not self.factors

    # values
    def make_value(self, entry):
        c = next(self.counter)
        if entry.kind == 'O':
            return 0
        if entry.kind == 'A':
            return c % 100
        if entry.kind == 'E' and entry.id == 31031:
            return self.bits.pop(0)
        if entry.kind == 'E' and entry.id in (31001, 31002):
            return self.factors.pop(0)
        if entry.id == 12001:
            v = (c * 13 % 4000) / 10.0
        else:
            v = c * 7 % min(100, 2 ** WIDTH[entry.id] - 1)
        # a negative difference can only be coded for a numeric element
        return -v if entry.marker == 225255 and entry.id in NUMERIC else v

    def emit(self, entry):
        self.flat.append(entry)
        self.values.append(self.make_value(entry))
        return len(self.flat) - 1

    def attach(self, owner, attr):
        self.attrs.setdefault(owner, []).append(attr)

    # bitmap
    def feed(self, d):
        if self.stage == 'indicator':
            if d == 237000:
                self.stage = None
            else:
                self.for_reuse = (d == 236000)
                self.stage, self.run = 'waiting', []
        elif self.stage == 'waiting':
            if d == 31031:
                self.stage = 'counting'
        elif self.stage == 'counting':
            if d != 31031:
                bitmap = [self.values[j] for j in self.run]
                if self.for_reuse:
                    self.reuse_bitmap = bitmap
                self.select(bitmap)
                self.stage = None

    def select(self, bitmap):
        if not self.backrefs:
            elements = [j for j in range(self.boundary) if self.flat[j].kind == 'E']
            self.backrefs = elements[len(elements) - len(bitmap):]
        assert len(self.backrefs) == len(bitmap)
        self.zero = [j for j, bit in zip(self.backrefs, bitmap) if bit == 0]

    def link_next(self, j):
        owner = self.zero.pop(0)
        self.links[j] = owner
        self.attach(owner, j)
        return owner

    # walking
    def walk(self, ids):
        i = 0
        while i < len(ids):
            d = ids[i]
            i += 1
            self.feed(d)
            F, X, Y = d // 100000, d // 1000 % 100, d % 1000
            if F == 0:
                self.element(d)
            elif F == 1:
                if Y == 0:
                    Y = self.values[self.element(ids[i])]
                    i += 1
                for _ in range(Y):
                    self.walk(ids[i:i + X])
                i += X
            elif F == 2:
                self.operator(d, X + 200, Y)
            else:
                self.walk(SEQS[d])

    def element(self, d):
        X = d // 1000 % 100
        if self.assoc and X != 31:
            a = self.emit(Entry('A', d))
            self.node_class[a] = 'AssociatedFieldNode'
            self.attach(a, self.assoc_meaning)
            j = self.emit(Entry('E', d))
            self.attach(j, a)
            if self.qa == 'processing':
                self.qa = None
            return j
        # the owner has to be known before the entry is laid out
        j = len(self.flat)
        if X == 33:
            if self.qa == 'waiting':
                self.qa = 'processing'
            if self.qa == 'processing':
                self.link_next(j)
                self.node_class[j] = 'QualityInfoNode'
        elif self.qa == 'processing':
            self.qa = None
        assert self.emit(Entry('E', d)) == j
        if self.stage == 'counting' and d == 31031:
            self.run.append(j)
        if d == 31021 and self.assoc:
            self.assoc_meaning = j
        elif d in self.wait and self.wait[d]:
            self.meaning[d], self.wait[d] = j, False
        return j

    def operator(self, d, code, Y):
        if code == 204:
            if Y:
                self.assoc.append(Y)
            else:
                self.assoc.pop()
        elif code in (222, 223, 224, 225, 232) and Y == 0:
            self.stage = 'indicator'
            self.boundary = len(self.flat)
            self.emit(Entry('O', d))
            if code == 222:
                self.qa = 'waiting'
            elif code == 224:
                self.wait[8023] = True
            elif code == 225:
                self.wait[8024] = True
        elif code in (223, 224, 225, 232):
            j = len(self.flat)
            owner = self.link_next(j)
            assert self.emit(Entry('M', self.flat[owner].id, marker=d, owner=owner)) == j
            self.node_class[j] = NODE_CLASS[d]
            if d == 224255:
                self.attach(j, self.meaning[8023])
            elif d == 225255:
                self.attach(j, self.meaning[8024])
        elif code == 235:
            self.backrefs, self.reuse_bitmap = None, None
        elif code == 236:
            self.emit(Entry('O', d))
        elif code == 237:
            if Y == 0:
                assert self.reuse_bitmap is not None
                self.select(self.reuse_bitmap)
            elif self.for_reuse:
                self.reuse_bitmap = None
            self.emit(Entry('O', d))
        else:
            raise AssertionError(d)

    # expected nested JSON of the node at flat index j
    def expected_json(self, j, is_attribute=False):
        e = self.flat[j]
        ret = {'id': e.idstr(), 'value': self.values[j]}
        if is_attribute and e.kind != 'A':
            ret['virtual'] = True
        if self.attrs.get(j):
            ret['attributes'] = [self.expected_json(a, True) for a in self.attrs[j]]
        return ret


# --------------------------------------------------------------------------
# The library side
def message(ids, subsets, compressed):
    return [['BUFR', 0, 4],
            [22, 0, 89, 0, 0, False, '0000000', 0, 2, 0, 13, 0, 2007, 11, 21, 12, 0, 0],
            [0, '00000000', len(subsets), True, compressed, '000000', ids],
            [0, '00000000', subsets],
            ['7777']]


def strip(x):
    if isinstance(x, list):
        return [strip(i) for i in x]
    if isinstance(x, dict):
        return dict((k, strip(v)) for k, v in x.items() if k != 'description')
    return x


def top_level_values(nodes, out):
    for n in nodes:
        if 'value' in n:
            out.append(n)
            continue
        if 'factor' in n:
            out.append(n['factor'])
        for m in n.get('members', []):
            if isinstance(m, list):
                top_level_values(m, out)
            else:
                top_level_values([m], out)
    return out


def node_attributes(nodes, out, classes):
    for n in nodes:
        if hasattr(n, 'factor'):
            node_attributes([n.factor], out, classes)
        if hasattr(n, 'members'):
            node_attributes(n.members, out, classes)
        if hasattr(n, 'index'):
            classes[n.index] = type(n).__name__
            if hasattr(n, 'attributes'):
                indices = [a.index for a in n.attributes]
                assert out.setdefault(n.index, indices) == indices
                node_attributes(n.attributes, out, classes)
    return out, classes


CODERS = [
    ('interpreted', Encoder(), Decoder()),
    ('compiled', Encoder(compiled_template_cache_max=20), Decoder(compiled_template_cache_max=20)),
]
RENDERER = NestedJsonRenderer()
n_checked = [0]


def check_template_data(what, bufr_message, models, compressed):
    td = bufr_message.template_data.value
    assert len(td.bitmap_links_all_subsets) == len(models), what
    for s, model in enumerate(models):
        # 1. the links
        assert td.bitmap_links_all_subsets[s] == model.links, (what, s, td.bitmap_links_all_subsets[s], model.links)
        # 2. the descriptors
        descriptors = td.decoded_descriptors_all_subsets[s]
        assert [str(d) for d in descriptors] == [e.idstr() for e in model.flat], (what, s)
        for d, e in zip(descriptors, model.flat):
            if e.kind == 'M':
                assert type(d) is MarkerDescriptor and d.marker_id == e.marker and d.id == e.id
                if e.marker == 225255:
                    assert (d.nbits, d.refval) == (WIDTH[e.id] + 1, -2 ** WIDTH[e.id]), (what, d.nbits, d.refval)
                else:
                    assert (d.nbits, d.refval) == (WIDTH[e.id], 0)
        # 3. the values
        assert td.decoded_values_all_subsets[s] == model.values, (what, s)
        # 4. the node tree
        attributes, classes = node_attributes(td.decoded_nodes_all_subsets[s], {}, {})
        assert attributes == dict((k, v) for k, v in model.attrs.items() if v), (what, s, attributes, model.attrs)
        for j, e in enumerate(model.flat):
            assert classes[j] == model.node_class.get(j, 'ValueDataNode'), (what, s, j, classes[j])
    if compressed:
        assert all(x is td.bitmap_links_all_subsets[0] for x in td.bitmap_links_all_subsets)
    # 5. the nested JSON
    rendered = RENDERER.render(bufr_message)
    (template_data,) = [p['value'] for section in rendered for p in section if p['name'] == 'template_data']
    for s, model in enumerate(models):
        got = strip(top_level_values(template_data[s], []))
        expected = [model.expected_json(j) for j, e in enumerate(model.flat) if e.kind != 'A']
        assert got == expected, (what, s, got, expected)
    n_checked[0] += 1


def run_scenario(name, ids, bits_per_subset, factors_per_subset, compressed):
    models = [Model(ids, bits, factors, seed=1 + 17 * s)
              for s, (bits, factors) in enumerate(zip(bits_per_subset, factors_per_subset))]
    msg = json.dumps(message(ids, [m.values for m in models], compressed))
    for label, encoder, decoder in CODERS:
        what = (name, label, 'compressed' if compressed else 'uncompressed')
        encoded = encoder.process(msg)
        check_template_data(what + ('encoder',), encoded, models, compressed)
        decoded = decoder.process(encoded.serialized_bytes)
        check_template_data(what + ('decoder',), decoded, models, compressed)
    return models


def rep(k, what, delayed):
    if delayed:
        return [101000, 31001, what]
    return [101000 + k, what] if k else []


def chain(base, n, k, delayed=False):
    """All five kinds of attributes, sharing one bitmap defined for reuse"""
    return (base + [222000, 236000, 101000 + n, 31031] + [33007] * k +
            [224000, 237000, 8023] + rep(k, 224255, delayed) +
            [225000, 237000, 8024] + rep(k, 225255, delayed) +
            [223000, 237000] + rep(k, 223255, delayed) +
            [232000, 237000] + rep(k, 232255, delayed) + [237255])


def chain_factors(k, delayed):
    return [k] * 4 if delayed else []


def patterns(n):
    return [list(p) for p in itertools.product((0, 1), repeat=n)]


def main():
    # A. flat base, every bitmap length and every pattern, shared reuse bitmap
    base = [1001, 1002, 12001, 11001]
    for n in range(1, 5):
        for p in patterns(n):
            k = p.count(0)
            ids = chain(base, n, k)
            run_scenario('A%d%s' % (n, p), ids, [p], [[]], False)
            run_scenario('A%d%s' % (n, p), ids, [p] * 3, [[]] * 3, True)

    # B. sequence and nested replication before the operator; bitmaps that skip
    # elements inside the replications; subsets of uncompressed data that carry
    # different bitmaps; markers under delayed replication
    base = [301001, 104002, 12001, 101002, 11001, 20010]  # 2 + 2 * 4 elements
    for n, p in [(10, [0, 1, 1, 0, 1, 0, 1, 1, 0, 0]),
                 (10, [1, 1, 0, 0, 0, 1, 1, 1, 1, 0]),
                 (7, [1, 0, 1, 0, 1, 0, 1]),
                 (3, [0, 0, 0]),
                 (10, [1] * 10)]:
        k = p.count(0)
        rotated = p[3:] + p[:3]
        for delayed in (False, True):
            ids = chain(base, n, k, delayed)
            f = chain_factors(k, delayed)
            run_scenario('B', ids, [p, rotated], [f, f], False)
            run_scenario('B', ids, [p, p], [f, f], True)
    # different numbers of zero bits in the subsets (delayed replication of the markers)
    ids = chain(base, 6, 0, True)
    p1, p2, p3 = [0, 1, 1, 1, 1, 0], [0, 0, 0, 1, 0, 1], [1, 1, 1, 1, 1, 1]
    run_scenario('B-delayed', ids, [p1, p2, p3], [[2] * 4, [4] * 4, [0] * 4], False)

    # C. delayed replication in the base (the factor is an element that takes a
    # bit) and associated fields; direct (non reuse) bitmaps, redefinition after
    # 235000 for elements that come later, a second bitmap defined for reuse and
    # recalled (which refers to the same elements as long as 235000 is not met)
    base = [204007, 31021, 1001, 12001, 204000, 102000, 31001, 11001, 1002]
    more = [12001, 11001, 1002, 20010, 1001]
    for f, n1, p1, n2, p2, p3 in [
        (2, 8, [0, 0, 1, 0, 1, 0, 0, 1], 3, [0, 1, 0], [1, 0, 0]),
        (1, 6, [1, 0, 0, 0, 1, 0], 5, [0, 0, 1, 1, 0], [0, 1, 1, 1, 0]),
        (0, 4, [0, 0, 0, 0], 2, [1, 0], [0, 1]),
    ]:
        k1, k2, k3 = p1.count(0), p2.count(0), p3.count(0)
        ids = (base + [222000, 101000 + n1, 31031] + [33007] * k1 +
               [223000, 101000 + n1, 31031] + [223255] * k1 +
               [235000] + more +
               [224000, 101000 + n2, 31031, 8023] + [224255] * k2 +
               [237255,
                225000, 236000, 101000 + n2, 31031, 8024] + [225255] * k3 +
               [232000, 237000] + [232255] * k3 +
               [237255, 235000])
        for compressed, n_subsets in ((False, 1), (False, 2), (True, 2)):
            run_scenario('C', ids, [p1 + p1 + p2 + p3] * n_subsets, [[f]] * n_subsets, compressed)

    # D. the sample files that carry bitmaps still go through both coders
    for stub in ('rado_250', 'amv2_87', 'b005_89', 'asr3_190', '207003'):
        with open(os.path.join('tests', 'data', stub + '.json')) as ins:
            text = ins.read()
        reference = None
        for label, encoder, decoder in CODERS:
            encoded = encoder.process(text)
            decoded = decoder.process(encoded.serialized_bytes)
            links = decoded.template_data.value.bitmap_links_all_subsets
            assert links == encoded.template_data.value.bitmap_links_all_subsets
            assert any(links) or stub == '207003'
            reference = reference or links
            assert links == reference

    # E. define_bitmap called directly
    def element(id_):
        return ElementDescriptor(id_, 'X', 'Numeric', 0, 0, 8, 'Numeric', 0, 3)

    def fresh_state(compressed, n_subsets, descriptors, values, n_031031, idx_value=None, audited=False):
        state = CoderState(compressed, n_subsets, [list(values) for _ in range(n_subsets)])
        if audited:
            state.decoded_values_all_subsets = [AuditedList(v) for v in state.decoded_values_all_subsets]
            state.decoded_values = state.decoded_values_all_subsets[0]
        state.decoded_descriptors.extend(descriptors)
        state.n_031031 = n_031031
        state.back_reference_boundary = 3
        if idx_value is not None:
            state.idx_value = idx_value
        return state

    e = [element(1001), element(1002), OperatorDescriptor(222000), element(31031), element(31031)]
    values = [5, 6, 0, 1, 0, 99]  # the encoder has one more value to come
    decoder, encoder = Decoder(), Encoder()
    for compressed in (False, True):
        for reuse in (False, True):
            for audited in (False, True):
                for coder, vals, idx_value in ((decoder, values[:5], None), (encoder, values, 5)):
                    state = fresh_state(compressed, 2, e, vals, 2, idx_value, audited)
                    if compressed:
                        # only the first subset is looked at
                        state.decoded_values_all_subsets[1][3:5] = [0, 0]
                    else:
                        state.switch_subset_context(1)
                        state.decoded_descriptors.extend(e)
                        state.n_031031, state.back_reference_boundary = 2, 3
                        if idx_value is not None:
                            state.idx_value = idx_value
                    bitmap = coder.define_bitmap(state, reuse)
                    assert bitmap == [1, 0] and type(bitmap) is list
                    assert (state.bitmap is bitmap) if reuse else (state.bitmap is None)
                    assert state.back_referenced_descriptors == [(0, e[0]), (1, e[1])]
                    assert state.bitmapped_descriptors == [(1, e[1])]
                    assert state.next_bitmapped_descriptor() == (1, e[1])
                    try:
                        state.next_bitmapped_descriptor()
                    except StopIteration:
                        pass
                    else:
                        raise AssertionError('one zero bit only')

    # n_031031 == 0 does not happen through process_bitmap_definition; the two
    # coders have always differed there: the decoder takes every value, the
    # encoder takes none
    state = fresh_state(False, 1, e[:2], [1, 0], 0)
    state.back_reference_boundary = 2
    assert decoder.define_bitmap(state, True) == [1, 0] and state.bitmapped_descriptors == [(1, e[1])]
    state = fresh_state(False, 1, e[:2], [1, 0], 0, idx_value=2)
    state.back_reference_boundary = 0
    assert encoder.define_bitmap(state, True) == [] and state.bitmap == [] and state.bitmapped_descriptors == []

    # more bits than elements to refer to: same error, and the bitmap for reuse
    # is recorded before the error
    for coder, vals, idx_value in ((decoder, [5, 6, 0, 1, 0][2:], None), (encoder, [5, 6, 0, 1, 0], 5)):
        state = fresh_state(False, 1, e, vals, 3, idx_value)
        try:
            coder.define_bitmap(state, True)
        except PyBufrKitError as err:
            assert type(err) is PyBufrKitError and err.message == 'Back referenced descriptors not matching defined Bitmap'
            assert state.bitmap == [0, 1, 0] and state.bitmapped_descriptors is None
        else:
            raise AssertionError('no error')
    # no subset at all
    for coder in (decoder, encoder):
        try:
            coder.define_bitmap(CoderState(True, 0), False)
        except IndexError:
            pass
        else:
            raise AssertionError('no error')

    # through a message: a bitmap of 5 bits after 4 elements
    ids = [1001, 1002, 12001, 11001, 222000, 236000, 101005, 31031, 33007]
    vals = [1, 2, 3.0, 4, 0, 0, 0, 0, 0, 0, 0, 50]
    for label, encoder_, decoder_ in CODERS:
        for compressed in (False, True):
            try:
                encoder_.process(json.dumps(message(ids, [vals], compressed)))
            except PyBufrKitError as err:
                assert type(err) is PyBufrKitError and err.message == 'Back referenced descriptors not matching defined Bitmap'
            else:
                raise AssertionError('no error')

    # The compiler keeps recording define_bitmap instead of running it
    decoder_ = Decoder()
    bufr_message = decoder_.process(Encoder().process(json.dumps(message(
        [1001, 1002, 222000, 236000, 101002, 31031, 33007, 224000, 101002, 31031, 8023, 224255],
        [[1, 2, 0, 0, 1, 0, 50, 0, 0, 1, 3, 4]], False))).serialized_bytes)
    template, table_group = bufr_message.build_template(decoder_.tables_root_dir, normalize=1)
    recorded = [(s.method_name, s.args) for s in TemplateCompiler().process(template, table_group).statements
                if getattr(s, 'method_name', None) == 'define_bitmap']
    assert recorded == [('define_bitmap', (True,)), ('define_bitmap', (False,))], recorded

    print('demo 5 OK: %d template data checked' % n_checked[0])


if __name__ == '__main__':
    main()
