import os, sys; sys.path.insert(0, os.getcwd())
import json
import itertools

from pybufrkit.encoder import Encoder
from pybufrkit.decoder import Decoder


def make_message(ids, subsets, compressed=False, version=29):
    """A BUFR edition 4 message in the JSON form the Encoder accepts."""
    return [["BUFR", 0, 4],
            [22, 0, 0, 0, 0, False, "0000000", 0, 0, 0, version, 0, 2020, 1, 1, 0, 0, 0],
            [0, "00000000", len(subsets), True, compressed, "000000", list(ids)],
            [0, "00000000", [list(s) for s in subsets]],
            ["7777"]]


def outcome(func, *args):
    try:
        return ('ok', func(*args))
    except Exception as e:  # the property demands "the same error"
        return ('error', type(e).__name__, str(e))


def describe(template_data):
    return (
        [[(type(d).__name__, d.id, str(d)) for d in ds] for ds in template_data.decoded_descriptors_all_subsets],
        [list(vs) for vs in template_data.decoded_values_all_subsets],
        [sorted(links.items()) for links in template_data.bitmap_links_all_subsets],
    )


def encode(encoder, message):
    m = encoder.process(json.dumps(message))
    return (m.serialized_bytes,) + describe(m.template_data.value)


def decode(decoder, data):
    m = decoder.process(data)
    return describe(m.template_data.value)


def rep(factor, *values):
    """factor followed by `factor` copies of values"""
    return [factor] + list(values) * factor


# (name, descriptor ids, function(factors...) -> values of one subset, number of factors)
PROGRAMS = [
    ('plain', [1001, 1002, 12001], lambda: [5, 100, 280.5], 0),
    ('delayed', [1001, 101000, 31001, 12001, 1002],
     lambda a: [5] + rep(a, 281.5) + [7], 1),
    ('nested', [104000, 31001, 1001, 101000, 31001, 12001],
     lambda a, b: [a] + ([3] + rep(b, 270.2)) * a, 2),
    ('fixed-in-delayed', [104000, 31001, 1001, 102002, 12001, 1002],
     lambda a: [a] + [3, 270.2, 9, 271.2, 8] * a, 1),
    ('201-202', [201130, 12001, 201000, 201132, 202129, 12001, 202000, 201000, 12001],
     lambda: [280.5, 280.55, 280.5], 0),
    ('207-208', [207001, 12001, 207000, 12001, 208002, 1015, 208000, 1015],
     lambda: [280.55, 280.5, 'AB', 'ABCDEFGHIJKLMNOPQRST'], 0),
    ('operators-in-loop', [106000, 31001, 201130, 207001, 12001, 207000, 201000, 12001],
     lambda a: [a] + [280.55, 280.5] * a, 1),
    ('203', [203012, 12001, 203255, 12001, 203000, 12001],
     lambda: [-100, 10.5, 280.5], 0),
    ('204', [204004, 31021, 12001, 1001, 204000, 12001],
     lambda: [1, 3, 280.5, 2, 5, 281.5], 0),
    ('205-206-221', [205003, 206008, 1001, 221002, 12001, 1002, 12001],
     lambda: ['abc', 17, 9, 280.5], 0),
]


def qa_bitmap_case(n, bits):
    """n temperatures, then a bitmap over (001001, n x 012001), QA values for the zero bits"""
    assert len(bits) == n + 1
    ids = [1001, 101000, 31001, 12001, 222000, 236000, 101000 + (n + 1), 31031, 1031, 1032]
    nzero = bits.count(0)
    if nzero:
        ids += [101000 + nzero, 33007]
    values = [5] + rep(n, 280.5) + [0, 0] + list(bits) + [7, 0] + [50] * nzero
    return ids, values


def marker_case(bits):
    """223/224/225/232 markers mixed with 201, 202, 207 and 208 and 203"""
    nzero = bits.count(0)
    ids = [12001, 1015, 10004,
           223000, 236000, 101003, 31031]
    values = [280.5, 'STATION', 101300, 0, 0] + list(bits)
    # substituted values with changed width/scale, string with changed width
    per_marker = {
        0: (280.55, 280.5),
        1: ('SUBST', 'SUBSTITUTE'),
        2: (101300.0, 101300),
    }
    zero_idx = [i for i, b in enumerate(bits) if b == 0]
    ids += [207001, 208005] + [223255] * nzero + [207000, 208000]
    values += [per_marker[i][0] for i in zero_idx]
    ids += [224000, 237000, 8023] + [224255] * nzero
    values += [0, 0, 4] + ['SUBSTITUTE' if i == 1 else (280.5 if i == 0 else 101300) for i in zero_idx]
    ids += [225000, 237000, 8024, 201129] + [225255] * nzero + [201000]
    values += [0, 0, 2] + ['SUBSTITUTE' if i == 1 else (-1.5 if i == 0 else -20) for i in zero_idx]
    ids += [232000, 237000, 201132, 202129] + [232255] * nzero + [202000, 201000, 237255, 235000, 12001]
    values += [0, 0] + ['SUBSTITUTE' if i == 1 else (280.55 if i == 0 else 101300.0) for i in zero_idx]
    values += [0, 270.5]
    return ids, values


# (name, descriptor ids, subsets, compressed): the encoder must fail (or not) identically on both paths
ERROR_CASES = [
    ('repetition-31011', [101000, 31011, 1001], [[1, 5]], False),
    ('operator-241', [1001, 241000, 1002], [[5, 7]], False),
    ('marker-without-bitmap', [12001, 223255], [[280.5, 280.5]], False),
    ('bitmap-too-long', [12001, 222000, 101003, 31031, 33007], [[280.5, 0, 0, 0, 0, 50]], False),
    ('factor-missing', [1001, 101000, 31001, 1002], [[5, None]], False),
    ('factor-differs-compressed', [101000, 31001, 1002], [[1, 5], [2, 5, 5]], True),
    ('too-few-values', [1001, 1002, 12001], [[5, 7]], False),
    ('204-cancel-without-open', [1001, 204000, 1002], [[5, 7]], False),
    ('203-on-string', [203012, 1015, 203255], [['X']], False),
    ('undefined-descriptor', [1001, 63255], [[5, 7]], False),
    ('recall-without-bitmap', [12001, 224000, 237000, 224255], [[280.5, 0, 0, 280.5]], False),
    ('value-too-large', [1001], [[100000]], False),
    ('string-for-number', [12001], [['warm']], False),
]


def corrupt_factor(data, new_factor):
    """
    `data` encodes template 001001 101000 031001 012001 (one subset, not
    compressed). Overwrite the 8 bits of the replication factor.
    """
    start_of_section4 = data.index(b'\x41\x00\x1f\x01\x0c\x01') + 6  # end of section 3
    assert data[start_of_section4 + 3:start_of_section4 + 4] == b'\x00'
    pos = (start_of_section4 + 4) * 8 + 7  # after 7 bits of 001001
    n = int.from_bytes(data, 'big')
    total = len(data) * 8
    shift = total - pos - 8
    n = (n & ~(0xff << shift)) | (new_factor << shift)
    return n.to_bytes(len(data), 'big')


def run_battery(make_encoder, make_decoder, label, skip=()):
    """
    Every program x data content x compression: the coder from make_encoder /
    make_decoder must agree with the plain (not compiling) one.
    Returns the number of comparisons.
    """
    plain_encoder = Encoder(ignore_declared_length=True)
    plain_decoder = Decoder()
    encoder = make_encoder()
    decoder = make_decoder()
    n = 0

    def check(name, ids, subsets, compressed, expect=None):
        message = make_message(ids, subsets, compressed)
        expected = outcome(encode, plain_encoder, message)
        got = outcome(encode, encoder, message)
        assert got == expected, (label, 'encode', name, compressed, expected, got)
        if expect is not None:
            assert expected[0] == expect, (label, name, expected)
        if expected[0] == 'ok':
            data = expected[1][0]
            expected_decoded = outcome(decode, plain_decoder, data)
            got_decoded = outcome(decode, decoder, data)
            assert expected_decoded[0] == 'ok', (label, name, expected_decoded)
            assert got_decoded == expected_decoded, (label, 'decode', name, compressed, expected_decoded, got_decoded)
            # labels and links seen by the encoder are those seen by the decoder
            assert expected_decoded[1][0] == expected[1][1], (label, name)
            assert expected_decoded[1][2] == expected[1][3], (label, name)
        return expected

    for name, ids, values_of, n_factors in PROGRAMS:
        if name in skip:
            continue
        for factors in itertools.product(range(4), repeat=n_factors):
            for compressed in (False, True):
                subsets = [values_of(*factors), values_of(*factors)]
                check('{}{}'.format(name, factors), ids, subsets, compressed, expect='ok')
                n += 1
        if n_factors:
            # different factors in the subsets of one (uncompressed) message
            subsets = [values_of(*([k % 4] * n_factors)) for k in (3, 0, 1, 2)]
            check(name + '-mixed', ids, subsets, False, expect='ok')
            r = check(name + '-mixed', ids, subsets, True, expect='error')
            assert r[1] == 'PyBufrKitError', r
            n += 2

    for n_temperatures in range(3):
        for bits in itertools.product((0, 1), repeat=n_temperatures + 1):
            ids, values = qa_bitmap_case(n_temperatures, list(bits))
            for compressed in (False, True):
                check('qa{}'.format(bits), ids, [values, values], compressed, expect='ok')
                n += 1

    for bits in itertools.product((0, 1), repeat=3):
        ids, values = marker_case(list(bits))
        for compressed in (False, True):
            check('markers{}'.format(bits), ids, [values, values, values], compressed, expect='ok')
            n += 1

    for name, ids, subsets, compressed in ERROR_CASES:
        r = check(name, ids, subsets, compressed)
        assert name == 'repetition-31011' or r[0] == 'error', (name, r)
        n += 1

    good = encode(plain_encoder, make_message([1001, 101000, 31001, 12001], [[5, 1, 280.5]]))[0]
    for factor, expect in ((0, 'ok'), (1, 'ok'), (2, 'PyBufrKitError'), (3, 'PyBufrKitError'),
                           (200, 'BitReadError'), (255, 'PyBufrKitError')):
        data = corrupt_factor(good, factor)
        expected = outcome(decode, plain_decoder, data)
        got = outcome(decode, decoder, data)
        assert got == expected, (label, 'corrupt', factor, expected, got)
        assert expected[0] == expect or expected[1] == expect, (factor, expected)
        n += 1

    return n


def sample_files():
    base = os.path.join(os.getcwd(), 'tests', 'data')
    names = ['207003', 'ISMD01_OKPR', 'IUSK73_AMMC_182300', 'amv2_87', 'asr3_190', 'b002_95', 'b005_89',
             'g2nd_208', 'jaso_214', 'mpco_217', 'profiler_european', 'rado_250', 'uegabe']
    return [os.path.join(base, name) for name in names]


def run_samples(make_encoder, make_decoder, label, skip=()):
    """The sample files: decode, and encode from their JSON form."""
    plain_encoder = Encoder(ignore_declared_length=True)
    plain_decoder = Decoder()
    encoder = make_encoder()
    decoder = make_decoder()
    n = 0
    for stub in sample_files():
        if os.path.basename(stub) in skip:
            continue
        n += 1
        with open(stub + '.bufr', 'rb') as ins:
            data = ins.read()
        expected = outcome(decode, plain_decoder, data)
        assert expected[0] == 'ok', (stub, expected)
        assert outcome(decode, decoder, data) == expected, (label, 'decode', stub)
        with open(stub + '.json') as ins:
            message = json.load(ins)
        expected = outcome(encode, plain_encoder, message)
        assert expected[0] == 'ok', (stub, expected)
        assert outcome(encode, encoder, message) == expected, (label, 'encode', stub)
    return n


###########################################################################
# Part 1: compiled against not compiled, through process_statements
n = run_battery(lambda: Encoder(ignore_declared_length=True, compiled_template_cache_max=4),
                lambda: Decoder(compiled_template_cache_max=4), 'cache 4')
n += run_battery(lambda: Encoder(ignore_declared_length=True, compiled_template_cache_max=0),
                 lambda: Decoder(compiled_template_cache_max=0), 'cache 0')
n += run_samples(lambda: Encoder(ignore_declared_length=True, compiled_template_cache_max=2),
                 lambda: Decoder(compiled_template_cache_max=2), 'samples')

###########################################################################
# Part 2: process_statements on hand made statement lists, with a coder and a
# state that only record what is done to them.
from pybufrkit.errors import PyBufrKitError
from pybufrkit.coder import BSRModifier
from pybufrkit.descriptors import ElementDescriptor, OperatorDescriptor
from pybufrkit.templatecompiler import (
    process_statements, process_compiled_template, Statement, MethodCall, StateMethodCall,
    CoderMethodCall, Block, Loop, CompiledTemplate, State031031Reset, State031031Increment)

TRACE = []


class FakeState(object):
    def __init__(self):
        self.n_031031 = 5
        self.nbits_offset = 0
        self.factors = []

    def recall_bitmap(self, *args):
        TRACE.append(('state.recall_bitmap', args, self.nbits_offset))


class FakeCoder(object):
    def process_numeric(self, state, *args):
        TRACE.append(('coder.process_numeric', state.nbits_offset, state.n_031031) + args)

    def define_bitmap(self, state, *args):
        TRACE.append(('coder.define_bitmap',) + args)

    def get_value_for_delayed_replication_factor(self, state, *args):
        assert args == ()
        value = state.factors.pop(0)
        TRACE.append(('factor', value))
        return value

    def boom(self, state, *args):
        raise ZeroDivisionError('boom')


def run(statements, state=None, factors=()):
    del TRACE[:]
    state = state or FakeState()
    state.factors = list(factors)
    coder = FakeCoder()
    result = outcome(process_statements, coder, state, 'BITS', statements)
    return result, list(TRACE), state


from pybufrkit.tables import TableGroupCacheManager
table_group = TableGroupCacheManager.get_table_group(master_table_version=29)
d12001 = table_group.lookup(12001)
op = table_group.lookup(223255)
assert type(d12001) is ElementDescriptor and type(op) is OperatorDescriptor
numeric = CoderMethodCall('process_numeric', (d12001, 12, 10.0, 0))
numeric_with_properties = CoderMethodCall('process_numeric', (op, 1), state_properties={'nbits_offset': 7})

# empty list, tuple, generator
assert run([])[:2] == (('ok', None), []) and run(())[:2] == (('ok', None), [])
r, trace, state = run(iter((numeric, State031031Increment(), numeric)))
assert r == ('ok', None)
assert trace == [('coder.process_numeric', 0, 5, 'BITS', d12001, 12, 10.0, 0),
                 ('coder.process_numeric', 0, 6, 'BITS', d12001, 12, 10.0, 0)], trace
assert state.n_031031 == 6

# state properties are set before the call and stay set afterwards
r, trace, state = run((numeric, numeric_with_properties, numeric))
assert [t[1] for t in trace] == [0, 7, 7], trace
assert trace[1] == ('coder.process_numeric', 7, 5, 'BITS', op, 1)
assert state.nbits_offset == 7

# a call without a descriptor gets no bit operator
r, trace, state = run([CoderMethodCall('define_bitmap', (True,)), CoderMethodCall('define_bitmap', (0, 'x'))])
assert r == ('ok', None) and trace == [('coder.define_bitmap', True), ('coder.define_bitmap', 0, 'x')], trace

# state method calls, with the properties applied first
r, trace, state = run([StateMethodCall('recall_bitmap'),
                       StateMethodCall('recall_bitmap', (1, d12001), state_properties={'nbits_offset': -3})])
assert r == ('ok', None)
assert trace == [('state.recall_bitmap', (), 0), ('state.recall_bitmap', (1, d12001), -3)], trace

# reset / increment, also for subclasses of them
class MyReset(State031031Reset):
    pass

r, trace, state = run([State031031Increment(), State031031Increment()])
assert state.n_031031 == 7
r, trace, state = run([State031031Increment(), MyReset(), State031031Increment()])
assert r == ('ok', None) and state.n_031031 == 1

# loops: constant, zero, negative, True, nested, delayed
r, trace, state = run([Loop(3)])
assert r == ('ok', None) and trace == []
for repeat, times in ((0, 0), (-2, 0), (1, 1), (3, 3), (True, 1), (False, 0)):
    loop = Loop(repeat)
    loop.add_statement(numeric)
    loop.add_statement(State031031Increment())
    r, trace, state = run([loop, numeric])
    assert r == ('ok', None)
    assert [t[2] for t in trace] == list(range(5, 5 + times)) + [5 + times], (repeat, trace)

outer = Loop(CoderMethodCall('get_value_for_delayed_replication_factor'))
inner = Loop(CoderMethodCall('get_value_for_delayed_replication_factor'))
inner.add_statement(numeric)
outer.add_statement(State031031Increment())
outer.add_statement(inner)
r, trace, state = run([outer, State031031Reset(), numeric], factors=[3, 2, 0, 1])
assert r == ('ok', None)
assert [t[:3] if t[0] != 'factor' else t for t in trace] == [
    ('factor', 3),
    ('factor', 2), ('coder.process_numeric', 0, 6), ('coder.process_numeric', 0, 6),
    ('factor', 0),
    ('factor', 1), ('coder.process_numeric', 0, 8),
    ('coder.process_numeric', 0, 0)], trace
assert state.factors == []

# a loop whose count is a state method call or a plain method call is not asked for
for repeat in (StateMethodCall('recall_bitmap'), MethodCall('x'), None, 1.0, '2'):
    loop = Loop(repeat)
    loop.add_statement(numeric)
    r, trace, state = run([numeric, loop])
    assert r[:2] == ('error', 'TypeError'), (repeat, r)
    assert len(trace) == 1

# errors: the error type, and what was done before it stays done
class MyLoop(Loop):
    pass

class MyCall(MethodCall):
    pass

class MyCoderCall(CoderMethodCall):
    pass

for bad in (MyLoop(2), Block(), CompiledTemplate(None, None), Statement(), 42, None, 'ab'):
    r, trace, state = run([State031031Increment(), numeric, bad, numeric])
    assert r == ('error', 'PyBufrKitError', 'Error: Unknown statement: {}'.format(bad)), (bad, r)
    assert len(trace) == 1 and state.n_031031 == 6

for bad in (MethodCall('process_numeric', (d12001,), {'nbits_offset': 9}),
            MyCall('recall_bitmap', (), {'nbits_offset': 9}),
            MyCoderCall('process_numeric', (d12001,), {'nbits_offset': 9})):
    r, trace, state = run([numeric, bad, numeric])
    assert r == ('error', 'PyBufrKitError', 'Error: Unknown statement: {}'.format(bad)), (bad, r)
    assert len(trace) == 1
    assert state.nbits_offset == 9  # the properties were set before the statement was refused

# a coder call without arguments fails on looking at the first argument, even
# when there is no such method; the properties are set by then
for name in ('define_bitmap', 'no_such_method'):
    r, trace, state = run([CoderMethodCall(name, (), {'nbits_offset': 4})])
    assert r == ('error', 'IndexError', 'tuple index out of range'), r
    assert state.nbits_offset == 4 and trace == []
r, trace, state = run([CoderMethodCall('no_such_method', (1,))])
assert r[:2] == ('error', 'AttributeError'), r
r, trace, state = run([StateMethodCall('no_such_method')])
assert r[:2] == ('error', 'AttributeError'), r
r, trace, state = run([numeric, CoderMethodCall('boom', (d12001,)), numeric])
assert r == ('error', 'ZeroDivisionError', 'boom') and len(trace) == 1
r, trace, state = run([Loop(CoderMethodCall('no_such_method'))])
assert r[:2] == ('error', 'AttributeError'), r
r, trace, state = run([CoderMethodCall('process_numeric', (d12001,), state_properties=[('a', 1)])])
assert r[:2] == ('error', 'AttributeError'), r  # a list has no items()
r, trace, state = run(None)
assert r[:2] == ('error', 'TypeError'), r

# process_compiled_template runs the statements of any block
block = Block()
block.add_statement(State031031Reset())
state = FakeState()
assert process_compiled_template(FakeCoder(), state, None, block) is None
assert state.n_031031 == 0

print('demo 1: {} comparisons of compiled with not compiled coders, all agree; process_statements ok'.format(n))
