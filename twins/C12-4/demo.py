"""
Demo for refactor 4 (pybufrkit/__init__.py: main - dispatch of the command and reporting of errors).

Run as:  cd /tmp/tw_C12 && /venv/bin/python _out/4/demo.py
"""
import os, sys; sys.path.insert(0, os.getcwd())

import contextlib
import io
import logging
import shutil
import subprocess
import tempfile

import pybufrkit
from pybufrkit.decoder import Decoder
from pybufrkit.errors import (PyBufrKitError, BitReadError, UnknownDescriptor, PathExprParsingError,
                              QueryError, MetadataExprParsingError)

assert os.path.dirname(os.path.abspath(pybufrkit.__file__)) == os.path.join(os.getcwd(), 'pybufrkit'), \
    'wrong copy of pybufrkit imported: ' + pybufrkit.__file__

DATA = os.path.join(os.getcwd(), 'tests', 'data')


def load(name):
    with open(os.path.join(DATA, name + '.bufr'), 'rb') as ins:
        return ins.read()


def cli(*argv):
    """Run the command line in this process -> (return value, escaped exception, stdout, stderr)"""
    logging.root.handlers[:] = []  # so that logging.basicConfig of main binds to the stdout of this run
    out, err = io.StringIO(), io.StringIO()
    saved_argv = sys.argv
    sys.argv = ['pybufrkit'] + list(argv)
    ret = exc = None
    try:
        with contextlib.redirect_stdout(out), contextlib.redirect_stderr(err):
            try:
                ret = pybufrkit.main()
            except BaseException as e:  # noqa
                exc = e
    finally:
        sys.argv = saved_argv
        logging.root.handlers[:] = []
    return ret, exc, out.getvalue(), err.getvalue()


decoder = Decoder()


def layout(s):
    m = decoder.process(s)
    return {sec.get_metadata('index'): (sec.get_metadata('bitpos_start') // 8,
                                        sec.section_length.value if 'section_length' in sec else None)
            for sec in m.sections}


def damage_stop(s):
    return s[:-4] + b'7770'


def n_descriptors(s):
    off, ln = layout(s)[3]
    return (ln - 7) // 2


def damage_descriptor(s, position, fxy):
    off, _ = layout(s)[3]
    p = off + 7 + 2 * position
    f, x, y = fxy
    return s[:p] + bytes([(f << 6) | x, y]) + s[p + 2:]


def damage_length(s, section_index, delta):
    off, ln = layout(s)[section_index]
    return s[:off] + (ln + delta).to_bytes(3, 'big') + s[off + 3:]


KINDS = [
    ('stop', damage_stop),
    ('elem', lambda s: damage_descriptor(s, 0, (0, 63, 255))),
    ('seq', lambda s: damage_descriptor(s, n_descriptors(s) - 1, (3, 63, 255))),
    ('len1-', lambda s: damage_length(s, 1, -1)),
    ('len1+', lambda s: damage_length(s, 1, 1)),
    ('len3-', lambda s: damage_length(s, 3, -2)),
    ('len3+', lambda s: damage_length(s, 3, 2)),
    ('len4-', lambda s: damage_length(s, 4, -1)),
    ('len4+', lambda s: damage_length(s, 4, 1)),
]
INFO_DECODABLE = {'stop', 'elem', 'seq', 'len4-', 'len4+'}
REPORT = 'Continuing on next message and ignoring error: '

A, B, C = load('contrived'), load('207003'), load('profiler_european')

tmpdir = tempfile.mkdtemp(prefix='c12_demo4_')
try:
    path = os.path.join(tmpdir, 'stream.bufr')


    def put(*parts):
        with open(path, 'wb') as outs:
            outs.write(b''.join(parts))


    def one_error_line(text):
        """The whole of stderr is a single line 'Error: ...' - no traceback, nothing else"""
        return text.startswith('Error: ') and text.endswith('\n') and text.count('\n') == 1 \
            and 'Traceback' not in text

    # -----------------------------------------------------------------------------------------
    # 1. good input, every command that decodes
    # -----------------------------------------------------------------------------------------
    put(A)
    ret, exc, DECODED_A, err = cli('decode', path)
    assert (ret, exc, err) == (None, None, '') and 'stop_signature = ' in DECODED_A
    put(A, B, C)
    ret, exc, DECODED_ABC, err = cli('decode', '-m', path)
    assert (ret, exc, err) == (None, None, '') and DECODED_ABC.startswith(DECODED_A)
    assert DECODED_ABC.count('<<<<<< section 0 >>>>>>') == 3
    put(A, C)
    ret, exc, DECODED_AC, err = cli('decode', '-m', path)
    assert (ret, exc, err) == (None, None, '') and DECODED_AC.count('<<<<<< section 0 >>>>>>') == 2
    put(B, C)
    DECODED_BC = cli('decode', '-m', path)[2]
    put(A, B)
    DECODED_AB = cli('decode', '-m', path)[2]
    put(B)
    DECODED_B = cli('decode', '-m', path)[2]
    put(C)
    DECODED_C = cli('decode', '-m', path)[2]
    assert DECODED_ABC == DECODED_A + DECODED_B + DECODED_C
    EXPECT = {(True, True, True): DECODED_ABC, (True, False, True): DECODED_AC,
              (False, True, True): DECODED_BC, (True, True, False): DECODED_AB,
              (True, False, False): DECODED_A, (False, True, False): DECODED_B,
              (False, False, True): DECODED_C, (False, False, False): ''}

    put(A, B, C)
    ret, exc, out, err = cli('info', '-c', path)
    assert (ret, exc, out, err) == (None, None, '{}: 3\n'.format(path), '')
    ret, exc, INFO_ABC, err = cli('info', '-m', path)
    assert (ret, exc, err) == (None, None, '') and INFO_ABC.count('<<<<<< section 0 >>>>>>') == 3
    ret, exc, out, err = cli('split', path)
    assert (ret, exc, err) == (None, None, '')
    assert out == ''.join('{}.{}\n'.format(path, i) for i in range(3))
    for i, part in enumerate((A, B, C)):
        with open('{}.{}'.format(path, i), 'rb') as ins:
            assert ins.read() == part
        os.remove('{}.{}'.format(path, i))
    ret, exc, out, err = cli('lookup', '001001,063255')
    assert (ret, exc, err) == (None, None, '') and out.endswith('063255 (UNDEFINED)\n')
    put(A)
    ret, exc, out, err = cli('query', '001001', path)
    assert (ret, exc, err) == (None, None, '')
    assert out == path + '\n###### subset 1 of 2 ######\n94\n###### subset 2 of 2 ######\n95\n'
    ret, exc, out, err = cli('script', 'print(${001001})', path)
    assert (ret, exc, out, err) == (None, None, '[94, 95]\n', '')
    ret, exc, out, err = cli('compile', '301001')
    assert (ret, exc, err) == (None, None, '') and out != ''

    # -----------------------------------------------------------------------------------------
    # 2. a single damaged message: one line on stderr, no traceback, nothing on stdout, main returns normally
    # -----------------------------------------------------------------------------------------
    for name, original in (('contrived', A), ('207003', B), ('profiler_european', C)):
        for kind, damage in KINDS:
            put(damage(original))
            for argv in (('decode', path), ('decode', '-m', path), ('decode', '-a', path),
                         ('decode', '-j', path), ('script', 'print(${001001})', path),
                         ('query', '001001', path)):
                ret, exc, out, err = cli(*argv)
                assert ret is None and exc is None, (name, kind, argv, exc)
                assert out == '', (name, kind, argv, out)
                assert one_error_line(err), (name, kind, argv, err)
                if kind == 'stop':
                    assert err == "Error: Value (b'7770') not as expected (b'7777')\n"
                elif kind == 'elem':
                    assert err.startswith('Error: Cannot process descriptor 063255 of type: Undefined')
                elif kind == 'seq':
                    assert err.startswith('Error: Cannot process descriptor 363255 of type: Undefined')
                elif kind == 'len1-':
                    assert err.startswith('Error: Read exceeds declared section 1 length: ')
            # the expected value check can be switched off from the command line
            if kind == 'stop':
                ret, exc, out, err = cli('decode', '--ignore-value-expectation', path)
                assert (ret, exc, err) == (None, None, '') and "stop_signature = b'7770'" in out

            # continue on error with a single message: reported, skipped, nothing to show
            ret, exc, out, err = cli('decode', '-m', '--continue-on-error', path)
            assert (ret, exc, out) == (None, None, '')
            assert err.startswith(REPORT + 'Error: ') and err.count('\n') == 1 and 'Traceback' not in err

            # info only scanning
            for argv in (('info', path), ('info', '-m', path), ('split', path)):
                ret, exc, out, err = cli(*argv)
                assert ret is None and exc is None, (name, kind, argv, exc)
                if kind in INFO_DECODABLE:
                    if argv[0] == 'split':
                        assert err == '' and out == path + '.0\n'
                        os.remove(path + '.0')
                    else:
                        # the undefined descriptor is met when the template is built for display
                        assert err == '' or (kind in ('elem', 'seq') and one_error_line(err)), (kind, argv, err)
                else:
                    assert out == '' and one_error_line(err), (name, kind, argv, out, err)
            ret, exc, out, err = cli('info', '-c', path)
            assert ret is None and exc is None
            if kind in INFO_DECODABLE:
                assert (out, err) == ('{}: 1\n'.format(path), '')
            else:
                assert out == '' and one_error_line(err)

    # -----------------------------------------------------------------------------------------
    # 3. every truncation point of a message: always the single line, never a traceback
    # -----------------------------------------------------------------------------------------
    for n in range(len(A)):
        put(A[:n])
        ret, exc, out, err = cli('decode', path)
        assert (ret, exc, out) == (None, None, ''), (n, exc)
        assert one_error_line(err), (n, err)
        if n < 4:
            assert err.startswith('Error: Cannot find start signature'), (n, err)
        else:
            assert err.startswith('Error: Needed a length of at least '), (n, err)
        ret, exc, out, err = cli('decode', '-m', path)
        assert (ret, exc, out) == (None, None, ''), (n, exc)
        assert err == '' if n < 4 else err.startswith('Error: Needed a length of at least '), (n, err)
    # bytes after the message do not matter
    put(A, b'7777BUF\x00\xff')
    assert cli('decode', path) == (None, None, DECODED_A, '')
    assert cli('decode', '-m', path) == (None, None, DECODED_A, '')

    # -----------------------------------------------------------------------------------------
    # 4. streams of three messages, every kind of damage at every position and at all positions
    # -----------------------------------------------------------------------------------------
    originals = (A, B, C)
    for kind, damage in KINDS:
        for damaged_positions in ((0,), (1,), (2,), (0, 1), (1, 2), (0, 2), (0, 1, 2)):
            parts = [damage(s) if i in damaged_positions else s for i, s in enumerate(originals)]
            put(*parts)
            good = tuple(i not in damaged_positions for i in range(3))

            # skip and continue: the others are shown unchanged and in order
            ret, exc, out, err = cli('decode', '-m', '--continue-on-error', path)
            assert (ret, exc) == (None, None)
            assert out == EXPECT[good], (kind, damaged_positions)
            lines = err.splitlines()
            assert len(lines) == len(damaged_positions) and 'Traceback' not in err
            assert all(line.startswith(REPORT + 'Error: ') for line in lines)

            # stop at the first error: the preceding ones are shown, then the single line
            ret, exc, out, err = cli('decode', '-m', path)
            assert (ret, exc) == (None, None)
            first = min(damaged_positions)
            assert out == EXPECT[tuple(i < first for i in range(3))], (kind, damaged_positions)
            assert one_error_line(err), (kind, damaged_positions, err)

            # counting with info-only scanning
            ret, exc, out, err = cli('info', '-c', '--continue-on-error', path)
            assert (ret, exc) == (None, None)
            n_expected = 3 if kind in INFO_DECODABLE else 3 - len(damaged_positions)
            assert out == '{}: {}\n'.format(path, n_expected), (kind, damaged_positions, out)
            assert err.count(REPORT) == 3 - n_expected and 'Traceback' not in err

            ret, exc, out, err = cli('split', '--continue-on-error', path)
            assert (ret, exc) == (None, None)
            assert out == ''.join('{}.{}\n'.format(path, i) for i in range(n_expected))
            delivered = [p for i, p in enumerate(parts) if kind in INFO_DECODABLE or good[i]]
            for i, part in enumerate(delivered):
                with open('{}.{}'.format(path, i), 'rb') as ins:
                    assert ins.read() == part
                os.remove('{}.{}'.format(path, i))

    # -----------------------------------------------------------------------------------------
    # 5. the other errors that main reports: I/O, path expressions, queries, compile, subset
    # -----------------------------------------------------------------------------------------
    missing = os.path.join(tmpdir, 'nosuch.bufr')
    for argv in (('decode', missing), ('info', missing), ('split', missing), ('query', '001001', missing),
                 ('script', 'print(1)', missing), ('encode', missing), ('subset', '0', missing)):
        ret, exc, out, err = cli(*argv)
        assert (ret, exc, out) == (None, None, ''), (argv, exc)
        assert err == 'Error: No such file or directory: {}\n'.format(missing), (argv, err)
    assert cli('decode', tmpdir) == (None, None, '', 'Error: Is a directory: {}\n'.format(tmpdir))
    put(A)
    assert cli('query', '/301001/001001[', path) == (None, None, '', 'Error: unexpected end of path expression\n')
    assert cli('subset', '5', path) == (None, None, '', 'Error: maximum subset index out of range\n')
    assert cli('compile', '363255') == \
        (None, None, '', 'Error: Cannot process descriptor 363255 of type: UndefinedSequenceDescriptor\n')
    assert cli('compile', '063255') == \
        (None, None, '', 'Error: Cannot process descriptor 063255 of type: UndefinedElementDescriptor\n')
    # the good file before the bad one is shown, the one after is not reached
    ret, exc, out, err = cli('decode', path, missing, path)
    assert (ret, exc, out) == (None, None, DECODED_A)
    assert err == 'Error: No such file or directory: {}\n'.format(missing)

    # what main does not handle still escapes as it is
    ret, exc, out, err = cli('lookup', 'abc')
    assert type(exc) is ValueError and (out, err) == ('', '')
    ret, exc, out, err = cli('script', 'print(${001001', path)
    assert type(exc) is SyntaxError and (out, err) == ('', '')
    ret, exc, out, err = cli('nosuch')
    assert type(exc) is SystemExit and exc.code == 2 and out == '' and 'invalid choice' in err
    ret, exc, out, err = cli()
    assert type(exc) is SystemExit and exc.code == 2 and out == ''
    assert 'the following arguments are required: command' in err
    ret, exc, out, err = cli('--version')
    assert type(exc) is SystemExit and exc.code == 0 and out == 'pybufrkit: {}\n'.format(pybufrkit.__version__)
    # (Outside of the property, recorded to show it is preserved: a section 2 declaring fewer than its
    # four leading octets ends in a ValueError of the bit reader, which main lets through.)
    off, ln = layout(C)[2]
    put(C[:off] + (0).to_bytes(3, 'big') + C[off + 3:])
    ret, exc, out, err = cli('decode', path)
    assert type(exc) is ValueError and str(exc) == "Can't parse 'name[:]length' token 'bin:-32'."
    assert (out, err) == ('', '')

    # -----------------------------------------------------------------------------------------
    # 6. the dispatch and the handlers in isolation: every command name reaches its own function, looked up
    #    in the module when main runs; every error class is reported the same way
    # -----------------------------------------------------------------------------------------
    ARGV = {
        'decode': ('decode', 'f'), 'info': ('info', 'f'), 'encode': ('encode', 'f'), 'split': ('split', 'f'),
        'lookup': ('lookup', '001001'), 'compile': ('compile', '001001'), 'subset': ('subset', '0', 'f'),
        'query': ('query', '001001', 'f'), 'script': ('script', 'x', 'f'),
    }
    saved = {name: getattr(pybufrkit, 'command_' + name) for name in ARGV}
    seen = []
    try:
        for name in ARGV:
            setattr(pybufrkit, 'command_' + name,
                    lambda ns, name=name: seen.append((name, ns.command)) or print('ran ' + name))
        for name, argv in ARGV.items():
            assert cli(*argv) == (None, None, 'ran {}\n'.format(name), ''), name
        assert seen == [(name, name) for name in ARGV]


        class Custom(PyBufrKitError):
            pass


        class CustomStr(QueryError):
            def __str__(self):
                return 'custom text'


        class LibraryAndIO(UnknownDescriptor, IOError):
            pass


        class IOAndLibrary(IOError, BitReadError):
            def __init__(self, message):
                IOError.__init__(self, 5, 'strerror', 'filename')
                self.message = message

            __str__ = PyBufrKitError.__str__


        def raiser(error):
            def command(ns):
                print('before')
                raise error
            return command

        for error, expected in (
                (PyBufrKitError('root'), 'Error: root\n'),
                (PyBufrKitError(), 'Error: \n'),
                (UnknownDescriptor('ud'), 'Error: ud\n'),
                (BitReadError('br'), 'Error: br\n'),
                (PathExprParsingError('pe'), 'Error: pe\n'),
                (QueryError('qe'), 'Error: qe\n'),
                (MetadataExprParsingError('me'), 'Error: me\n'),
                (Custom('cu'), 'Error: cu\n'),
                (Custom(b'bytes'), "Error: b'bytes'\n"),
                (CustomStr('x'), 'custom text\n'),
                (LibraryAndIO('both'), 'Error: both\n'),
                (IOAndLibrary('both2'), 'Error: both2\n'),
                (IOError(2, 'No such file or directory', 'some/file'), 'Error: No such file or directory: some/file\n'),
                (FileNotFoundError(2, 'Nope', 'f2'), 'Error: Nope: f2\n'),
                (PermissionError(13, 'Permission denied', 'f3'), 'Error: Permission denied: f3\n'),
                (OSError('only one argument'), 'Error: None: None\n'),
                (BrokenPipeError(), 'Error: None: None\n'),
        ):
            for name, argv in ARGV.items():
                setattr(pybufrkit, 'command_' + name, raiser(error))
                assert cli(*argv) == (None, None, 'before\n', expected), (name, error)

        for error in (ValueError('v'), KeyError('k'), TypeError('t'), AttributeError('a'), RuntimeError('r'),
                      NotImplementedError('n'), KeyboardInterrupt(), SystemExit(3), Exception('e')):
            pybufrkit.command_decode = raiser(error)
            ret, exc, out, err = cli('decode', 'f')
            assert exc is error and (ret, out, err) == (None, 'before\n', ''), error
    finally:
        for name, func in saved.items():
            setattr(pybufrkit, 'command_' + name, func)

    # the names importable from the package are unchanged
    for name in ('BitReadError', 'PathExprParsingError', 'QueryError', 'UnknownDescriptor', 'PyBufrKitError',
                 'main', 'LOGGER', '__version__', '__author__') + tuple('command_' + n for n in ARGV):
        assert hasattr(pybufrkit, name), name

    # -----------------------------------------------------------------------------------------
    # 7. the real thing: a separate interpreter, exit status and output
    # -----------------------------------------------------------------------------------------
    LAUNCH = ('import os, sys; sys.path.insert(0, os.getcwd()); import pybufrkit; '
              'assert pybufrkit.__file__.startswith(os.getcwd()); sys.argv[0] = "pybufrkit"; '
              'sys.exit(pybufrkit.main())')

    def run(*argv):
        p = subprocess.run([sys.executable, '-c', LAUNCH] + list(argv), cwd=os.getcwd(),
                           stdout=subprocess.PIPE, stderr=subprocess.PIPE, universal_newlines=True)
        return p.returncode, p.stdout, p.stderr

    put(A, damage_stop(B), C)
    assert run('decode', '-m', path) == (0, DECODED_A, "Error: Value (b'7770') not as expected (b'7777')\n")
    assert run('decode', '-m', '--continue-on-error', path) == \
        (0, DECODED_AC, REPORT + "Error: Value (b'7770') not as expected (b'7777')\n")
    put(A, damage_descriptor(B, 0, (3, 63, 255)), C)
    code, out, err = run('decode', '-m', path)
    assert (code, out) == (0, DECODED_A) and one_error_line(err)
    assert err.startswith('Error: Cannot process descriptor 363255 of type: Undefined')
    put(A[:60])
    code, out, err = run('decode', path)
    assert (code, out) == (0, '') and one_error_line(err) and err.startswith('Error: Needed a length of')
    assert run('decode', missing) == (0, '', 'Error: No such file or directory: {}\n'.format(missing))
    # debug logging goes to stdout, the error still to stderr as a single line
    put(damage_length(A, 1, -1))
    code, out, err = run('--debug', 'decode', path)
    assert code == 0 and err == 'Error: Read exceeds declared section 1 length: 21 by 8 bits\n'
    assert "DEBUG: start_signature = b'BUFR'\n" in out and 'DEBUG: section_length = 21\n' in out
finally:
    shutil.rmtree(tmpdir, ignore_errors=True)

print('demo 4 OK')
