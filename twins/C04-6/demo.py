import os, sys; sys.path.insert(0, os.getcwd())
"""
Differential demonstration for refactor 6 (bitops: one chooser for the byte-wise /
bit-wise interpretation of unsigned integers shared by read_uint, write_uint, skip and
set_uint; the if/elif chains of BitReader.read and BitWriter.write as tables).

Part 1 drives the bit reader / writer directly and compares with a model that is a
plain str of '0' and '1'. Part 2 encodes and decodes whole messages (every residue of
the data section modulo 16, editions 2-4, section 2 present / absent, surplus octets,
lengths recomputed / honoured) and compares with messages assembled here bit by bit.
Exits 0 on the unpatched and on the patched tree.
"""
import glob
import json
import logging
import random

logging.disable(logging.CRITICAL)

import pybufrkit
from pybufrkit.bitops import get_bit_reader, get_bit_writer, BitStringBitReader, BitStringBitWriter
from pybufrkit.constants import BITPOS_START
from pybufrkit.decoder import Decoder
from pybufrkit.encoder import Encoder
from pybufrkit.errors import PyBufrKitError, BitReadError

assert os.path.dirname(os.path.abspath(pybufrkit.__file__)) == os.path.join(os.getcwd(), 'pybufrkit'), \
    'run me from the worktree root'

N_CHECKS = [0]


def check(cond, *what):
    N_CHECKS[0] += 1
    if not cond:
        raise AssertionError('demo 6 FAILED: ' + ' '.join(str(w) for w in what))


def raises(exc_type, func, *args, **kwargs):
    """Exact exception type (not a subclass) expected."""
    try:
        func(*args, **kwargs)
    except BaseException as e:
        check(type(e) is exc_type, 'expected', exc_type.__name__, 'got', type(e).__name__, e)
        return e
    check(False, 'expected', exc_type.__name__, 'but nothing was raised')


# ---------------------------------------------------------------------------
# Independent reference: a message made of k subsets of 004004 (hour, 5 bits)
# ---------------------------------------------------------------------------
def u(value, nbits):
    return format(value, '0{}b'.format(nbits))


def hours_of(k):
    return [(i * 7 + 3) % 24 for i in range(k)]


def section1_values(ed, has_sec2, declared=0):
    if ed == 4:
        return [declared, 0, 98, 5, 1, has_sec2, '0000000', 7, 8, 9, 13, 0, 2020, 1, 2, 3, 4, 5]
    if ed == 3:
        return [declared, 0, 5, 98, 1, has_sec2, '0000000', 7, 9, 13, 0, 20, 1, 2, 3, 4, 5]
    return [declared, 0, 98, 1, has_sec2, '0000000', 7, 9, 13, 0, 20, 1, 2, 3, 4, 5]


def section1_body(ed, has_sec2):
    flag = ('1' if has_sec2 else '0') + '0000000'
    if ed == 4:
        return (u(0, 8) + u(98, 16) + u(5, 16) + u(1, 8) + flag + u(7, 8) + u(8, 8) + u(9, 8) + u(13, 8) + u(0, 8) +
                u(2020, 16) + ''.join(u(v, 8) for v in (1, 2, 3, 4, 5)))
    if ed == 3:
        return (u(0, 8) + u(5, 8) + u(98, 8) + u(1, 8) + flag + u(7, 8) + u(9, 8) + u(13, 8) + u(0, 8) +
                ''.join(u(v, 8) for v in (20, 1, 2, 3, 4, 5)))
    return (u(0, 8) + u(98, 16) + u(1, 8) + flag + u(7, 8) + u(9, 8) + u(13, 8) + u(0, 8) +
            ''.join(u(v, 8) for v in (20, 1, 2, 3, 4, 5)))


def framed(body, ed, surplus):
    """Prefix the 24-bit length, pad to (even) octets, add `surplus` zero octets."""
    unit = 16 if ed <= 3 else 8
    nbits = 24 + len(body)
    nbits += -nbits % unit
    nbytes = nbits // 8 + surplus
    bits = u(nbytes, 24) + body
    return bits + '0' * (nbytes * 8 - len(bits)), nbytes


def ref_message(ed, k, sec2=None, surplus=(0, 0, 0, 0)):
    """:return: (bytes of the message, [section lengths 1..4 (without 2 if absent)])"""
    parts, lengths = [], []
    bodies = [(section1_body(ed, sec2 is not None), surplus[0])]
    if sec2 is not None:
        bodies.append(('00000000' + sec2, surplus[1]))
    bodies.append(('00000000' + u(k, 16) + '10' + '000000' + u(0, 2) + u(4, 6) + u(4, 8), surplus[2]))
    bodies.append(('00000000' + ''.join(u(h, 5) for h in hours_of(k)), surplus[3]))
    for body, extra in bodies:
        bits, nbytes = framed(body, ed, extra)
        parts.append(bits)
        lengths.append(nbytes)
    total = 8 + sum(lengths) + 4
    bits = ''.join(u(c, 8) for c in b'BUFR') + u(total, 24) + u(ed, 8) + ''.join(parts) + \
        ''.join(u(c, 8) for c in b'7777')
    assert len(bits) == total * 8
    return bytes(int(bits[i:i + 8], 2) for i in range(0, len(bits), 8)), lengths


def json_message(ed, k, sec2=None, declared=None, total=0):
    """The input of the encoder. declared: section lengths 1..4 (without 2 if absent)"""
    n_sections = 4 if sec2 is not None else 3
    declared = list(declared) if declared is not None else [0] * n_sections
    out = [['BUFR', total, ed], section1_values(ed, sec2 is not None, declared.pop(0))]
    if sec2 is not None:
        out.append([declared.pop(0), '00000000', sec2])
    out.append([declared.pop(0), '00000000', k, True, False, '000000', [4004]])
    out.append([declared.pop(0), '00000000', [[h] for h in hours_of(k)]])
    out.append(['7777'])
    return out


def section_lengths(message):
    return [s.section_length.value for s in message.sections if 'section_length' in s]


def check_message(message, expected_bytes, expected_lengths, ed, k, sec2, tag):
    check(message.serialized_bytes == expected_bytes, tag, 'bytes')
    check(message.length.value == len(expected_bytes), tag, 'length')
    check(section_lengths(message) == expected_lengths, tag, 'section lengths', section_lengths(message))
    indexes = [s.get_metadata('index') for s in message.sections]
    check(indexes == ([0, 1, 2, 3, 4, 5] if sec2 is not None else [0, 1, 3, 4, 5]), tag, 'sections', indexes)
    check(message.edition.value == ed and message.n_subsets.value == k, tag, 'edition / n_subsets')
    check(message.template_data.value.decoded_values_all_subsets == [[h] for h in hours_of(k)], tag, 'values')
    # The start bit position of each section is the running sum of what was processed before
    starts = [s.get_metadata(BITPOS_START) for s in message.sections]
    expected_starts = [0, 64]
    for n in expected_lengths:
        expected_starts.append(expected_starts[-1] + n * 8)
    check(starts == expected_starts, tag, 'BITPOS_START', starts, expected_starts)


# ---------------------------------------------------------------------------
# Part 1: the bit writer and the bit reader against a str of '0' and '1'
# ---------------------------------------------------------------------------
def to_bytes(bits):
    assert len(bits) % 8 == 0
    return bytes(int(bits[i:i + 8], 2) for i in range(0, len(bits), 8))


def writer_bits(writer):
    """What the writer holds, without going through any of the refactored methods."""
    return writer.bit_stream.bin


check(type(get_bit_writer()) is BitStringBitWriter and type(get_bit_reader(b'')) is BitStringBitReader, 'factories')

rnd = random.Random(20260929)
ALL_NBITS = list(range(1, 42)) + [48, 56, 63, 64, 65, 72, 127, 128]

# 1a. write_uint / write('uint') / skip / set_uint for byte-wise and bit-wise widths, at any alignment
for lead in range(0, 9):
    for nbits in ALL_NBITS:
        writer = get_bit_writer()
        model = ''
        if lead:
            check(writer.write('1' * lead, 'bin', 777) == '1' * lead, 'write bin returns the value')
            model += '1' * lead
        top = (1 << nbits) - 1
        for value in sorted({0, 1, top, top // 3, rnd.randint(0, top)}):
            how = rnd.choice(('method', 'dispatch', 'string', 'float'))
            if how == 'method':
                returned = writer.write_uint(value, nbits)
            elif how == 'dispatch':
                returned = writer.write(value, 'uint', nbits)
            elif how == 'string':
                returned = writer.write(str(value), 'uint', nbits)  # values may come as text from JSON
            else:
                returned = writer.write(float(value) if value < 2 ** 53 else value, 'uint', nbits)
            check(returned == value and type(returned) is int, 'write_uint returns the int', returned)
            model += u(value, nbits)
            check(writer.get_pos() == len(model), 'get_pos after write_uint')
        check(writer.skip(nbits) is None, 'skip returns nothing')
        model += '0' * nbits
        check(writer.get_pos() == len(model) and writer_bits(writer) == model, 'skip', lead, nbits)

        # set_uint: anywhere inside, flush with the end, and past the end (which appends)
        for bitpos in sorted({0, lead, 3, 8, len(model) - nbits, max(0, len(model) - nbits - 5), len(model) + 4}):
            value = rnd.randint(0, top)
            check(writer.set_uint(value, nbits, bitpos) is None, 'set_uint returns nothing')
            model = model[:bitpos] + u(value, nbits) + model[bitpos + nbits:]
            check(writer_bits(writer) == model and writer.get_pos() == len(model), 'set_uint', lead, nbits, bitpos)

        # values that do not fit: refused, nothing written
        for bad in (top + 1, -1):
            e = raises(ValueError, writer.write_uint, bad, nbits)
            e = raises(ValueError, writer.write, bad, 'uint', nbits)
            e = raises(ValueError, writer.set_uint, bad, nbits, lead)
        check(writer_bits(writer) == model, 'nothing written by refused values')

        # read it all back, both ways
        pad = '0' * (-len(model) % 8)
        if pad:
            writer.write_bin(pad)
        check(writer.to_bytes() == to_bytes(model + pad), 'to_bytes')
        for via_dispatch in (False, True):
            reader = get_bit_reader(to_bytes(model + pad))
            pos = 0
            if lead:
                check(reader.read('bin', lead) == model[:lead], 'read bin')
                pos = lead
            while pos + nbits <= len(model):
                value = reader.read('uint', nbits) if via_dispatch else reader.read_uint(nbits)
                check(value == int(model[pos:pos + nbits], 2) and type(value) is int, 'read_uint', lead, nbits, pos)
                pos += nbits
                check(reader.get_pos() == pos, 'get_pos after read_uint')
            # not enough left for one more
            n_left = len(model + pad) - pos
            e = raises(BitReadError, reader.read, 'uint', n_left + 1)
            check(isinstance(e, PyBufrKitError) and str(n_left + 1) in str(e), 'BitReadError message', e)
            check(reader.get_pos() == pos, 'position kept by a failed read')

# 1b. which interpretation was chosen shows in the refusals of the underlying library
writer = get_bit_writer()
writer.write_bin('101')
for nbits, name in ((0, 'uintbe'), (-8, 'uintbe:-8'), (-16, 'uintbe:-16'), (-3, 'uint:-3'), (-1, 'uint:-1')):
    for call in (lambda: writer.skip(nbits), lambda: writer.write_uint(0, nbits), lambda: writer.write(0, 'uint', nbits)):
        e = raises(ValueError, call)
        check(name in str(e), 'writer refusal names', name, e)
    e = raises(ValueError, get_bit_reader(b'\xff\xff').read_uint, nbits)
    if nbits:
        check(name in str(e), 'reader refusal names', name, e)
e = raises(ValueError, writer.set_uint, 0, 0, 0)
check('uintbe' in str(e), 'set_uint of no bits', e)
for nbits in (None, 'x', [8]):
    for call in (lambda: writer.skip(nbits), lambda: writer.write_uint(0, nbits), lambda: writer.set_uint(0, nbits, 0),
                 lambda: writer.write(0, 'uint', nbits), lambda: get_bit_reader(b'\xff').read_uint(nbits),
                 lambda: get_bit_reader(b'\xff').read('uint', nbits), lambda: get_bit_reader(b'\xff').read('bytes', nbits),
                 lambda: writer.write(b'a', 'bytes', nbits)):
        raises(TypeError, call)
raises(TypeError, writer.write_uint, None, 8)  # int(value) comes first ...
raises(TypeError, writer.write_uint, None, None)
raises(ValueError, writer.write_uint, 'x', None)  # ... also when the width is no good either
check(writer_bits(writer) == '101', 'nothing written by the refusals')
# whole-number floats are as good as ints for the width (same token text would differ: not supported either way)
raises(ValueError, writer.write_uint, 1, 8.0)
raises(ValueError, writer.skip, 8.0)

# 1c. the dispatch of write() and read() by type
writer = get_bit_writer()
model = ''
script = []
for _ in range(400):
    data_type = rnd.choice(('uint', 'int', 'bool', 'bin', 'bytes'))
    if data_type == 'uint':
        nbits = rnd.choice(ALL_NBITS[:48])
        value = rnd.randint(0, (1 << nbits) - 1)
        returned, expected_return, bits = writer.write(value, 'uint', nbits), value, u(value, nbits)
    elif data_type == 'int':  # sign and magnitude
        nbits = rnd.choice([2, 3, 8, 9, 16, 17, 24, 25])
        value = rnd.randint(-(1 << (nbits - 1)) + 1, (1 << (nbits - 1)) - 1)
        returned, expected_return = writer.write(value, 'int', nbits), value
        bits = ('1' if value < 0 else '0') + u(abs(value), nbits - 1)
    elif data_type == 'bool':  # the number of bits plays no role
        value = rnd.choice((True, False))
        nbits = rnd.choice((1, 0, 8, None))
        returned, expected_return, bits = writer.write(value, 'bool', nbits), value, '1' if value else '0'
        nbits = 1
    elif data_type == 'bin':  # the number of bits plays no role, the text does
        value = ''.join(rnd.choice('01') for _ in range(rnd.randint(0, 19)))
        returned, expected_return, bits = writer.write(value, 'bin', rnd.choice((0, 5, None, 'x'))), value, value
        nbits = len(value)
    else:  # whole bytes only: the number of bits is floored; short values are blank filled, long ones cut
        nbytes = rnd.randint(0, 5)
        nbits = nbytes * 8 + rnd.randint(0, 7)
        value = bytes(rnd.randint(33, 126) for _ in range(rnd.randint(0, 6)))
        stored = value[:nbytes].ljust(nbytes, b' ')
        returned = writer.write(value.decode('latin-1') if rnd.random() < .5 else value, 'bytes', nbits)
        expected_return, bits = stored, ''.join(u(c, 8) for c in stored)
    check(returned == expected_return and type(returned) is type(expected_return), 'write returns', data_type, returned)
    model += bits
    script.append((data_type, nbits, expected_return, len(bits)))
    check(writer.get_pos() == len(model), 'get_pos', data_type)
check(writer_bits(writer) == model, 'mixed writes')
raises(AttributeError, writer.write, 1, 'unit', 8)
raises(AttributeError, writer.write, 1, 'uint_or_none', 8)
raises(TypeError, writer.write, 1, None, 8)
raises(TypeError, writer.write, 1, b'uint', 8)
raises(TypeError, writer.write, 1, ['bool'], 8)
raises(TypeError, writer.write, b'a', 'bytes', None)
raises(TypeError, writer.write, 1, 'bool')
check(writer_bits(writer) == model, 'nothing written by the refusals')

pad = '0' * (-len(model) % 8)
reader = get_bit_reader(to_bytes(model + pad))
pos = 0
for data_type, nbits, expected, n in script:
    if data_type == 'bool':
        value = reader.read('bool', rnd.choice((1, 0, 99, None)))
    elif data_type == 'int' and expected == 0:
        value = reader.read('int', nbits)
        check(value == 0, 'read int zero')  # minus zero reads as zero
        expected = 0
    else:
        value = reader.read(data_type, nbits)
    check(value == expected and type(value) is type(expected), 'read', data_type, nbits, value, expected)
    pos += n
    check(reader.get_pos() == pos, 'get_pos after read', data_type)
check(pos == len(model), 'all read')
reader = get_bit_reader(b'\xff\x80\x7f')
check(reader.read('uint_or_none', 8) is None and reader.read('uint_or_none', 1) == 1, 'missing value')
check(reader.read('uint_or_none', 7) == 0 and reader.read('uint_or_none', 8) == 127, 'not missing value')
for data_type, nbits in (('uint', 1), ('uint', 8), ('uint_or_none', 3), ('int', 2), ('bool', 1), ('bin', 1), ('bytes', 8)):
    e = raises(BitReadError, reader.read, data_type, nbits)
    check(reader.get_pos() == 24, 'position kept by a failed read')
check(reader.read('bin', 0) == '' and reader.read('bytes', 7) == b'', 'reads of nothing')
raises(ValueError, reader.read, 'uint', 0)
raises(AttributeError, reader.read, 'unit', 8)
raises(TypeError, reader.read, None, 8)
raises(TypeError, reader.read, b'uint', 8)
raises(TypeError, reader.read, ['bool'], 8)
raises(TypeError, reader.read, 'bool')

# ---------------------------------------------------------------------------
# Part 2: whole messages
# ---------------------------------------------------------------------------
SEC2_CHOICES = (None, '', '1', '10101010', '101010101', '1' * 23)

decoder = Decoder()
encoder = Encoder()  # recomputes every length
honouring = Encoder(ignore_declared_length=False)

# --- A. encoder, lengths recomputed; every residue of the data section modulo 16 ----------
for ed in (2, 3, 4):
    for k in range(1, 17):
        for sec2 in SEC2_CHOICES:
            expected, lengths = ref_message(ed, k, sec2)
            # bogus declarations must be ignored
            bogus = [999, 1, 3, 2][:len(lengths)]
            for as_string in (False, True):
                data = json_message(ed, k, sec2, declared=bogus, total=12345)
                message = encoder.process(json.dumps(data) if as_string else data)
                check_message(message, expected, lengths, ed, k, sec2, ('A', ed, k, sec2, as_string))

# --- B. encoder honouring declared lengths: longer zero filled, shorter refused -----------
for ed in (2, 3, 4):
    for k in (1, 2, 3, 5, 8, 13, 16):
        for sec2 in (None, '1', '101010101'):
            base, natural = ref_message(ed, k, sec2)
            n = len(natural)
            idx3 = n - 2
            surpluses = [(0,) * n]
            for i in range(n):
                for extra in (1, 2, 3):
                    if i == idx3 and (ed <= 3 or extra != 1):
                        continue  # surplus octets of section 3 would be read back as descriptors
                    surpluses.append(tuple(extra if j == i else 0 for j in range(n)))
            surpluses.append(tuple(0 if j == idx3 else j + 1 for j in range(n)))
            for surplus in surpluses:
                full = list(surplus) if sec2 is not None else [surplus[0], 0] + list(surplus[1:])
                expected, lengths = ref_message(ed, k, sec2, full)
                check(lengths == [a + b for a, b in zip(natural, surplus)], 'B reference')
                for total in (0, len(expected)):
                    message = honouring.process(json_message(ed, k, sec2, declared=lengths, total=total))
                    check_message(message, expected, lengths, ed, k, sec2, ('B', ed, k, sec2, surplus, total))
                    # and the decoder consumes exactly the declared extents, whatever surrounds the message
                    for before, after in ((b'', b''), (b'\r\n', b'7777BUFR'), (b'BUF', b'\x00' * 9)):
                        decoded = decoder.process(before + expected + after)
                        check_message(decoded, expected, lengths, ed, k, sec2,
                                      ('C', ed, k, sec2, surplus, before, after))
                # a declared total that is not the number of bytes written
                for wrong in (len(expected) - 1, len(expected) + 1):
                    raises(PyBufrKitError, honouring.process,
                           json_message(ed, k, sec2, declared=lengths, total=wrong))
            # a section declared one octet shorter than its content, each section in turn
            for i in range(n):
                short = list(natural)
                short[i] -= 2 if ed <= 3 else 1
                raises(PyBufrKitError, honouring.process, json_message(ed, k, sec2, declared=short))
            # zero means "compute" also when honouring
            message = honouring.process(json_message(ed, k, sec2))
            check_message(message, base, natural, ed, k, sec2, ('B0', ed, k, sec2))

# --- D. what the decoder makes of sections that are too short or cut ----------------------
for ed in (2, 3, 4):
    for sec2 in (None, '10101010'):
        good, lengths = ref_message(ed, 3, sec2, (1, 1, 0, 1))
        offsets = [8]
        for n in lengths:
            offsets.append(offsets[-1] + n)
        for i, offset in enumerate(offsets[:-1]):
            if sec2 is not None and i == 1:
                continue  # a shorter section 2 just has fewer local bits
            bad = bytearray(good)
            bad[offset:offset + 3] = (3 if (sec2 is None and i >= 1) or i >= 2 else 4).to_bytes(3, 'big')
            raises(PyBufrKitError, decoder.process, bytes(bad))
        for cut in (4, 7, 8, 12, offsets[1] + 2, offsets[-1] - 1, len(good) - 4, len(good) - 1):
            raises(BitReadError, decoder.process, good[:cut])

# --- G. the sample files --------------------------------------------------------------------
n_files = 0
for path in sorted(glob.glob(os.path.join('tests', 'data', '*.bufr'))):
    if os.path.basename(path) == 'multi_invalid_messages.bufr':
        continue
    with open(path, 'rb') as ins:
        data = ins.read()
    start = data.find(b'BUFR')
    declared = int.from_bytes(data[start + 4:start + 7], 'big')
    message = decoder.process(data)
    check(message.serialized_bytes == data[start:start + declared], path, 'span')
    check(message.serialized_bytes.endswith(b'7777'), path, 'end')
    check(8 + sum(section_lengths(message)) + 4 == declared == message.length.value, path, 'sum of sections')
    has_sec2 = message.is_section2_presents.value
    check([s.get_metadata('index') for s in message.sections] == ([0, 1, 2, 3, 4, 5] if has_sec2 else [0, 1, 3, 4, 5]),
          path, 'sections')
    json_path = path[:-5] + '.json'
    if os.path.exists(json_path):
        with open(json_path) as ins:
            encoded = encoder.process(ins.read())
        raw = encoded.serialized_bytes
        check(raw.startswith(b'BUFR') and raw.endswith(b'7777'), json_path, 'framing')
        check(int.from_bytes(raw[4:7], 'big') == len(raw) == encoded.length.value, json_path, 'total length')
        check(8 + sum(section_lengths(encoded)) + 4 == len(raw), json_path, 'sum of sections')
        offset = 8
        for section in encoded.sections[1:-1]:
            check(int.from_bytes(raw[offset:offset + 3], 'big') == section.section_length.value, json_path, 'field')
            check(section.get_metadata(BITPOS_START) == offset * 8, json_path, 'start')
            if encoded.edition.value <= 3:
                check(section.section_length.value % 2 == 0, json_path, 'even')
            offset += section.section_length.value
        check(raw[offset:] == b'7777', json_path, 'end section')
        check(decoder.process(raw + b'BUFR').serialized_bytes == raw, json_path, 'round trip span')
    n_files += 1
check(n_files == 16, 'sample files', n_files)

print('demo 6 OK: {} checks'.format(N_CHECKS[0]))
