import os, sys; sys.path.insert(0, os.getcwd())
"""
Differential demonstration for refactor 8 (NestedTextRenderer: the node walk as generators).

The nested text of a message is compared with a reference written here that does not use the
NestedTextRenderer at all: it lays out, line by line, what the NestedJsonRenderer (not touched by the
refactor) returns, plus literal expected texts for hand-built messages. The text is then converted
back to the flat form and encoded.
"""
import glob
import shutil

import pybufrkit
assert os.path.dirname(os.path.abspath(pybufrkit.__file__)) == os.path.join(os.getcwd(), 'pybufrkit'), pybufrkit.__file__

from pybufrkit.constants import PARAMETER_TYPE_TEMPLATE_DATA
from pybufrkit.decoder import Decoder
from pybufrkit.encoder import Encoder
from pybufrkit.errors import PyBufrKitError
from pybufrkit.renderer import NestedTextRenderer, NestedJsonRenderer, FlatJsonRenderer
from pybufrkit.templatedata import (DelayedReplicationNode, FixedReplicationNode, SequenceNode, ValueDataNode,
                                    NoValueDataNode)
from pybufrkit.utils import nested_text_to_flat_json, nested_json_to_flat_json

DATA_DIR = os.path.join('tests', 'data')
BENCHMARK_DIR = os.path.join('tests', 'benchmark_data')
N_CHECKS = [0]


def check(cond, *what):
    N_CHECKS[0] += 1
    if not cond:
        print('FAILED:', *what)
        sys.exit(1)


# ---------------------------------------------------------------------------
# The reference: nested JSON laid out as text
# ---------------------------------------------------------------------------
INDENT = '    '
DOTS = '....'


def ref_value_lines(n, indent, is_attribute):
    lines = ['{}{}{} {} {!r}'.format(indent, '-> ' if is_attribute else '', n['id'], n['description'], n['value'])]
    for attr in n.get('attributes', ()):
        lines += ref_value_lines(attr, indent + INDENT, True)
    return lines


def ref_nodes_lines(nodes, indent):
    lines = []
    for n in nodes:
        if 'value' in n:
            lines += ref_value_lines(n, indent, False)
            continue
        lines.append(indent + n['description'])
        if 'members' not in n:
            continue  # operators without a value, elements whose data are not present
        if n['id'].startswith('3'):
            lines += ref_nodes_lines(n['members'], indent + INDENT)
        else:
            if 'factor' in n:
                lines += ref_value_lines(n['factor'], indent + DOTS, False)
            for ir, members in enumerate(n['members']):
                lines.append('{}# --- {} of {} replications ---'.format(indent + INDENT, ir + 1, len(n['members'])))
                lines += ref_nodes_lines(members, indent + INDENT)
    return lines


def ref_template_data_text(template_data):
    nested = NestedJsonRenderer().render(template_data)
    lines = []
    for i, subset in enumerate(nested):
        lines.append('###### subset {} of {} ######'.format(i + 1, len(nested)))
        lines += ref_nodes_lines(subset, '')
    return '\n'.join(lines)


def ref_message_text(message):
    lines = [str(message.table_group_key)]
    for section in message.sections:
        lines.append('<<<<<< section {} >>>>>>'.format(section.get_metadata('index')))
        for parameter in section:
            if parameter.type == PARAMETER_TYPE_TEMPLATE_DATA:
                # as a block of its own: zero subsets give one empty line
                lines.append(ref_template_data_text(parameter.value))
            else:
                lines.append('{} = {!r}'.format(parameter.name, parameter.value))
    return '\n'.join(lines)


def template_data_of(message):
    return message.template_data.value


# ---------------------------------------------------------------------------
# Messages built by hand
# ---------------------------------------------------------------------------
def message_json(descriptors, subsets, compressed=False):
    return [["BUFR", 0, 4],
            [22, 0, 1, 0, 0, False, "0000000", 2, 4, 0, 18, 0, 2016, 2, 18, 23, 0, 0],
            [0, "00000000", len(subsets), True, compressed, "000000", descriptors],
            [0, "00000000", subsets],
            ["7777"]]


def build(descriptors, subsets, compressed=False):
    return Encoder().process(message_json(descriptors, subsets, compressed), wire_template_data=False).serialized_bytes


HAND_BUILT = {
    # associated fields on plain elements inside / outside a delayed replication
    'assoc': ([204008, 31021, 12001, 101000, 31001, 12001, 204000, 12001],
              [[1, 3, 280.5, 2, 1, 270.0, 0, 271.0, 299.0]], False),
    # strings with quotes, spaces, 8-bit characters; 205YYY, 206YYY (descriptors without a name), 201YYY; flag table
    'strings': ([1015, 205008, 1015, 8042, 206008, 63250, 201130, 12001, 201000],
                [[b"it's \"q\" \xe9 x", b"ab 'c\" d", b"O'Neil", 5, 17, 250.0]], False),
    # zero-count replication holding a sequence and a fixed replication
    'zero': ([1001, 113000, 31001, 1002, 301011, 102002, 2001, 2002, 8042], [[5, 0]], False),
    # the same template with two repetitions: sequence inside replication, fixed inside delayed replication
    'nested': ([1001, 107000, 31001, 1002, 301011, 102002, 2001, 2002, 8042],
               [[5, 2, 7, 2016, 2, 18, 1, 2, 1, 2, 4, 8, 2017, 3, 19, 3, 0, 3, 0, 0]], False),
    # quality information on a replication factor (and on plain elements)
    'factorattr': ([12001, 101000, 31001, 12002, 222000, 101003, 31031, 101003, 33007],
                   [[280.0, 1, 281.0, 0, 0, 0, 0, 70, 80, 90]], False),
    # bitmap defined for reuse, first order statistics markers carrying their own attribute
    'bitmap': ([12001, 12002, 10004, 222000, 236000, 101003, 31031, 1031, 1032, 101002, 33007,
                224000, 237000, 1031, 1032, 8023, 101002, 224255],
               [[280.0, 281.0, 100000.0, 0, 0, 0, 1, 0, 7, 8, 70, 80, 0, 0, 7, 8, 4, 1.0, 2.0]], False),
    # 221YYY data not present
    'dnp': ([1001, 1002, 12001, 221002, 1002, 12001, 12002], [[1, 2, 280.0, 3, 290.0]], False),
    # missing values
    'missing': ([1001, 1015, 12001, 101002, 8042], [[None, None, None, None, 1]], False),
    # two subsets, compressed, strings with quotes
    'comp': ([1001, 1015, 20003, 103000, 31001, 12001, 1002, 8042],
             [[5, b"a'b", 3, 1, 280.0, 7, 4], [6, b'c"d', 3, 1, 281.0, 7, 4]], True),
    # three subsets, not compressed, different replication counts (0, 1, 3)
    'counts': ([1001, 101000, 31001, 12001], [[1, 0], [2, 1, 270.0], [3, 3, 271.0, 272.0, 273.0]], False),
}

GOLDEN = {
    'assoc': '''###### subset 1 of 1 ######
204008
031021 ASSOCIATED FIELD SIGNIFICANCE 1
012001 TEMPERATURE/AIR TEMPERATURE 280.5
    -> A12001 AssociatedField 3
        -> 031021 ASSOCIATED FIELD SIGNIFICANCE 1
101000
....031001 DELAYED DESCRIPTOR REPLICATION FACTOR 2
    # --- 1 of 2 replications ---
    012001 TEMPERATURE/AIR TEMPERATURE 270.0
        -> A12001 AssociatedField 1
            -> 031021 ASSOCIATED FIELD SIGNIFICANCE 1
    # --- 2 of 2 replications ---
    012001 TEMPERATURE/AIR TEMPERATURE 271.0
        -> A12001 AssociatedField 0
            -> 031021 ASSOCIATED FIELD SIGNIFICANCE 1
204000
012001 TEMPERATURE/AIR TEMPERATURE 299.0''',
    'factorattr': '''###### subset 1 of 1 ######
012001 TEMPERATURE/AIR TEMPERATURE 280.0
    -> 033007 PER CENT CONFIDENCE 70
101000
....031001 DELAYED DESCRIPTOR REPLICATION FACTOR 1
....    -> 033007 PER CENT CONFIDENCE 80
    # --- 1 of 1 replications ---
    012002 AIR TEMPERATURE 281.0
        -> 033007 PER CENT CONFIDENCE 90
222000 ValueData 0
101003
    # --- 1 of 3 replications ---
    031031 DATA PRESENT INDICATOR 0
    # --- 2 of 3 replications ---
    031031 DATA PRESENT INDICATOR 0
    # --- 3 of 3 replications ---
    031031 DATA PRESENT INDICATOR 0
101003
    # --- 1 of 3 replications ---
    033007 PER CENT CONFIDENCE 70
    # --- 2 of 3 replications ---
    033007 PER CENT CONFIDENCE 80
    # --- 3 of 3 replications ---
    033007 PER CENT CONFIDENCE 90''',
    'strings': '''###### subset 1 of 1 ######
001015 STATION OR SITE NAME b'it\\'s "q" \\xe9 x        '
205008 ValueData b'ab \\'c" d'
001015 STATION OR SITE NAME b"O'Neil              "
008042 EXTENDED VERTICAL SOUNDING SIGNIFICANCE 5
206008
S63250 ValueData 17
201130
012001 TEMPERATURE/AIR TEMPERATURE 250.0
201000''',
    'zero': '''###### subset 1 of 1 ######
001001 WMO BLOCK NUMBER 5
113000
....031001 DELAYED DESCRIPTOR REPLICATION FACTOR 0''',
    'counts': '''###### subset 1 of 3 ######
001001 WMO BLOCK NUMBER 1
101000
....031001 DELAYED DESCRIPTOR REPLICATION FACTOR 0
###### subset 2 of 3 ######
001001 WMO BLOCK NUMBER 2
101000
....031001 DELAYED DESCRIPTOR REPLICATION FACTOR 1
    # --- 1 of 1 replications ---
    012001 TEMPERATURE/AIR TEMPERATURE 270.0
###### subset 3 of 3 ######
001001 WMO BLOCK NUMBER 3
101000
....031001 DELAYED DESCRIPTOR REPLICATION FACTOR 3
    # --- 1 of 3 replications ---
    012001 TEMPERATURE/AIR TEMPERATURE 271.0
    # --- 2 of 3 replications ---
    012001 TEMPERATURE/AIR TEMPERATURE 272.0
    # --- 3 of 3 replications ---
    012001 TEMPERATURE/AIR TEMPERATURE 273.0''',
}

renderer = NestedTextRenderer()


def check_message(label, content, convert_back=True):
    message = Decoder().process(content)  # wired
    template_data = template_data_of(message)
    text = renderer.render(message)
    check(isinstance(text, str), 'a string', label)
    check(text == ref_message_text(message), 'message text differs from the reference', label)
    # the template data alone, and again (nothing is used up by rendering)
    td_text = renderer.render(template_data)
    check(td_text == ref_template_data_text(template_data), 'template data text differs', label)
    check(renderer.render(template_data) == td_text and NestedTextRenderer().render(message) == text, 'again', label)
    check(td_text in text, 'template data text is part of the message text', label)
    flat = FlatJsonRenderer().render(message)
    if convert_back:
        back = nested_text_to_flat_json(text)
        check(back == flat, 'does not convert back', label)
        check(back == nested_json_to_flat_json(NestedJsonRenderer().render(message)),
              'nested text and nested JSON disagree', label)
    return message, text, td_text, flat


# ---------------------------------------------------------------------------
# 1. hand-built messages: literal expectations, reference, conversion back, encoding
# ---------------------------------------------------------------------------
for name, (descriptors, subsets, compressed) in HAND_BUILT.items():
    content = build(descriptors, subsets, compressed)
    # 221: the element without data is shown by its name only, which the converter (unchanged) does not read
    message, text, td_text, flat = check_message(name, content, convert_back=(name != 'dnp'))
    if name in GOLDEN:
        check(td_text == GOLDEN[name], 'literal expectation', name, '\n' + td_text)
    check(text.split('\n')[0].startswith('TableGroupKey('), 'first line', name)
    check(text.endswith("<<<<<< section 5 >>>>>>\nstop_signature = b'7777'"), 'last lines', name)
    if name != 'dnp':
        encoded = Encoder().process(nested_text_to_flat_json(text), wire_template_data=False).serialized_bytes
        check(encoded == content, 'encoding from the nested text gives other bytes', name)

# ---------------------------------------------------------------------------
# 2. sample files
# ---------------------------------------------------------------------------
sample_files = sorted(glob.glob(os.path.join(DATA_DIR, '*.bufr')))
sample_files = [f for f in sample_files if os.path.basename(f) not in ('multi_invalid_messages.bufr', 'prepbufr.bufr')]
benchmark_files = sorted(glob.glob(os.path.join(BENCHMARK_DIR, '*.bufr')))[::5]
n_files = 0
for path in sample_files + benchmark_files:
    with open(path, 'rb') as ins:
        content = ins.read()
    try:
        Decoder().process(content, info_only=True)
    except PyBufrKitError:
        continue
    check_message(path, content)
    n_files += 1
check(n_files >= 35, 'number of files', n_files)

# ---------------------------------------------------------------------------
# 3. the parts of the walk, called one by one (they give the lines, in order, as strings)
# ---------------------------------------------------------------------------
for name in ('assoc', 'factorattr', 'bitmap', 'nested', 'strings', 'dnp', 'comp', 'counts'):
    descriptors, subsets, compressed = HAND_BUILT[name]
    message = Decoder().process(build(descriptors, subsets, compressed))
    template_data = template_data_of(message)
    nested = NestedJsonRenderer().render(template_data)
    for idx_subset in range(template_data.n_subsets):
        nodes = template_data.decoded_nodes_all_subsets[idx_subset]
        ds = template_data.decoded_descriptors_all_subsets[idx_subset]
        vs = template_data.decoded_values_all_subsets[idx_subset]
        for indent in ('', '  ', '\t'):
            lines = list(renderer._render_template_data_nodes(nodes, ds, vs, indent))
            check(lines == ref_nodes_lines(nested[idx_subset], indent), '_render_template_data_nodes', name, indent)
            check(all(type(line) is str for line in lines), 'lines are strings', name)
            # an empty list of nodes gives no line
            check(list(renderer._render_template_data_nodes([], ds, vs, indent)) == [], 'no nodes', name)
            for node, n in zip(nodes, nested[idx_subset]):
                one = list(renderer._render_template_data_nodes([node], ds, vs, indent))
                check(one == ref_nodes_lines([n], indent), 'one node', name, node)
                if isinstance(node, ValueDataNode):
                    for is_attribute in (False, True):
                        got = list(renderer._render_template_data_value_node(node, ds, vs, indent, is_attribute))
                        check(got == ref_value_lines(n, indent, is_attribute), 'value node', name, node, is_attribute)
                    got = list(renderer._render_template_data_value_node(node, ds, vs, indent))
                    check(got == ref_value_lines(n, indent, False), 'value node, default', name, node)
                    if hasattr(node, 'attributes'):
                        got = list(renderer._render_template_data_attributed_node(node, ds, vs, indent))
                        expected = []
                        for attr in n['attributes']:
                            expected += ref_value_lines(attr, indent, True)
                        check(got == expected and len(got) >= 1, 'attributes', name, node)
                elif isinstance(node, DelayedReplicationNode):
                    got = list(renderer._render_template_data_value_node(node.factor, ds, vs, indent + DOTS))
                    check(got == ref_value_lines(n['factor'], indent + DOTS, False), 'factor', name)
                    check(one[1: 1 + len(got)] == got, 'factor lines follow the replication line', name)

# ---------------------------------------------------------------------------
# 4. data that do not fit the nodes: same outcome, same exceptions
# ---------------------------------------------------------------------------
def fresh(name):
    descriptors, subsets, compressed = HAND_BUILT[name]
    return Decoder().process(build(descriptors, subsets, compressed))


def outcome(func):
    try:
        return 'ok', func()
    except Exception as e:
        return type(e), str(e)


# a replication factor that is missing: range(None)
message = fresh('assoc')
template_data_of(message).decoded_values_all_subsets[0][3] = None
got = outcome(lambda: renderer.render(message))
check(got[0] is TypeError and 'NoneType' in got[1], 'missing factor', got)
check(outcome(lambda: renderer.render(template_data_of(message)))[0] is TypeError, 'missing factor, template data')
check(outcome(lambda: NestedJsonRenderer().render(message))[0] is TypeError, 'missing factor, nested JSON likewise')

# a factor larger than the members there are: the extra repetitions are shown empty (as in nested JSON)
message = fresh('counts')
template_data_of(message).decoded_values_all_subsets[1][1] = 3
td_text = renderer.render(template_data_of(message))
check(td_text == ref_template_data_text(template_data_of(message)), 'larger factor')
check('    # --- 3 of 3 replications ---\n###### subset 3 of 3' in td_text, 'larger factor, literal')
# a smaller one: the members beyond are not shown
message = fresh('counts')
template_data_of(message).decoded_values_all_subsets[2][1] = 1
td_text = renderer.render(template_data_of(message))
check(td_text == ref_template_data_text(template_data_of(message)), 'smaller factor')
check(td_text.endswith('FACTOR 1\n    # --- 1 of 1 replications ---\n    012001 TEMPERATURE/AIR TEMPERATURE 271.0'),
      'smaller factor, literal')

# values shorter than the nodes ask for: IndexError, from the message and from the template data
message = fresh('nested')
del template_data_of(message).decoded_values_all_subsets[0][10:]
check(outcome(lambda: renderer.render(message))[0] is IndexError, 'short values')
check(outcome(lambda: renderer.render(template_data_of(message)))[0] is IndexError, 'short values, template data')
nodes = template_data_of(message).decoded_nodes_all_subsets[0]
ds = template_data_of(message).decoded_descriptors_all_subsets[0]
vs = template_data_of(message).decoded_values_all_subsets[0]
check(outcome(lambda: list(renderer._render_template_data_nodes(nodes, ds, vs, '')))[0] is IndexError,
      'short values, nodes')
check(outcome(lambda: list(renderer._render_template_data_nodes(nodes[:1], ds, vs, ''))) ==
      ('ok', ['001001 WMO BLOCK NUMBER 5']), 'the first node alone is fine')

# a message that was not wired has no nodes to show
content = build(*HAND_BUILT['assoc'])
message = Decoder().process(content, wire_template_data=False)
got = outcome(lambda: renderer.render(message))
check(got[0] == 'ok' and "reserved_bits = '00000000'\n###### subset 1 of 1 ######\n<<<<<< section 5 >>>>>>" in got[1],
      'not wired: the subset line only', got)
check(renderer.render(template_data_of(message)) == '###### subset 1 of 1 ######', 'not wired, template data')
message.wire()
check(renderer.render(message) == ref_message_text(message), 'wired afterwards')

# a value whose repr fails: the exception comes out unchanged
class NoRepr(object):
    def __repr__(self):
        raise ZeroDivisionError('no repr')


message = fresh('assoc')
template_data_of(message).decoded_values_all_subsets[0][-1] = NoRepr()
check(outcome(lambda: renderer.render(message)) == (ZeroDivisionError, 'no repr'), 'repr that fails')

# no subsets at all: an empty block
message = fresh('assoc')
template_data = template_data_of(message)
template_data.n_subsets = 0
check(renderer.render(template_data) == '', 'no subsets')
check('reserved_bits = \'00000000\'\n\n<<<<<< section 5' in renderer.render(message), 'no subsets, in the message')

# other objects
check(outcome(lambda: renderer.render(42))[0] is PyBufrKitError, 'unknown object')
check(outcome(lambda: renderer.render(template_data.decoded_descriptors_all_subsets[0][0]))[0] is NotImplementedError,
      'descriptor')

print('refactor 8 demo: {} checks passed ({} files)'.format(N_CHECKS[0], n_files))
