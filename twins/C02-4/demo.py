import os, sys
sys.path.insert(0, os.getcwd())

import decimal
import logging

logging.disable(logging.CRITICAL)

from pybufrkit.encoder import Encoder

# ---------------------------------------------------------------------------
# An independent FM-94 writer. It knows nothing of pybufrkit: bits are kept
# as a python string of '0'/'1' and the widths/scales/reference values of the
# elements are given by hand by each test case (copied from WMO table B v25).
# ---------------------------------------------------------------------------
NUM = 'n'   # (NUM, nbits, scale, refval)
CODE = 'c'  # (CODE, nbits)
STR = 's'   # (STR, nbytes)


class RefBits(object):
    def __init__(self):
        self.s = ''

    def uint(self, v, n):
        assert isinstance(v, int) and 0 <= v < 2 ** n, (v, n)
        if n:
            self.s += format(v, '0{}b'.format(n))

    def raw(self, bs):
        for b in bytearray(bs):
            self.uint(b, 8)

    def pad_to(self, nbits_multiple):
        while len(self.s) % nbits_multiple:
            self.s += '0'

    def tobytes(self):
        assert len(self.s) % 8 == 0
        return bytes(bytearray(int(self.s[i:i + 8], 2) for i in range(0, len(self.s), 8)))


def ones(n):
    return 2 ** n - 1


def raw_of(spec, v):
    """Raw unsigned integer of a numeric / code element (None = missing)."""
    if v is None:
        return None
    if spec[0] == CODE:
        return int(v)
    _, nbits, scale, ref = spec
    d = decimal.Decimal(repr(v)).scaleb(scale).quantize(decimal.Decimal(1), rounding=decimal.ROUND_HALF_EVEN)
    return int(d) - ref


def str_field(v, nbytes):
    if v is None:
        return b'\xff' * nbytes
    b = v.encode('latin-1')[:nbytes]
    return b + b' ' * (nbytes - len(b))


def data_uncompressed(subsets):
    """subsets: list (one per subset) of lists of (spec, value)"""
    out = RefBits()
    for fields in subsets:
        for spec, v in fields:
            if spec[0] == STR:
                out.raw(str_field(v, spec[1]))
            else:
                r = raw_of(spec, v)
                out.uint(ones(spec[1]) if r is None else r, spec[1])
    return out.s


def diff_width(maxdiff):
    """Smallest n such that maxdiff + 1 is strictly below the all-ones of n bits."""
    n = 0
    while not (2 ** n - 1 > maxdiff + 1):
        n += 1
    return n


def data_compressed(columns):
    """columns: list of (spec, [value of subset 0, value of subset 1, ...])"""
    out = RefBits()
    for spec, values in columns:
        if spec[0] == STR:
            nbytes = spec[1]
            fields = [str_field(v, nbytes) for v in values]
            if all(v == values[0] for v in values):
                out.raw(fields[0])
                out.uint(0, 6)
            else:
                out.raw(b'\x00' * nbytes)
                out.uint(nbytes, 6)
                for f in fields:
                    out.raw(f)
            continue
        nbits = spec[1]
        raws = [raw_of(spec, v) for v in values]
        present = [r for r in raws if r is not None]
        if all(v == values[0] for v in values):
            out.uint(raws[0] if present else ones(nbits), nbits)
            out.uint(0, 6)
        else:
            mn, mx = min(present), max(present)
            w = diff_width(mx - mn)
            out.uint(mn, nbits)
            out.uint(w, 6)
            for r in raws:
                out.uint(ones(w) if r is None else r - mn, w)
    return out.s


def ref_message(edition, descriptors, n_subsets, compressed, data_bits):
    even = edition <= 3
    # section 1
    s1 = RefBits()
    if edition == 4:
        s1.uint(22, 24); s1.uint(0, 8); s1.uint(98, 16); s1.uint(0, 16); s1.uint(0, 8)
        s1.uint(0, 8)  # no section 2
        s1.uint(2, 8); s1.uint(4, 8); s1.uint(0, 8); s1.uint(25, 8); s1.uint(0, 8)
        s1.uint(2020, 16); s1.uint(1, 8); s1.uint(2, 8); s1.uint(3, 8); s1.uint(4, 8); s1.uint(5, 8)
    else:
        s1.uint(18, 24); s1.uint(0, 8); s1.uint(0, 8); s1.uint(98, 8); s1.uint(0, 8)
        s1.uint(0, 8)  # no section 2
        s1.uint(2, 8); s1.uint(0, 8); s1.uint(25, 8); s1.uint(0, 8)
        s1.uint(20, 8); s1.uint(1, 8); s1.uint(2, 8); s1.uint(3, 8); s1.uint(4, 8); s1.uint(0, 8)
    # section 3
    n3 = 7 + 2 * len(descriptors)
    if even and n3 % 2:
        n3 += 1
    s3 = RefBits()
    s3.uint(n3, 24); s3.uint(0, 8); s3.uint(n_subsets, 16)
    s3.uint(0x80 | (0x40 if compressed else 0), 8)
    for d in descriptors:
        f, x, y = d // 100000, d // 1000 % 100, d % 1000
        s3.uint(f, 2); s3.uint(x, 6); s3.uint(y, 8)
    s3.pad_to(16 if even else 8)
    assert len(s3.s) == 8 * n3
    # section 4
    nbits4 = 32 + len(data_bits)
    n4 = (nbits4 + 7) // 8
    if even and n4 % 2:
        n4 += 1
    s4 = RefBits()
    s4.uint(n4, 24); s4.uint(0, 8)
    s4.s += data_bits
    s4.s += '0' * (8 * n4 - len(s4.s))
    body = s1.tobytes() + s3.tobytes() + s4.tobytes() + b'7777'
    s0 = RefBits()
    s0.raw(b'BUFR'); s0.uint(8 + len(body), 24); s0.uint(edition, 8)
    return s0.tobytes() + body


def make_json(edition, descriptors, compressed, value_lists):
    if edition == 4:
        s1 = [0, 0, 98, 0, 0, False, '0000000', 2, 4, 0, 25, 0, 2020, 1, 2, 3, 4, 5]
    else:
        s1 = [0, 0, 0, 98, 0, False, '0000000', 2, 0, 25, 0, 20, 1, 2, 3, 4, 0]
    return [
        ['BUFR', 0, edition],
        s1,
        [0, '00000000', len(value_lists), True, compressed, '000000', list(descriptors)],
        [0, '00000000', [list(vs) for vs in value_lists]],
        ['7777'],
    ]


def encode(edition, descriptors, compressed, value_lists, **kw):
    # deep-copied input: the encoder must be free to consume its argument
    import copy
    js = copy.deepcopy(make_json(edition, descriptors, compressed, value_lists))
    return Encoder(**kw).process(js).serialized_bytes


def check_uncompressed(name, edition, descriptors, subsets):
    expected = ref_message(edition, descriptors, len(subsets), False, data_uncompressed(subsets))
    value_lists = [[v for _, v in fields] for fields in subsets]
    for kw in ({}, {'compiled_template_cache_max': 10}):
        got = encode(edition, descriptors, False, value_lists, **kw)
        assert got == expected, '{} {}: {!r} != {!r}'.format(name, kw, got, expected)
    return expected


def check_compressed(name, edition, descriptors, columns):
    n_subsets = len(columns[0][1])
    expected = ref_message(edition, descriptors, n_subsets, True, data_compressed(columns))
    value_lists = [[values[i] for _, values in columns] for i in range(n_subsets)]
    for kw in ({}, {'compiled_template_cache_max': 10}):
        got = encode(edition, descriptors, True, value_lists, **kw)
        assert got == expected, '{} {}: {!r} != {!r}'.format(name, kw, got, expected)
    return expected


def expect_raises(name, exc_types, func, *args, **kw):
    try:
        func(*args, **kw)
    except exc_types as e:
        return e
    except BaseException as e:
        raise AssertionError('{}: expected {} but got {!r}'.format(name, exc_types, e))
    raise AssertionError('{}: expected {} but nothing was raised'.format(name, exc_types))


# Elements used by the cases (WMO table B version 25)
E_001001 = (NUM, 7, 0, 0)           # WMO block number
E_001002 = (NUM, 10, 0, 0)          # WMO station number
E_001015 = (STR, 20)                # station name
E_001008 = (STR, 8)                 # aircraft registration
E_012001 = (NUM, 12, 1, 0)          # temperature, scale 1
E_012101 = (NUM, 16, 2, 0)          # temperature, scale 2
E_005001 = (NUM, 25, 5, -9000000)   # latitude high accuracy
E_005002 = (NUM, 15, 2, -9000)      # latitude coarse
E_010004 = (NUM, 14, -1, 0)         # pressure, scale -1
E_020003 = (CODE, 9)                # present weather
E_008042 = (CODE, 18)               # flag table
E_002001 = (CODE, 2)                # type of station
E_031001 = (NUM, 8, 0, 0)           # delayed replication factor

# sha256 of Encoder().process(<tests/data/NAME.json>).serialized_bytes on the unmodified tree
GOLDEN = {
    '207003': '5ca135c4feb83a98a10e1916ad4e9458bfcffc189269eb4f9682a1401edb9bb5',
    'ISMD01_OKPR': 'fcf686e370b355b6da02c5a1138fb0e6bda396fd7f30a17501ce9ee2fbaeebb1',
    'IUSK73_AMMC_182300': 'b310b43d19a21231a91a4f91e0058626a6a6c8f61ed377f4c2fe26d8d19d7c67',
    'amv2_87': 'fa23bfbdedb58cb9697cb2b3de4322a969e6a50a2903a4e7a449f8a1fdd0b13a',
    'asr3_190': '8e182fea106097b716515b3ae9d679df0c1b7968c45b624f291cd92fd0adcd0c',
    'b002_95': '16a2909efaf7d307e25c80e3547c70410bab4c988afa477000d44ce1ac3da03c',
    'b005_89': 'ee42e73b632dbdd00539686c3f4d83c0299cde734c906ad80c96a6e04cd3000d',
    'g2nd_208': 'a30981fcb19b5b238853d0b25cbece4866bc9eefcf83f2b921a825f9a369d487',
    'jaso_214': 'e4011e8414fda39eae62e7dc2514e96035e298ccd7655ecf6f98b587e3194b27',
    'mpco_217': 'c192862b5ab5b1050cceae45d81c8756465fa8618e61f1c8965e60426a325873',
    'profiler_european': '25d982b024a8a3105a81dca743507677da4dc612f008a67605fed8199ddff97f',
    'rado_250': '59439d1ac82290e7636dbcff1312cfcea3f26027978220e0f8a55a8b89274232',
    'uegabe': '9b5f012a9b22496125859baf778b1dafa4fd17ec40d673d5d8280c041b94086f',
}
# For these two the encoder reproduces the original real-world file byte for byte
SAME_AS_BUFR_FILE = ('IUSK73_AMMC_182300', 'rado_250')


def check_test_data_files(names=None, **kw):
    import hashlib
    for name in sorted(names or GOLDEN):
        with open(os.path.join('tests', 'data', name + '.json')) as f:
            js = f.read()
        out = Encoder(**kw).process(js).serialized_bytes
        assert hashlib.sha256(out).hexdigest() == GOLDEN[name], name
        if name in SAME_AS_BUFR_FILE:
            with open(os.path.join('tests', 'data', name + '.bufr'), 'rb') as f:
                assert out == f.read(), name

# ---------------------------------------------------------------------------
# Refactor 4: BitStringBitWriter.write_bytes and Encoder.process_string_compressed
# ---------------------------------------------------------------------------
import copy
import bitstring
from pybufrkit.bitops import get_bit_writer, BitStringBitWriter
from pybufrkit.coder import CoderState


# ---- write_bytes: result, bits appended, position ----------------------------------------
def wb(value, *args):
    w = get_bit_writer()
    w.write_uint(5, 3)               # not byte aligned on purpose
    ret = w.write_bytes(value, *args)
    bits = w.bit_stream.bin
    assert bits[:3] == '101'
    assert len(bits[3:]) % 8 == 0 and w.get_pos() == len(bits)
    body = bytes(bytearray(int(bits[3 + i:3 + i + 8], 2) for i in range(0, len(bits) - 3, 8)))
    assert body == bytes(ret), (body, ret)
    return ret


for value in ('', 'A', 'ABC', 'ABCDEFGH', 'ABCDEFGHI', ' x ', 'caf\xe9', '\xff\xff', '\x00\x00\x00', 'a\nb'):
    for nbytes in (0, 1, 2, 3, 8, 9, 20, 63):
        expected = value.encode('latin-1')[:nbytes]
        expected += b' ' * (nbytes - len(expected))
        for given in (value, value.encode('latin-1')):
            ret = wb(given, nbytes)
            assert type(ret) is bytes and ret == expected and len(ret) == nbytes, (given, nbytes, ret)
    # without a width, or with None: as it is
    assert wb(value) == value.encode('latin-1')
    assert wb(value, None) == value.encode('latin-1')
    assert wb(value.encode('latin-1')) == value.encode('latin-1')
assert wb('AB', 4) == b'AB  ' and wb('ABCDE', 4) == b'ABCD' and wb('ABCD', 4) == b'ABCD'
assert wb(b'\xff' * 3, 3) == b'\xff\xff\xff'
# keyword form, and through the generic entry point (width in bits)
w = get_bit_writer()
assert w.write_bytes(value='AB', nbytes=3) == b'AB ' and w.write_bytes(nbytes=None, value=b'C') == b'C'
assert w.write('BUFR', 'bytes', 32) == b'BUFR' and w.write('7', 'bytes', 32) == b'7   '
assert w.to_bytes() == b'AB CBUFR7   '
# the very same object comes back when nothing has to be done
b = b'ABCD'
assert wb(b, 4) is b and wb(b) is b and wb(b, None) is b
# a negative width cuts from the end (python slice), like before
assert wb('ABCD', -1) == b'ABC' and wb('', -1) == b''
# a bytearray is padded in place (augmented assignment) and returned itself; when cut it is a new one
ba = bytearray(b'AB')
assert wb(ba, 4) is ba and ba == bytearray(b'AB  ')
ba = bytearray(b'ABCDEF')
ret = wb(ba, 4)
assert ret == bytearray(b'ABCD') and ret is not ba and ba == bytearray(b'ABCDEF')
ba = bytearray(b'AB')
assert wb(ba) is ba and ba == bytearray(b'AB')

# ---- write_bytes: errors, nothing is written ----------------------------------------------
def wb_fails(exc, value, *args):
    w = get_bit_writer()
    expect_raises('write_bytes{!r}'.format((value,) + args), exc, w.write_bytes, value, *args)
    assert w.get_pos() == 0


wb_fails(UnicodeEncodeError, 'Ā', 4)
wb_fails(UnicodeEncodeError, 'abc€')
for args in ((), (None,), (4,), (0,)):
    wb_fails(TypeError, 5, *args)        # no len()
    wb_fails(TypeError, None, *args)
    wb_fails(TypeError, 1.5, *args)
wb_fails(TypeError, 'AB', '4')           # int > str
wb_fails(TypeError, 'ABCD', 2.0)         # slice with a float
wb_fails(TypeError, 'AB', 4.0)           # bytes * float
assert wb('AB', 2.0) == b'AB'            # equal length: the width is not used any further
# a list of ints is taken by bitstring too; it is extended in place like a bytearray
lst = [65, 66]
w = get_bit_writer()
assert w.write_bytes(lst, 4) is lst and lst == [65, 66, 32, 32] and w.to_bytes() == b'AB  '
wb_fails(TypeError, memoryview(b'AB'), 4)

# ---- whole messages --------------------------------------------------------------------------
check_uncompressed('strings uncompressed', 4, [1015, 1008, 1001],
    [[(E_001015, 'STATION'), (E_001008, 'ABCDEFGH'), (E_001001, 1)],
     [(E_001015, None), (E_001008, None), (E_001001, None)],
     [(E_001015, ''), (E_001008, 'TOO LONG FOR IT'), (E_001001, 2)],
     [(E_001015, 'caf\xe9 \xff'), (E_001008, '  x'), (E_001001, 3)]])
check_uncompressed('strings ed3', 3, [1008], [[(E_001008, 'AB')], [(E_001008, None)]])
check_compressed('strings compressed', 4, [1008, 1008, 1008, 1008, 1015, 1001],
    [(E_001008, ['SAME', 'SAME', 'SAME']),          # equal: the string, width 0
     (E_001008, [None, None, None]),                # all missing: all ones, width 0
     (E_001008, ['SAME', None, 'SAME']),            # missing next to equal ones
     (E_001008, ['A', 'TOO LONG FOR IT', '']),
     (E_001015, ['caf\xe9', 'x' * 20, None]),
     (E_001001, [1, 2, 3])])
check_compressed('one subset', 4, [1008, 1015], [(E_001008, ['ONE']), (E_001015, [None])])
check_compressed('ed3 compressed', 3, [1008, 1001], [(E_001008, ['AB', 'AC']), (E_001001, [None, 1])])
# 205 YYY: a string of YYY bytes inserted; 208 YYY: all strings are YYY bytes wide
check_compressed('205', 4, [205005, 1001, 205003],
    [((STR, 5), ['HELLO', 'HI', None]), (E_001001, [1, 1, 1]), ((STR, 3), ['abc', 'abc', 'abc'])])
check_uncompressed('205', 4, [205005, 1001], [[((STR, 5), 'HELLO WORLD'), (E_001001, 1)], [((STR, 5), None), (E_001001, None)]])
check_compressed('208', 4, [208004, 1015, 1008, 208000, 1008],
    [((STR, 4), ['ABCDEF', 'AB', None]), ((STR, 4), [None, None, None]), (E_001008, ['ABCDEFGHI', 'ABCDEFGH', 'ABCDEFGH'])])
check_uncompressed('208', 4, [208004, 1015, 208000, 1008],
    [[((STR, 4), 'ABCDEF'), (E_001008, 'ABCDEFGHI')], [((STR, 4), None), (E_001008, '')]])
# strings that only differ in what is cut off, or in the padding, are still different columns
check_compressed('differ beyond the width', 4, [1008], [(E_001008, ['ABCDEFGH1', 'ABCDEFGH2'])])
check_compressed('differ in padding', 4, [1008], [(E_001008, ['AB', 'AB  '])])

# ---- the input is not modified ------------------------------------------------------------------
for compressed in (False, True):
    js = make_json(4, [1008, 1015], compressed, [['AB', None], [None, None], ['ABCDEFGHIJ', None]])
    before = copy.deepcopy(js[3][2])
    msg = Encoder().process(js)
    assert js[3][2] == before
    assert msg.template_data.value.decoded_values_all_subsets == before

# ---- process_string_compressed, direct calls ------------------------------------------------
D = object()


class RecordingWriter(object):
    def __init__(self):
        self.calls = []

    def write_bytes(self, value, nbytes):
        self.calls.append(('bytes', value, nbytes))

    def write_uint(self, value, nbits):
        self.calls.append(('uint', value, nbits))


def direct(values, nbytes):
    rows = [[v] for v in values]
    state = CoderState(True, len(values), rows)
    w = RecordingWriter()
    assert Encoder().process_string_compressed(state, w, D, nbytes) is None
    assert state.idx_value == 1 and state.decoded_descriptors == [D]
    assert rows == [[v] for v in values]
    return w.calls


assert direct([None], 3) == [('bytes', '\xff\xff\xff', 3), ('uint', 0, 6)]
assert direct([None, None], 3) == [('bytes', '\xff\xff\xff', 3), ('uint', 0, 6)]
assert direct(['AB'], 3) == [('bytes', 'AB', 3), ('uint', 0, 6)]
assert direct(['AB', 'AB'], 3) == [('bytes', 'AB', 3), ('uint', 0, 6)]
assert direct(['AB', None], 3) == [('bytes', '\0\0\0', 3), ('uint', 3, 6), ('bytes', 'AB', 3), ('bytes', '\xff\xff\xff', 3)]
assert direct([None, 'AB', None], 2) == [('bytes', '\0\0', 2), ('uint', 2, 6), ('bytes', '\xff\xff', 2),
                                          ('bytes', 'AB', 2), ('bytes', '\xff\xff', 2)]
assert direct(['AB', 'CDEFG'], 3) == [('bytes', '\0\0\0', 3), ('uint', 3, 6), ('bytes', 'AB', 3), ('bytes', 'CDEFG', 3)]
# width zero: nothing but the (empty) minimum and the width
assert direct(['AB', 'C'], 0) == [('bytes', '', 0), ('uint', 0, 6)]
assert direct([None, None], 0) == [('bytes', '', 0), ('uint', 0, 6)]
# garbage is handed to the writer as it is
assert direct([5, 5], 2) == [('bytes', 5, 2), ('uint', 0, 6)]
assert direct([5, 'A'], 2) == [('bytes', '\0\0', 2), ('uint', 2, 6), ('bytes', 5, 2), ('bytes', 'A', 2)]

# ---- errors ---------------------------------------------------------------------------------
for compressed in (False, True):
    expect_raises('number for a string', TypeError, encode, 4, [1008], compressed, [[5], [5]])
    expect_raises('not latin-1', UnicodeEncodeError, encode, 4, [1008], compressed, [['Ā'], ['Ā']])
    expect_raises('too few values', IndexError, encode, 4, [1008, 1008], compressed, [['A'], ['A']])
expect_raises('number next to a string', TypeError, encode, 4, [1008], True, [['A'], [5]])
# a width that does not fit the 6 bits of the width field: fails only when the strings differ
check_compressed('64 bytes, equal', 4, [205064], [((STR, 64), ['x' * 64, 'x' * 64])])
check_compressed('63 bytes, different', 4, [205063], [((STR, 63), ['x', None])])
expect_raises('64 bytes, different', bitstring.CreationError, encode, 4, [205064], True, [['x'], ['y']])
# the real writer: what has been written when the second subset fails
w = get_bit_writer()
st = CoderState(True, 3, [['AB'], [5], [None]])
expect_raises('int in the column', TypeError, Encoder().process_string_compressed, st, w, D, 2)
assert w.get_pos() == 16 + 6 + 16 and w.bit_stream.bin == '0' * 16 + '000010' + '0100000101000010'
expect_raises('float width', TypeError, Encoder().process_string_compressed,
              CoderState(True, 2, [['A'], ['B']]), RecordingWriter(), D, 2.0)
expect_raises('float width', TypeError, Encoder().process_string_compressed,
              CoderState(True, 2, [[None], [None]]), RecordingWriter(), D, 2.0)
assert Encoder().process_string_compressed(CoderState(True, 2, [['A'], ['A']]), RecordingWriter(), D, 2.0) is None

# ---- the files of the test suite -------------------------------------------------------------
check_test_data_files()
check_test_data_files(('207003', 'jaso_214', 'rado_250', 'mpco_217'), compiled_template_cache_max=5)

print('demo 4 OK')
