"""Demo for refactor 2: ScriptRunner.run / prepare_variables / get_query_result
and BufrMessageQuerent.query (metadata / data dispatch)."""
import os, sys; sys.path.insert(0, os.getcwd())

import pybufrkit
from pybufrkit.decoder import Decoder
from pybufrkit.dataquery import QueryResult
from pybufrkit.errors import MetadataExprParsingError, PathExprParsingError
from pybufrkit.query import BufrMessageQuerent
from pybufrkit.script import ScriptRunner

assert os.path.abspath(pybufrkit.__file__).startswith(os.getcwd()), pybufrkit.__file__


def raises(exc, func, *args, **kwargs):
    try:
        func(*args, **kwargs)
    except exc as e:
        assert type(e) is exc, (type(e), exc)
        return e
    raise AssertionError('%s not raised' % exc.__name__)


decoder = Decoder()


def load(name, **kw):
    with open(os.path.join('tests', 'data', name), 'rb') as ins:
        return decoder.process(ins.read(), **kw)


msg = load('contrived.bufr', file_path='some/dir/contrived.bufr')   # 2 subsets, uncompressed
msg_c = load('207003.bufr', file_path='207003.bufr')                # 2 subsets, compressed
msg_anon = load('contrived.bufr')                                   # no file name given

# ---- dispatch of BufrMessageQuerent.query -------------------------------
querent = BufrMessageQuerent()
assert querent.query(msg, '%length') == msg.length.value == 94
assert querent.query(msg, ' \t%length') == 94            # leading blanks are dropped first
assert querent.query(msg, '%0.length') == 94
assert querent.query(msg, '%1.length') is None           # section 1 has no length
assert querent.query(msg, '%nothing') is None
assert querent.query(msg, '%') is None
assert querent.query(msg, '%n_subsets') == 2
assert querent.query(msg_c, '%is_compressed') is True and querent.query(msg, '%is_compressed') is False
for expr in ['001001', '  001001', '\n/301001/001001', '@[0:1]/001001', '@[-1] > 008002']:
    qr = querent.query(msg, expr)
    assert type(qr) is QueryResult
    assert qr.path_expr == expr.lstrip()                 # the data querent gets the trimmed text
assert querent.query(msg, '001001').all_values() == [[94], [95]]
assert querent.query(msg, '@[1] > 001001').all_values() == [[95]]
# a % that is not the first visible character is no metadata query
raises(PathExprParsingError, querent.query, msg, 'x%length')
assert type(querent.query(msg, '0%length')) is QueryResult
raises(PathExprParsingError, querent.query, msg, '/')
raises(PathExprParsingError, querent.query, msg, 'abc')
raises(MetadataExprParsingError, querent.query, msg, '%x.length')
raises(IndexError, querent.query, msg, '')               # nothing to look at
raises(IndexError, querent.query, msg, '  \n')
raises(IndexError, querent.query, msg, '@[9]/001001')    # no such subset
raises(AttributeError, querent.query, msg, None)
raises(AttributeError, querent.query, msg, 1)
raises(TypeError, querent.query, msg, b'%length')


# each sub-querent is asked exactly once, with (message, trimmed expression)
class Recorder(object):
    def __init__(self, name, log):
        self.name, self.log = name, log

    def query(self, bufr_message, expr):
        self.log.append((self.name, bufr_message, expr))
        return self.name


log = []
q2 = BufrMessageQuerent()
q2.metadata_querent, q2.data_querent = Recorder('md', log), Recorder('data', log)
assert q2.query(msg, ' %a') == 'md' and q2.query(msg, ' 1 ') == 'data' and q2.query(msg, '%') == 'md'
assert log == [('md', msg, '%a'), ('data', msg, '1 '), ('md', msg, '%')]
del q2.data_querent                                      # only the querent in charge is touched
assert q2.query(msg, '%a') == 'md'
raises(AttributeError, q2.query, msg, '1')

# ---- run in exec mode ----------------------------------------------------
script = ('n = ${%n_subsets}\n'
          'ids = ${001001}          # not this one: ${001002}\n'
          "label = '${%length}'\n"
          'again = ${ %n_subsets }\n'
          'both = (${%length}, ${001002})\n')
runner = ScriptRunner(script)
assert runner.code_string == ('n = PBK_0\nids = PBK_1          # not this one: ${001002}\n'
                              "label = '${%length}'\nagain = PBK_0\nboth = (PBK_2, PBK_3)\n")
variables = runner.run(msg)
assert type(variables) is dict
assert variables['PBK_0'] == 2 and variables['PBK_1'] == [94, 95]
assert variables['PBK_2'] == 94 and variables['PBK_3'] == [461, 888]
assert variables['n'] == 2 and variables['again'] == 2 and variables['ids'] == [94, 95]
assert variables['label'] == '${%length}' and variables['both'] == (94, [461, 888])
assert variables['PBK_BUFR_MESSAGE'] is msg
assert variables['PBK_FILENAME'] == 'some/dir/contrived.bufr'
# the query variables come first, in order of first appearance, then message and file name
assert list(variables)[:6] == ['PBK_0', 'PBK_1', 'PBK_2', 'PBK_3', 'PBK_BUFR_MESSAGE', 'PBK_FILENAME']
assert set(variables) == {'PBK_0', 'PBK_1', 'PBK_2', 'PBK_3', 'PBK_BUFR_MESSAGE', 'PBK_FILENAME',
                          '__builtins__', 'n', 'ids', 'label', 'again', 'both'}
# a runner can be reused, every run gets a fresh namespace
v2 = runner.run(msg_c)
assert v2 is not variables and v2['PBK_BUFR_MESSAGE'] is msg_c and v2['PBK_FILENAME'] == '207003.bufr'
assert v2['n'] == 2 and variables['PBK_BUFR_MESSAGE'] is msg
assert runner.run(msg_anon)['PBK_FILENAME'] == '<string>'

# prepare_variables alone: nothing but the bindings
pv = runner.prepare_variables(msg)
assert list(pv.items()) == [('PBK_0', 2), ('PBK_1', [94, 95]), ('PBK_2', 94), ('PBK_3', [461, 888]),
                            ('PBK_BUFR_MESSAGE', msg), ('PBK_FILENAME', 'some/dir/contrived.bufr')]
assert ScriptRunner('pass').prepare_variables(msg) == {'PBK_BUFR_MESSAGE': msg,
                                                       'PBK_FILENAME': 'some/dir/contrived.bufr'}

# get_query_result: metadata comes back as is, data goes through the nest level
assert runner.get_query_result(msg, '%length') == 94
assert runner.get_query_result(msg, '%nothing') is None
assert runner.get_query_result(msg, '001001') == [94, 95]
assert ScriptRunner('', data_values_nest_level=2).get_query_result(msg, '001001') == [[94], [95]]

# the script can see and use the injected names
v = ScriptRunner('a = PBK_FILENAME; b = PBK_BUFR_MESSAGE.n_subsets.value; c = sum(${008002})').run(msg)
assert (v['a'], v['b'], v['c']) == ('some/dir/contrived.bufr', 2, 151)

# ---- run in eval (and single) mode ----------------------------------------
assert ScriptRunner('${%length} + 1', mode='eval').run(msg) == 95
assert ScriptRunner('(${001001}, PBK_FILENAME)', mode='eval').run(msg_c) == ([], '207003.bufr')
assert ScriptRunner('PBK_BUFR_MESSAGE', mode='eval').run(msg) is msg
assert ScriptRunner('None', mode='eval').run(msg) is None
assert ScriptRunner('x = 1', mode='single').run(msg) is None      # anything but exec is evaluated
raises(SyntaxError, ScriptRunner, 'a = ${%length}', mode='eval')
raises(SyntaxError, ScriptRunner, 'a = = 1')
raises(ValueError, ScriptRunner, '1', mode='nonsense')

# ---- errors while running ---------------------------------------------------
raises(IndexError, ScriptRunner('a = ${}').run, msg)              # empty expression
raises(PathExprParsingError, ScriptRunner('a = ${abc}').run, msg)
raises(MetadataExprParsingError, ScriptRunner('a = ${%x.length}').run, msg)
raises(ZeroDivisionError, ScriptRunner('a = ${%length} / 0').run, msg)
raises(NameError, ScriptRunner('PBK_9', mode='eval').run, msg)
raises(AttributeError, ScriptRunner('pass').run, None)            # no file name to bind
raises(AttributeError, ScriptRunner('pass').run, object())


# queries are made once per distinct expression, in order, before the file name is read
class FakeMessage(object):
    def __init__(self, log):
        self._log = log

    @property
    def filename(self):
        self._log.append('filename')
        return 'fake'


log = []
fake = FakeMessage(log)
r = ScriptRunner('x = [${b}, ${%a}, ${b}, ${ c }]')
r.querent = Recorder('q', log)
out = r.run(fake)
assert log == [('q', fake, 'b'), ('q', fake, '%a'), ('q', fake, 'c'), 'filename'], log
assert out['x'] == ['q', 'q', 'q', 'q'] and out['PBK_FILENAME'] == 'fake' and out['PBK_BUFR_MESSAGE'] is fake


# a failing query stops everything at once
class Failing(object):
    def query(self, bufr_message, expr):
        log.append(expr)
        if expr == 'two':
            raise KeyError(expr)
        return expr


del log[:]
r = ScriptRunner('${one}; ${two}; ${three}')
r.querent = Failing()
raises(KeyError, r.run, fake)
assert log == ['one', 'two']

print('demo 2 ok')
