import os, sys; sys.path.insert(0, os.getcwd())
"""
Differential demonstration for refactor 6 (table of the four formats in
commands.py, one driver for the two text formats in utils.py).

* command_decode is run with the four combinations of the switches and its
  output is compared with the renderers called directly;
* command_encode is fed these four outputs (from a file and from stdin, with
  and without preamble / append) and must write the bytes that the Encoder
  makes of the flat JSON - which are computed here without the commands;
* the switches are also given as 1 / 0 / None (tests/test_commands.py leaves
  `attributed` as None);
* wrong input: the message of PyBufrKitError names the format; with the
  switches given as None the lookup of that name fails with KeyError; errors
  that are not ValueError / SyntaxError pass through (KeyError, IndexError);
* utils.flat_text_to_flat_json / nested_text_to_flat_json: results on samples,
  hand-built messages and degenerate texts, exceptions on broken texts.
"""
import argparse
import contextlib
import copy
import io
import json
import logging
import shutil
import tempfile

logging.disable(logging.CRITICAL)

import pybufrkit
from pybufrkit.commands import command_decode, command_encode
from pybufrkit.decoder import Decoder
from pybufrkit.encoder import Encoder
from pybufrkit.errors import PyBufrKitError
from pybufrkit.renderer import FlatTextRenderer, NestedTextRenderer, FlatJsonRenderer, NestedJsonRenderer
from pybufrkit.utils import JSON_DUMPS_KWARGS, flat_text_to_flat_json, nested_text_to_flat_json
from pybufrkit import utils

assert os.path.dirname(os.path.abspath(pybufrkit.__file__)) == os.path.join(os.getcwd(), 'pybufrkit'), \
    'run me from the worktree root'

WORK = tempfile.mkdtemp()
LABELS = {(True, True): 'Nested JSON', (True, False): 'Nested Text',
          (False, True): 'Flat JSON', (False, False): 'Flat Text'}
COMBINATIONS = sorted(LABELS)


def namespace(**kwargs):
    ns = dict(definitions_directory=None, tables_root_directory=None, compiled_template_cache_max=None,
              master_table_version=None, output_filename=None, append=False, preamble=None,
              multiple_messages=False, continue_on_error=False, ignore_value_expectation=False, filter=None)
    ns.update(kwargs)
    return argparse.Namespace(**ns)


@contextlib.contextmanager
def std(stdin_text=''):
    old = sys.stdin, sys.stdout
    sys.stdin, sys.stdout = io.StringIO(stdin_text), io.StringIO()
    try:
        yield sys.stdout
    finally:
        sys.stdin, sys.stdout = old


def outcome(func, *args, **kwargs):
    try:
        return 'ok', func(*args, **kwargs)
    except Exception as e:
        return type(e).__name__, str(e)


decoder = Decoder()
encoder = Encoder()


def expected_renderings(bufr_bytes):
    """The four outputs, made without the commands"""
    message = decoder.process(bufr_bytes, wire_template_data=False)
    out = {
        (False, False): FlatTextRenderer().render(message),
        (False, True): json.dumps(FlatJsonRenderer().render(message), **JSON_DUMPS_KWARGS),
    }
    flat = FlatJsonRenderer().render(message)
    message.wire()
    out[True, False] = NestedTextRenderer().render(message)
    out[True, True] = json.dumps(NestedJsonRenderer().render(message), **JSON_DUMPS_KWARGS)
    return out, flat


def decode_with_command(path, attributed, as_json, **kwargs):
    with std() as stdout:
        command_decode(namespace(filenames=[path], attributed=attributed, json=as_json, **kwargs))
    return stdout.getvalue()


def encode_with_command(text, attributed, as_json, via_stdin=False, **kwargs):
    out_path = kwargs.pop('output_filename', os.path.join(WORK, 'out.bufr'))
    if via_stdin:
        filename = '-'
    else:
        filename = os.path.join(WORK, 'in.txt')
        with open(filename, 'w') as outs:
            outs.write(text)
    with std(text) as stdout:
        command_encode(namespace(filename=filename, attributed=attributed, json=as_json,
                                 output_filename=out_path, **kwargs))
    assert stdout.getvalue() == ''
    with open(out_path, 'rb') as ins:
        return ins.read()


def check_file(path, spellings):
    with open(path, 'rb') as ins:
        bufr_bytes = ins.read()
    renderings, flat = expected_renderings(bufr_bytes)
    flat_as_json = json.loads(renderings[False, True])
    expected_bytes = encoder.process(flat_as_json, wire_template_data=False).serialized_bytes

    for attributed, as_json in COMBINATIONS:
        text = renderings[attributed, as_json]
        for spell in spellings:
            assert decode_with_command(path, spell(attributed), spell(as_json)) == text + '\n', \
                (path, attributed, as_json, 'decode')
            assert encode_with_command(text, spell(attributed), spell(as_json)) == expected_bytes, \
                (path, attributed, as_json, 'encode')

    # the converters of the two text formats, by position and by keyword
    assert flat_text_to_flat_json(renderings[False, False]) == flat, path
    assert flat_text_to_flat_json(flat_text=renderings[False, False]) == flat, path
    assert nested_text_to_flat_json(renderings[True, False]) == flat, path
    assert nested_text_to_flat_json(nested_text=renderings[True, False]) == flat, path
    return renderings, expected_bytes


as_bool = lambda flag: flag
as_int = lambda flag: 1 if flag else 0
as_none = lambda flag: True if flag else None  # what tests/test_commands.py does for a missing switch

SAMPLES = ['tests/data/IUSK73_AMMC_182300.bufr',  # uncompressed, zero count delayed replications
           'tests/data/207003.bufr',  # compressed with delayed replication
           'tests/data/profiler_european.bufr',  # 204001 associated fields
           'tests/data/b005_89.bufr',  # compressed, 222000 and 224000
           'tests/data/rado_250.bufr',  # 222000, 224000, 236000
           'tests/data/b002_95.bufr',  # skipped local descriptors
           'tests/data/ISMD01_OKPR.bufr',  # different strings in the subsets
           'tests/benchmark_data/ocea_133.bufr',  # attributes on a replication factor
           'tests/benchmark_data/temp_101.bufr']
renderings = expected_bytes = None
for i, sample in enumerate(SAMPLES):
    renderings, expected_bytes = check_file(sample, (as_bool, as_int, as_none) if i == 0 else (as_bool,))
    if i == 0:
        first = renderings, expected_bytes
renderings, expected_bytes = first

# ---- hand-built message: nested replications, zero counts, strings with quotes, spaces, 8-bit characters
with open('tests/data/IUSK73_AMMC_182300.json') as ins:
    BASE = json.load(ins)
hand = copy.deepcopy(BASE)
hand[0][1] = hand[2][0] = hand[3][0] = 0
hand[2][2] = 2
hand[2][-1] = [105000, 31001, 1015, 102000, 31001, 101002, 1001, 205003]
hand[3][-1] = [[2, 'it\'s "x"  y', 1, 7, 8, u'\xe9\xff = b\'', 2, 1, 2, 3, 4, 'a =', ], [0, ' # ']]
hand_path = os.path.join(WORK, 'hand.bufr')
with open(hand_path, 'wb') as outs:
    outs.write(Encoder(ignore_declared_length=True).process(hand, wire_template_data=False).serialized_bytes)
check_file(hand_path, (as_bool,))

# ---- several messages in one file, decode with multiple_messages
multi_path = os.path.join(WORK, 'multi.bufr')
with open(multi_path, 'wb') as outs:
    with open(SAMPLES[0], 'rb') as ins:
        outs.write(ins.read())
    with open(hand_path, 'rb') as ins:
        outs.write(ins.read())
with open(hand_path, 'rb') as ins:
    hand_renderings, _ = expected_renderings(ins.read())
for attributed, as_json in COMBINATIONS:
    got = decode_with_command(multi_path, attributed, as_json, multiple_messages=True)
    assert got == renderings[attributed, as_json] + '\n' + hand_renderings[attributed, as_json] + '\n'

# ---- encode: stdin, preamble, append
for attributed, as_json in COMBINATIONS:
    text = renderings[attributed, as_json]
    assert encode_with_command(text, attributed, as_json, via_stdin=True) == expected_bytes
    assert encode_with_command(text, attributed, as_json, preamble='ABC\r\n') == b'ABC\r\n' + expected_bytes
    target = os.path.join(WORK, 'append.bufr')
    with open(target, 'wb') as outs:
        outs.write(b'HEAD')
    assert encode_with_command(text, attributed, as_json, output_filename=target, append=True) \
        == b'HEAD' + expected_bytes
    # no output file: nothing is written, nothing is printed
    with std(text) as stdout:
        assert command_encode(namespace(filename='-', attributed=attributed, json=as_json)) is None
    assert stdout.getvalue() == ''

# ---- encode: input in the wrong format. What is expected follows from the converters called directly:
# ValueError / SyntaxError become PyBufrKitError naming the format asked for, anything else passes through
CONVERTERS = {
    (True, True): lambda text: utils.nested_json_to_flat_json(json.loads(text)),
    (True, False): nested_text_to_flat_json,
    (False, True): lambda text: json.loads(text),
    (False, False): flat_text_to_flat_json,
}
kinds = set()
for attributed, as_json in COMBINATIONS:
    for other in COMBINATIONS:
        if other == (attributed, as_json):
            continue
        text = renderings[other]
        kind, what = outcome(CONVERTERS[attributed, as_json], text)
        if kind in ('ValueError', 'SyntaxError', 'JSONDecodeError', 'UnicodeDecodeError'):  # the last two are ValueErrors
            expected = 'PyBufrKitError', 'Error: Invalid input: Is it in %s format?' % LABELS[attributed, as_json]
        elif kind == 'ok':
            expected = outcome(lambda: encoder.process(what, wire_template_data=False).serialized_bytes)
        else:
            expected = kind, what
        got = outcome(encode_with_command, text, attributed, as_json)
        assert got == expected, (attributed, as_json, other, got, expected)
        kinds.add(got[0])
assert 'PyBufrKitError' in kinds and len(kinds) > 1, kinds

GARBAGE = {True: '{"a": ', False: 'key\n<<<<<< section 0 >>>>>>\nno equal sign here\n'}
for attributed, as_json in COMBINATIONS:
    for spell, expected in ((as_bool, 'PyBufrKitError'), (as_int, 'PyBufrKitError')):
        kind, what = outcome(encode_with_command, GARBAGE[as_json], spell(attributed), spell(as_json))
        assert kind == expected and LABELS[attributed, as_json] in what, (kind, what)
    # a switch given as None: the format is chosen as if it were False, but its name is not found
    if not (attributed and as_json):
        kind, what = outcome(encode_with_command, GARBAGE[as_json], as_none(attributed), as_none(as_json))
        assert kind == 'KeyError' and 'None' in what, (kind, what)
# ValueError and SyntaxError are the two that are translated
assert outcome(encode_with_command, 'key\n<<<<<< section 0 >>>>>>\na = = 1\n', False, False)[0] == 'PyBufrKitError'
assert outcome(encode_with_command, 'key\n<<<<<< section 0 >>>>>>\na = b = 1\n', True, False)[0] == 'PyBufrKitError'
# others are not
assert outcome(encode_with_command, '[[{"nom": "x", "value": 1}]]', True, True)[0] == 'KeyError'
assert outcome(encode_with_command, '[[1]]', True, True)[0] == 'TypeError'
truncated = renderings[False, False].split('<<<<<< section 5')[0]
assert outcome(encode_with_command, truncated, False, False)[0] == 'IndexError'
truncated = renderings[True, False].split('<<<<<< section 5')[0]
assert outcome(encode_with_command, truncated, True, False)[0] == 'IndexError'
# something that is not a message at all, in good JSON
assert outcome(encode_with_command, '[]', False, True)[0] == outcome(encoder.process, [])[0] == 'IndexError'

# ---- decode: a renderer is chosen for whatever the switches are, the data are wired only if attributed
for attributed, as_json in COMBINATIONS:
    for spell in (as_int, as_none):
        got = decode_with_command(SAMPLES[0], spell(attributed), spell(as_json))
        assert got == renderings[attributed, as_json] + '\n'

# ---- the text converters on degenerate and broken texts
for func in (flat_text_to_flat_json, nested_text_to_flat_json):
    assert func('') == []
    assert func('table group key only') == []
    assert func('key\nnot a header, skipped like one') == [[]]
    assert func('key\nH\na = 1\nb = (1, 2)\n<<<<<< section 1 >>>>>>\n<<<<<< section 2 >>>>>>\nc = b"q"') \
        == [[1, (1, 2)], [], [b'q']]
    assert outcome(func, 'key\nH\nno equal sign')[0] == 'ValueError'
    assert outcome(func, 'key\nH\na = b = 1')[0] == 'ValueError'
    assert outcome(func, 'key\nH\na = = 1')[0] == 'SyntaxError'
    assert outcome(func, 'key\nH\na = name')[0] == 'ValueError'
    assert outcome(func, 'key\nH\n###### subset 1 of 1 ######')[0] == 'IndexError'
    assert outcome(func, None)[0] == 'AttributeError'
    assert outcome(func, b'key\nH\na = 1')[0] == 'TypeError'  # bytes lines against str markers
flat_line = '    1 %-74s %r' % ('001001 WMO BLOCK NUMBER', 7)
assert flat_text_to_flat_json('key\nH\n###### subset 1 of 1 ######\n' + flat_line + '\n<<<<<< s >>>>>>\nz = None') \
    == [[[[7]]], [None]]
assert nested_text_to_flat_json('key\nH\n###### subset 1 of 1 ######\n001001 WMO BLOCK NUMBER 7\n'
                                '    -> A assoc 3\n<<<<<< s >>>>>>\nz = None') == [[[[3, 7]]], [None]]

shutil.rmtree(WORK, ignore_errors=True)
print('refactor 6 demo: %d sample files, hand-built message, switches as bool / int / None, error cases: OK'
      % len(SAMPLES))
