import os, sys; sys.path.insert(0, os.getcwd())
"""
Differential demonstration for refactor 5 (define_bitmap pulled up into Coder).

Messages are built by hand, bit by bit, from a field specification written down
from the BUFR regulations (widths, scales of Table B version 25). The values,
descriptor ids and bitmap links expected from decoding are part of that
specification, i.e. they are not obtained from the library. The demo decodes the
hand-built bytes (plain and compiled template), encodes the expected values
(plain and compiled template) and compares with the hand-built bytes, for

  * uncompressed data, bitmap not for reuse (delayed replicated 031031), QA info
  * uncompressed data, bitmap for reuse (236000), recalled (237000), cancelled
  * compressed data, both of the above in one template
  * the error behaviour (bitmap longer than the back referenced elements, recall
    of a bitmap that was not defined for reuse)
  * define_bitmap called directly on hand-made states (return value, state.bitmap,
    the n_031031 == 0 corner of both slices)

Exits 0 when everything agrees.
"""
import itertools
import json

import pybufrkit
from pybufrkit.coder import CoderState
from pybufrkit.decoder import Decoder
from pybufrkit.encoder import Encoder
from pybufrkit.errors import PyBufrKitError
from pybufrkit.renderer import NestedJsonRenderer
from pybufrkit.tables import TableGroupCacheManager

assert os.path.dirname(os.path.dirname(os.path.abspath(pybufrkit.__file__))) == os.getcwd(), pybufrkit.__file__

N_CHECKS = [0]


def check(cond, what):
    N_CHECKS[0] += 1
    if not cond:
        print('FAILED: {}'.format(what))
        sys.exit(1)


# ---------------------------------------------------------------------------
# An independent bit packer and message builder (edition 4, no section 2)
def pack(fields):
    """fields: iterable of (uint value, nbits). Zero padded to a whole byte."""
    bits = ''.join(format(v, '0{}b'.format(n)) if n else '' for v, n in fields)
    for v, n in fields:
        assert 0 <= v < (1 << n) or n == 0, (v, n)
    bits += '0' * (-len(bits) % 8)
    return bytes(bytearray(int(bits[i:i + 8], 2) for i in range(0, len(bits), 8)))


def u(value, nbytes):
    return pack([(value, nbytes * 8)])


def build_message(descriptor_ids, n_subsets, compressed, data_fields):
    sec1 = (u(22, 3) + u(0, 1) + u(98, 2) + u(0, 2) + u(0, 1) + u(0, 1) + u(0, 1) + u(0, 1) + u(0, 1) +
            u(25, 1) + u(0, 1) + u(2020, 2) + u(1, 1) + u(2, 1) + u(3, 1) + u(4, 1) + u(5, 1))
    assert len(sec1) == 22
    sec3_body = u(0, 1) + u(n_subsets, 2) + u(0x80 | (0x40 if compressed else 0), 1)
    for id_ in descriptor_ids:
        sec3_body += pack([(id_ // 100000, 2), (id_ // 1000 % 100, 6), (id_ % 1000, 8)])
    sec3 = u(3 + len(sec3_body), 3) + sec3_body
    data = pack(data_fields)
    sec4 = u(4 + len(data), 3) + u(0, 1) + data
    total = 8 + len(sec1) + len(sec3) + len(sec4) + 4
    return b'BUFR' + u(total, 3) + u(4, 1) + sec1 + sec3 + sec4 + b'7777'


def json_message(descriptor_ids, n_subsets, compressed, values_all_subsets):
    return [
        ['BUFR', 0, 4],
        [22, 0, 98, 0, 0, False, '0000000', 0, 0, 0, 25, 0, 2020, 1, 2, 3, 4, 5],
        [0, '00000000', n_subsets, True, compressed, '000000', list(descriptor_ids)],
        [0, '00000000', [list(values) for values in values_all_subsets]],
        ['7777'],
    ]


# ---------------------------------------------------------------------------
# Field specifications. A field of an uncompressed subset is
#   (label, descriptor id, nbits, raw uint written to the stream, decoded value, label of the linked field or None)
# nbits == 0 stands for an operator that takes no bits (222000 etc.); MISSING raw is all ones.
def F(label, id_, nbits, raw, value, ref=None):
    return label, id_, nbits, raw, value, ref


def temps(prefix, raws):  # 012001, K, scale 1, reference 0, 12 bits
    return [F('{}{}'.format(prefix, i), 12001, 12, raw, raw / 10.0) for i, raw in enumerate(raws)]


def bits_031031(bits):
    return [F(None, 31031, 1, b, b) for b in bits]


def expected_of(fields):
    labels = [f[0] for f in fields]
    ids = [f[1] for f in fields]
    values = [f[4] for f in fields]
    links = {i: labels.index(f[5]) for i, f in enumerate(fields) if f[5] is not None}
    stream = [(f[3], f[2]) for f in fields]
    return ids, values, links, stream


# T1: bitmap that is not for reuse, its length and the number of QA values are delayed replications
T1 = [101000, 31001, 12001,
      222000, 101000, 31001, 31031, 1031, 1032, 101000, 31001, 33007]


def t1_subset(temp_raws, bits, qa):
    """qa: list of (raw, value, label of the element referred to)"""
    return ([F('k', 31001, 8, len(temp_raws), len(temp_raws))] + temps('t', temp_raws) +
            [F(None, 222000, 0, 0, 0), F(None, 31001, 8, len(bits), len(bits))] + bits_031031(bits) +
            [F(None, 1031, 16, 98, 98), F(None, 1032, 8, 7, 7), F(None, 31001, 8, len(qa), len(qa))] +
            [F(None, 33007, 7, raw, value, ref) for raw, value, ref in qa])


T1_SUBSETS = [
    # the bitmap refers backwards to the last len(bits) elements in front of 222000, the factor 031001 included
    t1_subset([2731, 2802, 2955], [0, 1, 0], [(70, 70, 't0'), (80, 80, 't2')]),
    t1_subset([2500], [0, 0], [(10, 10, 'k'), (127, None, 't0')]),
    t1_subset([1, 2, 3, 4], [1], []),
    t1_subset([3000, 3001], [], []),  # a bitmap of no bits at all: nothing is defined
    t1_subset([2000, 2100], [0, 0, 0], [(1, 1, 'k'), (2, 2, 't0'), (3, 3, 't1')]),
]

# T2: bitmap for reuse, recalled for first order statistics, then cancelled
T2 = [12001, 12001, 7004,
      222000, 236000, 101003, 31031, 1031, 101000, 31001, 33007,
      224000, 237000, 8023, 101000, 31001, 224255,
      237255, 235000, 12001]


def t2_subset(t_raws, p_raw, bits, qa_raws, stat_raws, last_raw):
    elements = [('a', 12, 10.0), ('b', 12, 10.0), ('p', 14, 0.1)]  # label, nbits, 10 ** scale
    present = [e for e, bit in zip(elements, bits) if bit == 0]
    assert len(present) == len(qa_raws) == len(stat_raws)
    return ([F('a', 12001, 12, t_raws[0], t_raws[0] / 10.0), F('b', 12001, 12, t_raws[1], t_raws[1] / 10.0),
             F('p', 7004, 14, p_raw, p_raw * 10.0),
             F(None, 222000, 0, 0, 0), F(None, 236000, 0, 0, 0)] + bits_031031(bits) +
            [F(None, 1031, 16, 98, 98), F(None, 31001, 8, len(qa_raws), len(qa_raws))] +
            [F(None, 33007, 7, raw, raw, e[0]) for raw, e in zip(qa_raws, present)] +
            [F(None, 224000, 0, 0, 0), F(None, 237000, 0, 0, 0), F(None, 8023, 6, 4, 4),
             F(None, 31001, 8, len(stat_raws), len(stat_raws))] +
            # a marker takes width, scale and reference of the element it refers to
            [F(None, 224255, e[1], raw, raw / e[2] if e[2] == 10.0 else raw * 10.0, e[0])
             for raw, e in zip(stat_raws, present)] +
            [F(None, 237255, 0, 0, 0), F(None, 12001, 12, last_raw, last_raw / 10.0)])


T2_SUBSETS = [
    t2_subset([2731, 2741], 1000, [0, 0, 1], [50, 60], [2735, 2745], 2999),
    t2_subset([2600, 2610], 1013, [1, 0, 0], [51, 61], [2605, 1010], 2888),
    t2_subset([2500, 2510], 900, [1, 1, 1], [], [], 2777),
    t2_subset([2400, 2410], 950, [0, 0, 0], [1, 2, 3], [2401, 2411, 951], 2666),
]


# ---------------------------------------------------------------------------
def decode(message_bytes, compiled):
    decoder = Decoder(compiled_template_cache_max=10) if compiled else Decoder()
    return decoder.process(message_bytes)


def observed(bufr_message):
    td = bufr_message.template_data.value
    # a marker descriptor carries the id of the element it refers to; the operator is its marker_id
    return ([[getattr(d, 'marker_id', d.id) for d in ds] for ds in td.decoded_descriptors_all_subsets],
            [list(vs) for vs in td.decoded_values_all_subsets],
            [dict(ls) for ls in td.bitmap_links_all_subsets])


def rendered_subsets(bufr_message):
    rendered = NestedJsonRenderer().render(bufr_message)
    for section in rendered:
        for parameter in section:
            if parameter['name'] == 'template_data':
                return [json.dumps(subset, sort_keys=True) for subset in parameter['value']]


def run_uncompressed(name, template, subsets, compiled_refuses=()):
    """
    compiled_refuses: the subsets that define a bitmap of no bits at all. The state machine of
    Coder.process_bitmap_definition, run on the data, never leaves BITMAP_WAITING_FOR_BIT for them, so that no
    bitmap is defined. A compiled template has the call of define_bitmap fixed at compile time; it is made with
    n_031031 == 0, which takes all decoded values ([-0:]) when decoding, or no value when encoding, and neither
    matches the elements in front of 222000.
    """
    refusal = 'Back referenced descriptors not matching defined Bitmap'
    # Every subset on its own, as the reference for the independence of the subsets
    alone = []
    for fields in subsets:
        ids, values, links, stream = expected_of(fields)
        message_bytes = build_message(template, 1, False, stream)
        for compiled in (False, True):
            if compiled and len(alone) in compiled_refuses:
                check(raises(lambda: decode(message_bytes, compiled), PyBufrKitError, refusal),
                      '{}: single subset of an empty bitmap refused by the compiled template'.format(name))
                continue
            message = decode(message_bytes, compiled)
            check(observed(message) == ([ids], [values], [links]),
                  '{}: single subset decoded as specified (compiled={})'.format(name, compiled))
            rendered = rendered_subsets(message)[0]
        alone.append(rendered)

    # All orders of 2 and 3 subsets, and all the subsets together
    orders = (list(itertools.permutations(range(len(subsets)), 2)) +
              list(itertools.permutations(range(len(subsets)), 3)) +
              [tuple(range(len(subsets))), tuple(reversed(range(len(subsets))))])
    for order in orders:
        specs = [expected_of(subsets[i]) for i in order]
        stream = [bit_field for spec in specs for bit_field in spec[3]]
        message_bytes = build_message(template, len(order), False, stream)
        expected = ([s[0] for s in specs], [s[1] for s in specs], [s[2] for s in specs])
        for compiled in (False, True):
            if compiled and set(order) & set(compiled_refuses):
                check(raises(lambda: decode(message_bytes, compiled), PyBufrKitError, refusal),
                      '{}: order {} refused by the compiled template (decoder)'.format(name, order))
                encoder = Encoder(compiled_template_cache_max=10)
                check(raises(lambda: encoder.process(json_message(template, len(order), False, expected[1])),
                             PyBufrKitError, refusal),
                      '{}: order {} refused by the compiled template (encoder)'.format(name, order))
                continue
            message = decode(message_bytes, compiled)
            check(observed(message) == expected,
                  '{}: order {} decoded as specified (compiled={})'.format(name, order, compiled))
            check(rendered_subsets(message) == [alone[i] for i in order],
                  '{}: order {} wired as each subset alone (compiled={})'.format(name, order, compiled))

            encoder = Encoder(compiled_template_cache_max=10) if compiled else Encoder()
            encoded = encoder.process(json_message(template, len(order), False, expected[1]))
            check(encoded.serialized_bytes == message_bytes,
                  '{}: order {} encoded to the hand-built bytes (compiled={})'.format(name, order, compiled))
            check(observed(encoded) == expected,
                  '{}: order {} encoder book keeping as specified (compiled={})'.format(name, order, compiled))
            check(rendered_subsets(encoded) == [alone[i] for i in order],
                  '{}: order {} encoder wired as each subset alone (compiled={})'.format(name, order, compiled))


# ---------------------------------------------------------------------------
# Compressed data. A field is
#   (label, id, nbits, raw minimum, nbits of the increments, raw increments or None, values of all subsets, ref)
# The width of the increments is the smallest one where the largest increment is not all ones. (The encoder
# takes one bit more when largest increment + 1 is all ones; the values below avoid that case, so that the
# hand-built bytes are also what the encoder writes.)
def width_of_increments(max_increment):
    nbits = 1
    while (1 << nbits) - 1 <= max_increment:
        nbits += 1
    return nbits


def C(label, id_, nbits, raws, to_value, ref=None):
    """raws: the raw uint of every subset; None for missing. to_value: raw -> decoded value"""
    values = [None if raw is None else to_value(raw) for raw in raws]
    if nbits == 0:
        return label, id_, nbits, [], values, ref
    present = [raw for raw in raws if raw is not None]
    if not present:
        stream = [((1 << nbits) - 1, nbits), (0, 6)]
    elif len(set(raws)) == 1:
        stream = [(raws[0], nbits), (0, 6)]
    else:
        low = min(present)
        n = width_of_increments(max(present) - low)
        stream = [(low, nbits), (n, 6)] + [((1 << n) - 1 if raw is None else raw - low, n) for raw in raws]
    return label, id_, nbits, stream, values, ref


def same(raw, n):
    return [raw] * n


def run_compressed():
    n = 3
    ident = lambda raw: raw
    tenth = lambda raw: raw / 10.0
    times_ten = lambda raw: raw * 10.0
    template = [12001, 7004,
                # not for reuse, two bits
                222000, 101002, 31031, 101000, 31001, 33007,
                # for reuse, recalled, cancelled
                223000, 236000, 101002, 31031, 223255, 223255,
                224000, 237000, 8023, 224255, 224255,
                237255]
    fields = [
        C('t', 12001, 12, [2731, 2802, None], tenth),
        C('p', 7004, 14, [1000, 1013, 1001], times_ten),
        C(None, 222000, 0, same(0, n), ident),
        C(None, 31031, 1, same(1, n), ident), C(None, 31031, 1, same(0, n), ident),
        C(None, 31001, 8, same(1, n), ident),
        C(None, 33007, 7, [70, 71, 73], ident, 'p'),
        C(None, 223000, 0, same(0, n), ident), C(None, 236000, 0, same(0, n), ident),
        C(None, 31031, 1, same(0, n), ident), C(None, 31031, 1, same(0, n), ident),
        C(None, 223255, 12, [2000, 2000, 2000], tenth, 't'),
        C(None, 223255, 14, [None, 900, 901], times_ten, 'p'),
        C(None, 224000, 0, same(0, n), ident), C(None, 237000, 0, same(0, n), ident),
        C(None, 8023, 6, same(4, n), ident),
        C(None, 224255, 12, [None, None, None], tenth, 't'),
        C(None, 224255, 14, [5, 6, 9], times_ten, 'p'),
        C(None, 237255, 0, same(0, n), ident),
    ]
    labels = [f[0] for f in fields]
    ids = [f[1] for f in fields]
    links = {i: labels.index(f[5]) for i, f in enumerate(fields) if f[5] is not None}
    values_all_subsets = [[f[4][i] for f in fields] for i in range(n)]
    stream = [bit_field for f in fields for bit_field in f[3]]
    message_bytes = build_message(template, n, True, stream)
    expected = ([ids] * n, values_all_subsets, [links] * n)
    for compiled in (False, True):
        message = decode(message_bytes, compiled)
        check(observed(message) == expected, 'compressed: decoded as specified (compiled={})'.format(compiled))
        encoder = Encoder(compiled_template_cache_max=10) if compiled else Encoder()
        encoded = encoder.process(json_message(template, n, True, values_all_subsets))
        check(encoded.serialized_bytes == message_bytes,
              'compressed: encoded to the hand-built bytes (compiled={})'.format(compiled))
        check(observed(encoded) == expected,
              'compressed: encoder book keeping as specified (compiled={})'.format(compiled))
        check(rendered_subsets(encoded) == rendered_subsets(message), 'compressed: wired alike')


# ---------------------------------------------------------------------------
def raises(func, exc_type, text):
    try:
        func()
    except Exception as e:
        return type(e) is exc_type and text in str(e)
    return False


def run_errors():
    # 1. bitmap longer than what can be referred back to
    fields = t1_subset([2500], [0, 0, 0], [(1, 1, None), (2, 2, None), (3, 3, None)])
    ids, values, _, stream = expected_of(fields)
    good = expected_of(T1_SUBSETS[0])
    for compressed_flag_unused in (False,):
        for order in ((fields,), (T1_SUBSETS[0], fields)):
            all_stream = [bf for fs in order for bf in expected_of(fs)[3]]
            all_values = [expected_of(fs)[1] for fs in order]
            message_bytes = build_message(T1, len(order), False, all_stream)
            for compiled in (False, True):
                check(raises(lambda: decode(message_bytes, compiled), PyBufrKitError,
                             'Back referenced descriptors not matching defined Bitmap'),
                      'decoder: bitmap too long is refused (n={}, compiled={})'.format(len(order), compiled))
                encoder = Encoder(compiled_template_cache_max=10) if compiled else Encoder()
                check(raises(lambda: encoder.process(json_message(T1, len(order), False, all_values)),
                             PyBufrKitError, 'Back referenced descriptors not matching defined Bitmap'),
                      'encoder: bitmap too long is refused (n={}, compiled={})'.format(len(order), compiled))

    # 2. a bitmap that was not defined for reuse is not kept for 237000, also not from an earlier subset
    template = [12001, 222000, 101001, 31031, 1031, 223000, 237000]
    subset = [(2731, 12), (0, 1), (98, 16)]
    subset_values = [273.1, 0, 0, 98, 0, 0]
    for n in (1, 2):
        message_bytes = build_message(template, n, False, subset * n)
        for compiled in (False, True):
            check(raises(lambda: decode(message_bytes, compiled), PyBufrKitError, 'No bitmap is defined for reuse'),
                  'decoder: nothing to recall (n={}, compiled={})'.format(n, compiled))
            encoder = Encoder(compiled_template_cache_max=10) if compiled else Encoder()
            check(raises(lambda: encoder.process(json_message(template, n, False, [subset_values] * n)),
                         PyBufrKitError, 'No bitmap is defined for reuse'),
                  'encoder: nothing to recall (n={}, compiled={})'.format(n, compiled))

    # 3. compressed data without any subset: there is no first subset to take the bits from
    template = [12001, 222000, 101001, 31031, 1031]
    message_bytes = build_message(template, 0, True, [(0, 12), (0, 6), (0, 1), (0, 6), (0, 16), (0, 6)])
    check(raises(lambda: Decoder().process(message_bytes, wire_template_data=False), IndexError, ''),
          'decoder: compressed data of no subsets fails on the first subset')


def run_direct():
    table_group = TableGroupCacheManager.get_table_group(None, 0, 98, 0, 25, 0)
    d = table_group.lookup(12001)
    e = table_group.lookup(7004)

    def make_state(is_compressed, n_subsets, values_all_subsets, boundary, n_031031, idx_value):
        state = CoderState(is_compressed, n_subsets, [list(v) for v in values_all_subsets])
        state.decoded_descriptors.extend([d, e, d])
        state.back_reference_boundary = boundary
        state.n_031031 = n_031031
        state.idx_value = idx_value
        return state

    # The bits sit at the end of the values for a decoder, in front of the value index for an encoder
    dec_values = [1.0, 2.0, 3.0, 0, 1, 0]
    enc_values = [1.0, 2.0, 3.0, 0, 1, 0, 77, 88]
    for coder, values, idx_value in ((Decoder(), dec_values, 0), (Encoder(), enc_values, 6)):
        name = type(coder).__name__
        for reuse in (False, True):
            state = make_state(False, 2, [values, [9] * len(values)], 3, 3, idx_value)
            bitmap = coder.define_bitmap(state, reuse)
            check(bitmap == [0, 1, 0] and type(bitmap) is list, '{}: bitmap returned'.format(name))
            check((state.bitmap is bitmap) if reuse else (state.bitmap is None), '{}: bitmap kept iff for reuse'.format(name))
            check(state.bitmapped_descriptors == [(0, d), (2, d)], '{}: bitmapped descriptors'.format(name))
            check(state.back_referenced_descriptors == [(0, d), (1, e), (2, d)], '{}: back referenced'.format(name))
            check(state.next_bitmapped_descriptor() == (0, d) and state.next_bitmapped_descriptor() == (2, d),
                  '{}: iteration of the bitmapped descriptors'.format(name))

            # compressed: the bits of the first subset count, whatever the current values are
            state = make_state(True, 2, [values, [9] * len(values)], 3, 2, idx_value)
            state.decoded_values = None
            bitmap = coder.define_bitmap(state, reuse)
            check(bitmap == [1, 0], '{}: compressed bitmap returned'.format(name))
            check((state.bitmap is bitmap) if reuse else (state.bitmap is None),
                  '{}: compressed bitmap kept iff for reuse'.format(name))
            check(state.bitmapped_descriptors == [(2, d)], '{}: compressed bitmapped descriptors'.format(name))

            # uncompressed: the bits of the current subset count
            state = make_state(False, 2, [[9] * len(values), values], 3, 1, idx_value)
            state.decoded_values = state.decoded_values_all_subsets[1]
            check(coder.define_bitmap(state, reuse) == [0], '{}: bits of the current subset'.format(name))

    # No 031031 counted: the decoder slice [-0:] is the whole list, the encoder slice is empty
    state = make_state(False, 1, [dec_values], 3, 0, 0)
    check(raises(lambda: Decoder().define_bitmap(state, True), PyBufrKitError, 'Back referenced descriptors'),
          'Decoder: n_031031 == 0 takes all values')
    check(state.bitmap == dec_values, 'Decoder: bitmap is kept before the descriptors are matched')
    state = make_state(False, 1, [enc_values], 0, 0, 6)
    check(Encoder().define_bitmap(state, True) == [] and state.bitmap == [] and state.bitmapped_descriptors == [],
          'Encoder: n_031031 == 0 takes no value')
    state = make_state(False, 1, [enc_values], 3, 0, 6)
    check(raises(lambda: Encoder().define_bitmap(state, False), PyBufrKitError, 'Back referenced descriptors'),
          'Encoder: n_031031 == 0 with elements to refer to')
    check(state.bitmap is None, 'Encoder: bitmap not kept')


if __name__ == '__main__':
    run_uncompressed('T1', T1, T1_SUBSETS, compiled_refuses=(3,))
    run_uncompressed('T2', T2, T2_SUBSETS)
    run_compressed()
    run_errors()
    run_direct()
    print('OK ({} checks)'.format(N_CHECKS[0]))
