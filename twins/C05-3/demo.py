"""
Demo for refactor 3: the decoder of compressed numeric and code/flag columns
(width 0, the 1-bit missing rule, all-ones increment = missing, reference value
and scale applied to base + increment).

The columns are written here by an independent bit writer with EVERY legal
difference width and several legal base values, not only the ones the encoder
of the library would choose.

Run as:  cd /tmp/tw_C05 && /venv/bin/python _out/3/demo.py
Exits 0 when every assertion holds (both without and with the patch).
"""
import os, sys; sys.path.insert(0, os.getcwd())

import itertools
import json
import random

import pybufrkit
assert os.path.dirname(os.path.abspath(pybufrkit.__file__)) == os.path.join(os.getcwd(), 'pybufrkit'), \
    'run me with the worktree as current directory'

from pybufrkit.bitops import get_bit_reader
from pybufrkit.coder import CoderState
from pybufrkit.decoder import Decoder
from pybufrkit.encoder import Encoder
from pybufrkit.errors import PyBufrKitError, BitReadError

SEC1 = [0, 0, 89, 0, 0, False, '0000000', 0, 2, 0, 13, 0, 2007, 11, 21, 12, 0, 0]
ENC = Encoder()
DEC = Decoder()
DEC_COMPILED = Decoder(compiled_template_cache_max=8)

_prefix_cache = {}


def prefix(descriptors, n_subsets, compressed):
    """Sections 0, 1 and 3 as written by the encoder for this template."""
    key = (tuple(descriptors), n_subsets, compressed)
    if key not in _prefix_cache:
        n_values = sum(1 for d in descriptors if d // 100000 == 0)
        msg = [['BUFR', 0, 4], list(SEC1),
               [0, '00000000', n_subsets, True, compressed, '000000', list(descriptors)],
               [0, '00000000', [[None] * n_values for _ in range(n_subsets)]], ['7777']]
        data = ENC.process(json.dumps(msg)).serialized_bytes
        _prefix_cache[key] = data[:8 + 22 + 7 + 2 * len(descriptors)]
    return _prefix_cache[key]


def build(descriptors, n_subsets, compressed, bits):
    """A complete message whose data section holds the given bits."""
    bits += '0' * (-len(bits) % 8)
    payload = bytes(int(bits[i:i + 8], 2) for i in range(0, len(bits), 8))
    sec4 = (4 + len(payload)).to_bytes(3, 'big') + b'\0' + payload
    data = bytearray(prefix(descriptors, n_subsets, compressed) + sec4 + b'7777')
    data[4:7] = len(data).to_bytes(3, 'big')
    return bytes(data)


def decode(data, decoder=DEC):
    td = decoder.process(data).template_data.value
    return (td.decoded_values_all_subsets,
            [[d.id for d in ds] for ds in td.decoded_descriptors_all_subsets],
            td.bitmap_links_all_subsets)


def typed(rows):
    """Values with their types, so that 1 and 1.0 are told apart."""
    return [[(type(v).__name__, v) for v in row] for row in rows]


ones = lambda n: 2 ** n - 1
ub = lambda value, n: '{:0{}b}'.format(value, n) if n else ''


def write_column(raws, w, base, nd):
    """Independent writer: base in w bits, width in 6 bits, one increment of nd bits per subset."""
    if nd == 0:
        return ub(ones(w) if base is None else base, w) + ub(0, 6)
    return ub(base, w) + ub(nd, 6) + ''.join(ub(ones(nd) if r is None else r - base, nd) for r in raws)


def write_uncompressed(rows, widths):
    return ''.join(ub(ones(w) if r is None else r, w) for row in rows for r, w in zip(row, widths))


def legal_encodings(raws, w, extra_widths=()):
    """Every (base, nd) this demo tries for a column of raw values."""
    present = [r for r in raws if r is not None]
    result = []
    if not present:
        result.append((None, 0))
        for nd in (1, 2, 3, 7) + tuple(extra_widths):   # any base, every increment all ones
            result.append((0, nd))
            result.append((ones(w) - 1, nd))
        return result
    mn, mx = min(present), max(present)
    if mn == mx and len(present) == len(raws):
        result.append((mn, 0))
    for base in sorted({mn, 0, mn // 2}):
        top = mx - base
        for nd in list(range(1, w + 3)) + list(extra_widths):
            if top <= ones(nd) - 1:         # the largest increment is not the all-ones pattern
                result.append((base, nd))
    return result


def check(descriptors, widths, jobs, expect=None, decoder=DEC):
    """
    jobs: list of (raws, base, nd), one per element of the template, all of the
    same number of subsets. Builds the compressed message by hand, and the
    uncompressed one by hand, decodes both and compares.
    """
    n = len(jobs[0][0])
    element_ids = [d for d in descriptors if d // 100000 == 0]
    cmp_bits = ''.join(write_column(raws, w, base, nd) for (raws, base, nd), w in zip(jobs, widths))
    rows = [[raws[i] for raws, _, _ in jobs] for i in range(n)]
    unc_bits = write_uncompressed(rows, widths)
    c = decode(build(descriptors, n, True, cmp_bits), decoder)
    u = decode(build(descriptors, n, False, unc_bits), decoder)
    assert typed(c[0]) == typed(u[0]), (descriptors, jobs, c[0], u[0])
    assert c[1] == u[1] == [element_ids] * n
    assert c[2] == u[2] == [{}] * n
    if expect is not None:
        want = [[None if r is None else f(r) for r, f in zip(row, expect)] for row in rows]
        assert typed(c[0]) == typed(want), (descriptors, jobs, c[0], want)


# ---------------------------------------------------------------------------
# 1. exhaustive small scope, code tables (2, 3, 4 bits) and numerics (004001 resized by 201YYY)
# ---------------------------------------------------------------------------
CODE = {2: 2001, 3: 1003, 4: 2003}
PER_MESSAGE = 96
identity = lambda r: r
n_jobs = 0
for w in (2, 3, 4):
    for n in (1, 2, 3) if w == 4 else (1, 2, 3, 4):
        jobs = []
        for col in itertools.product([None] + list(range(ones(w))), repeat=n):
            for base, nd in legal_encodings(list(col), w):
                jobs.append((list(col), base, nd))
        n_jobs += len(jobs)
        for i in range(0, len(jobs), PER_MESSAGE):
            chunk = jobs[i:i + PER_MESSAGE]
            check([CODE[w]] * len(chunk), [w] * len(chunk), chunk, expect=[identity] * len(chunk))
            check([201000 + 128 + w - 12] + [4001] * len(chunk) + [201000], [w] * len(chunk), chunk,
                  expect=[identity] * len(chunk))
print('exhaustive (column, base, width) combinations checked twice:', n_jobs)

# ---------------------------------------------------------------------------
# 2. random: fields up to 64 bits, difference widths up to 63, dozens of subsets
# ---------------------------------------------------------------------------
rnd = random.Random(3)
for _ in range(150):
    w = rnd.randint(5, 64)
    n = rnd.randint(1, 40)
    lo = rnd.randint(0, ones(w) - 1)
    hi = min(ones(w) - 1, lo + rnd.choice([0, 1, 2, 6, 7, 14, 15, 1000, 2 ** 40]))
    raws = [rnd.choice([None, lo, hi, rnd.randint(lo, hi)]) for _ in range(n)]
    options = legal_encodings(raws, w, extra_widths=(rnd.randint(min(w, 63), 63), 63))
    options = [(b, nd) for b, nd in options if nd <= 63]
    base, nd = rnd.choice(options)
    check([201000 + 128 + w - 12, 4001, 201000], [w], [(raws, base, nd)], expect=[identity],
          decoder=rnd.choice([DEC, DEC_COMPILED]))

# ---------------------------------------------------------------------------
# 3. reference value and scale: 012001 (12 bits, scale 1), 005001 (25 bits, scale 5, ref -9000000),
#    007004 (14 bits, scale -1), 004001 (12 bits, plain integer) next to a code and a flag table
# ---------------------------------------------------------------------------
TEMPLATE = [12001, 5001, 7004, 4001, 20011, 8001]
WIDTHS = [12, 25, 14, 12, 4, 7]
EXPECT = [lambda r: r / 10,
          lambda r: (r + -9000000) / 100000,
          lambda r: r / 0.1,
          identity, identity, identity]
for _ in range(80):
    n = rnd.randint(1, 25)
    jobs = []
    for w in WIDTHS:
        style = rnd.choice(['missing', 'equal', 'near', 'wide'])
        if style == 'missing':
            raws = [None] * n
        elif style == 'equal':
            raws = [rnd.randint(0, ones(w) - 1)] * n
        else:
            lo = rnd.randint(0, ones(w) - 1)
            hi = min(ones(w) - 1, lo + (rnd.randint(0, 3) if style == 'near' else ones(w)))
            raws = [rnd.choice([None, rnd.randint(lo, hi)]) for _ in range(n)]
        base, nd = rnd.choice(legal_encodings(raws, w))
        jobs.append((raws, base, nd))
    check(TEMPLATE, WIDTHS, jobs, expect=EXPECT, decoder=rnd.choice([DEC, DEC_COMPILED]))

# a plain integer stays an int, a scaled one is a float, whatever the layout
values = decode(build([4001, 12001], 2, True,
                      write_column([2000, 2001], 12, 1990, 5) + write_column([100, 100], 12, 100, 0)))[0]
assert typed(values) == [[('int', 2000), ('float', 10.0)], [('int', 2001), ('float', 10.0)]]

# ---------------------------------------------------------------------------
# 4. unit level on a real reader and state
# ---------------------------------------------------------------------------
class FakeDescriptor(object):
    id = 2003
    nbits = 4

    def __str__(self):
        return '002003'


def unit(method_name, n, bits, *args):
    bits += '0' * (-len(bits) % 8)
    reader = get_bit_reader(bytes(int(bits[i:i + 8], 2) for i in range(0, len(bits), 8)))
    state = CoderState(True, n)
    descriptor = FakeDescriptor()
    error = None
    try:
        result = getattr(DEC, method_name)(state, reader, descriptor, *args)
        assert result is None
    except Exception as e:
        error = e
    assert state.decoded_descriptors == [descriptor]
    return state.decoded_values_all_subsets, reader.get_pos(), error


NUM = 'process_numeric_compressed'
CF = 'process_codeflag_compressed'
# all missing / all equal
assert unit(NUM, 3, '1111' + '000000', 4, 1, 0) == ([[None], [None], [None]], 10, None)
assert unit(NUM, 2, '0101' + '000000', 4, 10, -3)[:2] == ([[0.2], [0.2]], 10)
assert unit(CF, 2, '0101' + '000000', 4)[:2] == ([[5], [5]], 10)
assert unit(CF, 2, '1111' + '000000', 4)[:2] == ([[None], [None]], 10)
# one-bit increments: 1 is missing, 0 is the base
assert unit(NUM, 3, '0101' + '000001' + '010', 4, 1, 0)[:2] == ([[5], [None], [5]], 13)
assert unit(CF, 3, '0101' + '000001' + '101', 4)[:2] == ([[None], [5], [None]], 13)
# two-bit increments: 3 is missing, 1 is a value
assert unit(NUM, 3, '0101' + '000010' + '011100', 4, 1, 0)[:2] == ([[6], [None], [5]], 16)
assert unit(CF, 3, '0101' + '000010' + '011100', 4)[:2] == ([[6], [None], [5]], 16)
# reference value and scale on base + increment; value 0 with a reference value
assert unit(NUM, 2, '0000' + '000010' + '0010', 4, 10, -5)[:2] == ([[-0.5], [-0.3]], 14)
assert unit(NUM, 2, '0000' + '000010' + '0010', 4, 1, -5)[:2] == ([[-5], [-3]], 14)
assert typed(unit(NUM, 2, '0000' + '000010' + '0010', 4, 1, 0)[0]) == [[('int', 0)], [('int', 2)]]
# code table: base + increment that adds up to all ones of the field is missing, for a numeric it is not
assert unit(CF, 2, '1100' + '000010' + '0001', 4)[:2] == ([[12], [13]], 14)
assert unit(CF, 2, '1100' + '000011' + '011000', 4)[:2] == ([[None], [12]], 16)
assert unit(NUM, 2, '1100' + '000011' + '011000', 4, 1, 0)[:2] == ([[15], [12]], 16)
# one-bit field: never missing
assert unit(NUM, 2, '1' + '000000', 1, 1, 0)[:2] == ([[1], [1]], 7)

# errors
values, pos, error = unit(NUM, 2, '1111' + '000010' + '0101', 4, 1, 0)
assert type(error) is PyBufrKitError and values == [[], []] and pos == 10
assert 'nbits_diff must be zero' in str(error) and error.message.startswith('002003: nbits_diff')
values, pos, error = unit(CF, 2, '1111' + '000010' + '0101', 4)
assert type(error) is PyBufrKitError and values == [[], []] and pos == 10
assert 'nbits_diff must be zero' in str(error) and error.message.startswith('002003: nbits_diff')
# running out of bits in the middle of the increments: earlier subsets are already stored
values, pos, error = unit(NUM, 3, '0101' + '000111' + '0000001' + '0000010', 4, 1, 0)     # 24 bits, 3rd missing
assert type(error) is BitReadError and isinstance(error, PyBufrKitError)
assert values == [[6], [7], []] and pos == 24
values, pos, error = unit(CF, 3, '0101' + '000111' + '0000001' + '0000010', 4)
assert type(error) is BitReadError and values == [[6], [7], []] and pos == 24
# a zero scale factor
values, pos, error = unit(NUM, 2, '0101' + '000000', 4, 0, 0)
assert type(error) is ZeroDivisionError and values == [[], []]
values, pos, error = unit(NUM, 2, '0101' + '000010' + '0001', 4, 0, 0)
assert type(error) is ZeroDivisionError and values == [[], []] and pos == 12


# through the public entry point
def error_of(data):
    try:
        decode(data)
    except Exception as e:
        return type(e).__name__
    return None


assert error_of(build([2003], 2, True, '1111' + '000011' + '000000')) == 'PyBufrKitError'
assert error_of(build([4001], 2, True, ub(ones(12), 12) + '000011' + '000000')) == 'PyBufrKitError'
assert error_of(build([4001], 3, True, ub(7, 12) + ub(32, 6) + ub(1, 32))) == 'BitReadError'
assert error_of(build([2003], 3, True, '0001' + ub(20, 6) + ub(1, 20))) == 'BitReadError'
assert error_of(build([4001], 3, True, ub(7, 12) + ub(32, 6) + ub(1, 32) + ub(2, 32) + ub(3, 32))) is None

print('demo 3 OK')
