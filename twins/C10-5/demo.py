import os, sys; sys.path.insert(0, os.getcwd())
"""
Differential demonstration for refactor 5 (the column of a compressed message
as a named tuple; Encoder._next_compressed_column and its five callers).

Everything is observed through the public behaviour

    Encoder().process(json).serialized_bytes
    Decoder().process(Encoder().process(msg.subset(I)).serialized_bytes)

so the script runs unchanged before and after the patch.  The expected data
sections of the hand built messages are produced by a small bit packer written
here, which does not use any code of pybufrkit.
"""
import glob

import pybufrkit
from pybufrkit.decoder import Decoder
from pybufrkit.encoder import Encoder

assert os.path.dirname(os.path.dirname(os.path.abspath(pybufrkit.__file__))) == os.getcwd(), pybufrkit.__file__

DEC = Decoder()
ENC = Encoder()
ENC_COMPILED = Encoder(compiled_template_cache_max=8)

N_CHECKS = [0]


def check(cond, what):
    N_CHECKS[0] += 1
    if not cond:
        print('FAIL: ' + what)
        sys.exit(1)


# ---------------------------------------------------------------------------
# An independent packer of the data section of a compressed message
# ---------------------------------------------------------------------------
def ones(n):
    return (1 << n) - 1


def ubits(v, n):
    assert 0 <= v < (1 << n), (v, n)
    return format(v, 'b').zfill(n)


def width_of_increments(span):
    # The width the library chooses for increments 0..span: the smallest one in
    # which span + 1 is still below the all-ones pattern.
    n = 1
    while ones(n) <= span + 1:
        n += 1
    return n


def sbytes(v, nbytes):
    if v is None:
        return '1' * (8 * nbytes)
    if isinstance(v, bytes):
        v = v.decode('latin-1')
    v = (v + ' ' * nbytes)[:nbytes]
    return ''.join(ubits(ord(c), 8) for c in v)


def pack_integers(raw, uniform, nbits):
    if uniform:
        return ubits(ones(nbits) if raw[0] is None else raw[0], nbits) + ubits(0, 6)
    present = [x for x in raw if x is not None]
    lo, hi = min(present), max(present)
    n = width_of_increments(hi - lo)
    return (ubits(lo, nbits) + ubits(n, 6) +
            ''.join(ubits(ones(n) if x is None else x - lo, n) for x in raw))


def pack_compressed(specs, rows, n_declared):
    """
    specs: one entry per value of a subset, in template order
        ('num', nbits, scale, refval) refval may be ('col', k): value of column k
        ('code', nbits) / ('str', nbytes) / ('newref', nbits) / ('const',)
    """
    out = []
    for k, spec in enumerate(specs):
        col = [row[k] for row in rows]
        uniform = len(col) == n_declared and all(c == col[0] for c in col)
        kind = spec[0]
        if kind == 'const':
            continue
        if kind == 'newref':
            v = col[0]
            out.append(('1' if v < 0 else '0') + ubits(abs(v), spec[1] - 1) + ubits(0, 6))
        elif kind == 'str':
            nbytes = spec[1]
            if uniform:
                out.append(sbytes(col[0], nbytes) + ubits(0, 6))
            else:
                out.append('0' * (8 * nbytes) + ubits(nbytes, 6) + ''.join(sbytes(c, nbytes) for c in col))
        elif kind == 'code':
            out.append(pack_integers(col, uniform, spec[1]))
        else:
            _, nbits, scale, refval = spec
            if isinstance(refval, tuple):
                refval = rows[0][refval[1]]
            raw = [None if c is None else int(round(c * 10.0 ** scale)) - refval for c in col]
            out.append(pack_integers(raw, uniform, nbits))
    return ''.join(out)


def section4_of_edition4(payload_bits):
    payload_bits += '0' * (-len(payload_bits) % 8)
    body = bytes(int(payload_bits[i:i + 8], 2) for i in range(0, len(payload_bits), 8))
    return (4 + len(body)).to_bytes(3, 'big') + b'\x00' + body


def split_sections(b):
    """Sections of an edition 4 message without optional section, by their declared lengths."""
    assert b[:4] == b'BUFR' and b[7] == 4 and int.from_bytes(b[4:7], 'big') == len(b)
    pos, secs = 8, {0: b[:8]}
    for k in (1, 3, 4):
        n = int.from_bytes(b[pos:pos + 3], 'big')
        secs[k] = b[pos:pos + n]
        pos += n
    secs[5] = b[pos:]
    assert secs[5] == b'7777'
    return secs


# ---------------------------------------------------------------------------
# Hand built messages
# ---------------------------------------------------------------------------
SEC1 = [0, 0, 1, 0, 0, False, '0000000', 2, 4, 0, 18, 0, 2016, 2, 18, 23, 0, 0]


def message(descriptors, rows, n_declared=None, compressed=True):
    n = len(rows) if n_declared is None else n_declared
    return [['BUFR', 0, 4], list(SEC1),
            [0, '00000000', n, True, compressed, '000000', list(descriptors)],
            [0, '00000000', [list(r) for r in rows]],
            ['7777']]


# 001001 numeric 7 bits; 001015 string of 20 bytes; 002001 code of 2 bits;
# 012001 numeric 12 bits, scale 1; 203014 defines a new reference value of 14
# bits for 012001; 222000 + 236000 define a bitmap of four bits on the last four
# elements; two of them get a 033007 (numeric, 7 bits).
BIG = [1001, 1015, 2001, 12001,
       203014, 12001, 203255, 12001, 203000,
       222000, 236000, 101004, 31031, 1031, 1032, 101002, 33007]
BIG_SPECS = [('num', 7, 0, 0), ('str', 20), ('code', 2), ('num', 12, 1, 0),
             ('newref', 14), ('num', 12, 1, ('col', 4)),
             ('const',), ('const',),
             ('code', 1), ('code', 1), ('code', 1), ('code', 1),
             ('code', 16), ('code', 8),
             ('num', 7, 0, 0), ('num', 7, 0, 0)]

BIG_VARIANTS = {
    # every column kind in its three states: all equal / all missing / different
    'mixed-1': [
        [7, 'ALPHA', None, 250.5, -100, 10.0, 0, 0, 0, 1, 0, 1, 74, 3, 50, None],
        [7, None, None, None, -100, 12.5, 0, 0, 0, 1, 0, 1, 98, 3, None, None],
        [7, 'GAMMA STATION', None, 300.1, -100, None, 0, 0, 0, 1, 0, 1, None, 3, 70, None],
    ],
    'mixed-2': [
        [None, 'SAME NAME', 1, 273.1, 8191, 900.0, 0, 0, 1, 0, 0, 1, 7, None, 1, 99],
        [None, 'SAME NAME', None, 273.1, 8191, 900.0, 0, 0, 1, 0, 0, 1, 7, None, 1, 99],
        [None, 'SAME NAME', 2, 273.1, 8191, 900.0, 0, 0, 1, 0, 0, 1, 7, None, 1, 99],
        [None, 'SAME NAME', 0, 273.1, 8191, 900.0, 0, 0, 1, 0, 0, 1, 7, None, 1, 99],
    ],
    'mixed-3': [
        [1, None, 0, None, 0, None, 0, 0, 0, 0, 1, 1, 1, 1, None, 5],
        [127 - 1, None, 0, None, 0, None, 0, 0, 0, 0, 1, 1, 65534, 254, None, 6],
    ],
    'single': [
        [99, 'ONE', 2, 1.5, -8191, -800.0, 0, 0, 1, 1, 0, 0, 1, 2, 3, 4],
    ],
}


def norm(v):
    # FM 94 identifies the all-ones pattern of a field with "missing"
    if isinstance(v, bytes):
        if v and v == b'\xff' * len(v):
            return None
        v = v.decode('latin-1')
    if isinstance(v, str):
        return v.rstrip(' ')
    if v is None:
        return None
    return round(float(v), 6)


def norm_rows(rows):
    return [[norm(v) for v in row] for row in rows]


def string_widths(rows, specs):
    # a string longer than its field is cut by the writer; none is in this demo
    for row in rows:
        for v, spec in zip(row, specs):
            if spec[0] == 'str' and v is not None:
                assert len(v) <= spec[1]


def check_hand_built(name, descriptors, specs, rows, n_declared=None):
    string_widths(rows, specs)
    n = len(rows) if n_declared is None else n_declared
    expected = section4_of_edition4(pack_compressed(specs, rows, n))
    for label, enc in (('plain', ENC), ('compiled', ENC_COMPILED)):
        m = enc.process(message(descriptors, rows, n_declared))
        secs = split_sections(m.serialized_bytes)
        check(secs[4] == expected, '{} [{}]: data section differs from the independent packing\n {}\n {}'.format(
            name, label, secs[4].hex(), expected.hex()))
    return m.serialized_bytes


def test_hand_built_columns():
    for name, rows in sorted(BIG_VARIANTS.items()):
        b = check_hand_built(name, BIG, BIG_SPECS, rows)
        m = DEC.process(b)
        check(m.n_subsets.value == len(rows) and m.is_compressed.value is True, name + ': header')
        got = m.template_data.value.decoded_values_all_subsets
        check(norm_rows(got) == norm_rows(rows), '{}: decoded values\n {}\n {}'.format(name, got, rows))

        # the property itself on the hand built message: the reduced columns are packed again
        n = len(rows)
        collections = [[0], [n - 1], list(range(n)), list(range(n - 1, -1, -1)) + [0], (n - 1, 0, n - 1), {0, n // 2}]
        for indices in collections:
            keep = sorted(set(indices))
            before = repr(m.template_data.value.decoded_values_all_subsets)
            data = m.subset(indices)
            out = ENC.process(data)
            secs = split_sections(out.serialized_bytes)
            expected = section4_of_edition4(pack_compressed(BIG_SPECS, [rows[i] for i in keep], len(keep)))
            check(secs[4] == expected, '{} subset {}: data section'.format(name, indices))
            check(secs[1] == split_sections(b)[1], '{} subset {}: identification section'.format(name, indices))
            back = DEC.process(out.serialized_bytes)
            check(back.n_subsets.value == len(keep), '{} subset {}: count'.format(name, indices))
            check(back.is_compressed.value is True, '{} subset {}: flag'.format(name, indices))
            check(back.unexpanded_descriptors.value == BIG, '{} subset {}: template'.format(name, indices))
            check(norm_rows(back.template_data.value.decoded_values_all_subsets) ==
                  norm_rows([rows[i] for i in keep]), '{} subset {}: values'.format(name, indices))
            check(repr(m.template_data.value.decoded_values_all_subsets) == before, name + ': source modified')
        for bad in ([n], [0, n], [-1], [-1, 0]):
            try:
                m.subset(bad)
            except pybufrkit.errors.PyBufrKitError:
                check(True, '')
            else:
                check(False, '{}: subset {} accepted'.format(name, bad))


def test_declared_count_differs_from_rows():
    # The "all equal" test is made against the declared number of subsets, not
    # against the number of rows: with 3 declared and 2 equal rows present, the
    # columns are written in the "different" form.
    descriptors, specs = [1001, 1015, 2001], [('num', 7, 0, 0), ('str', 20), ('code', 2)]
    rows = [[5, 'TWIN', 1], [5, 'TWIN', 1]]
    check_hand_built('declared-3-rows-2', descriptors, specs, rows, n_declared=3)
    rows = [[5, 'TWIN', 1], [6, None, None]]
    check_hand_built('declared-3-rows-2-different', descriptors, specs, rows, n_declared=3)
    # ... and the two asserting callers refuse such a message
    expect_error('new refval, declared 3 rows 2', AssertionError, 'New reference values must be identical',
                 message([203014, 12001, 203255, 12001], [[-5, 1.0], [-5, 1.0]], n_declared=3))
    expect_error('constant, declared 3 rows 2', AssertionError, 'Value for must be 0',
                 message(BIG[:4] + BIG[9:], [[5, 'A', 1, 1.0, 0, 0, 0, 1, 0, 1, 3, 4, 5, 6]] * 2, n_declared=3))
    # a column that is missing everywhere is then not recognised as "all missing" either
    check_hand_built('declared-3-rows-2-missing-string', [1015], [('str', 20)], [[None], [None]], n_declared=3)
    for descriptors in ([1001], [2001]):
        expect_error('declared 3 rows 2, missing {}'.format(descriptors), TypeError, 'unsupported operand',
                     message(descriptors, [[None], [None]], n_declared=3))


def expect_error(name, exc_type, text, json_data):
    for label, enc in (('plain', ENC), ('compiled', ENC_COMPILED)):
        try:
            enc.process(json_data)
        except BaseException as e:
            check(type(e) is exc_type, '{} [{}]: raised {!r} instead of {}'.format(name, label, e, exc_type.__name__))
            check(text in str(e), '{} [{}]: message {!r}'.format(name, label, str(e)))
        else:
            check(False, '{} [{}]: no error'.format(name, label))


def test_errors():
    def variant(col, values):
        rows = [list(r) for r in BIG_VARIANTS['mixed-1']]
        for row, v in zip(rows, values):
            row[col] = v
        return message(BIG, rows)

    expect_error('new refval differs', AssertionError, 'New reference values must be identical',
                 variant(4, [-100, -100, -99]))
    expect_error('new refval missing in one', AssertionError, 'New reference values must be identical',
                 variant(4, [-100, None, -100]))
    expect_error('new refval missing in all', AssertionError, 'New reference value cannot be missing',
                 variant(4, [None, None, None]))
    expect_error('222000 is 1 everywhere', AssertionError, 'Value for must be 0', variant(6, [1, 1, 1]))
    expect_error('222000 differs', AssertionError, 'Value for must be 0', variant(6, [0, 0, 1]))
    expect_error('222000 missing', AssertionError, 'Value for must be 0', variant(6, [None, None, None]))
    expect_error('236000 differs', AssertionError, 'Value for must be 0', variant(7, [0, 1, 0]))
    # no subset at all: there is no first value to compare with
    expect_error('no subset', IndexError, 'list index out of range', message([1001, 2001], []))
    # a row that is too short
    expect_error('short row', IndexError, 'list index out of range', message([1001, 2001], [[1, 2], [1]]))
    for descriptors in ([1015], [2001], [203014, 12001, 203255], [222000]):
        expect_error('no subset {}'.format(descriptors), IndexError, 'list index out of range',
                     message(descriptors, []))


# ---------------------------------------------------------------------------
# The sample corpus
# ---------------------------------------------------------------------------
def index_collections(n):
    yield [0]
    if n > 1:
        yield [n - 1]
        yield list(range(n))
        yield [n - 1, 0, n - 1, n // 2]
        yield tuple(range(n - 1, -1, -2))
    if n > 3:
        yield {1, n - 2}


def test_corpus():
    for path in sorted(glob.glob('tests/data/*.bufr')):
        name = os.path.basename(path)
        if name in ('prepbufr.bufr', 'multi_invalid_messages.bufr'):
            continue  # need tables that are not shipped / not a single valid message
        with open(path, 'rb') as ins:
            src = DEC.process(ins.read())
        n = src.n_subsets.value
        rows = src.template_data.value.decoded_values_all_subsets
        snapshot = repr(rows)
        sec1 = [(p.name, p.value) for p in src.sections[1] if p.name != 'section_length']
        for indices in index_collections(n):
            keep = sorted(set(indices))
            out = DEC.process(ENC.process(src.subset(indices)).serialized_bytes)
            what = '{} subset {}'.format(name, indices if len(keep) < 9 else '({} indices)'.format(len(keep)))
            check(out.n_subsets.value == len(keep), what + ': count')
            check(out.is_compressed.value == src.is_compressed.value, what + ': compression flag')
            check(out.unexpanded_descriptors.value == src.unexpanded_descriptors.value, what + ': template')
            check([(p.name, p.value) for p in out.sections[1] if p.name != 'section_length'] == sec1,
                  what + ': identification')
            got = out.template_data.value.decoded_values_all_subsets
            check(len(got) == len(keep), what + ': rows')
            for row, i in zip(got, keep):
                check(row == rows[i], what + ': values of subset {}'.format(i))
            check(repr(rows) == snapshot, what + ': source modified')
        for bad in ([n], [-1]):
            try:
                src.subset(bad)
            except pybufrkit.errors.PyBufrKitError:
                check(True, '')
            else:
                check(False, '{}: subset {} accepted'.format(name, bad))


if __name__ == '__main__':
    import pybufrkit.errors
    test_hand_built_columns()
    test_declared_count_differs_from_rows()
    test_errors()
    test_corpus()
    print('OK ({} checks)'.format(N_CHECKS[0]))
