import os, sys; sys.path.insert(0, os.getcwd())
"""
Differential demonstration for refactor 7 (query_compressed_data / query_uncompressed_data on one
collecting loop, process_one_subset, QueryResult accessors).

Everything the library returns is compared with a reference that is computed here, independently of
pybufrkit.dataquery:

* the selected subsets: evaluated from the selector by hand (slice.indices),
* child / attribute paths: evaluated over the nested JSON rendering of the message,
* bare IDs of ordinary elements: read from the flat descriptors / values of each subset,
* flat results: flattened here,
* error behaviour: which exception type comes out for which combination of data layout (compressed or
  not), selector (empty, in range, out of range) and path (fine, failing while nodes are filtered,
  failing while values are created).

Run from the worktree root: /venv/bin/python _out/7/demo.py
"""
import json
import logging

from pybufrkit.decoder import Decoder
from pybufrkit.encoder import Encoder
from pybufrkit.renderer import FlatJsonRenderer, NestedJsonRenderer
from pybufrkit.dataquery import DataQuerent, NodePathParser, QueryResult
from pybufrkit.errors import QueryError
from pybufrkit.utils import JSON_DUMPS_KWARGS

logging.disable(logging.CRITICAL)

DATA_DIR = os.path.join('tests', 'data')
decoder = Decoder()
querent = DataQuerent(NodePathParser())
n_checks = [0]


def check(cond, *what):
    n_checks[0] += 1
    if not cond:
        print('MISMATCH', *what)
        sys.exit(1)


def decode_file(name):
    with open(os.path.join(DATA_DIR, name), 'rb') as ins:
        return decoder.process(ins.read())


_FLAT = json.loads(json.dumps(FlatJsonRenderer().render(decode_file('contrived.bufr')), **JSON_DUMPS_KWARGS))


def build(descriptors, subsets, compressed):
    """Encode and decode a message made by hand (sections 0, 1 and 5 taken from contrived.bufr)."""
    sections = json.loads(json.dumps(_FLAT))
    sections[2][2] = len(subsets)
    sections[2][4] = compressed
    sections[2][6] = descriptors
    sections[3][2] = subsets
    return decoder.process(Encoder().process(json.dumps(sections)).serialized_bytes)


# ---------------------------------------------------------------------------------------------------
# Reference
# ---------------------------------------------------------------------------------------------------
class RefError(Exception):
    pass


def ref_select(n_subsets, selector):
    """selector: None (all), int, or (start, stop, step)"""
    if selector is None:
        return list(range(n_subsets))
    if isinstance(selector, int):
        return [selector]
    return [i for i in range(*slice(*selector).indices(n_subsets))]


def selector_str(selector):
    if selector is None:
        return ''
    if isinstance(selector, int):
        return '@[{}]'.format(selector)
    return '@[{}]'.format(':'.join('' if x is None else str(x) for x in selector))


def step_str(step):
    sep, id_, slc = step
    if slc is None:
        return sep + id_
    if isinstance(slc, int):
        return '{}{}[{}]'.format(sep, id_, slc)
    return '{}{}[{}]'.format(sep, id_, ':'.join('' if x is None else str(x) for x in slc))


def is_replication(jnode):
    return jnode['id'][0] == '1' and 'value' not in jnode and 'members' in jnode


def ref_pick(jnodes, step):
    """The matches the slice selects, in document order (whatever the direction of the slice)."""
    sep, id_, slc = step
    positions = [k for k, n in enumerate(jnodes) if n['id'] == id_]
    if slc is None:
        chosen = positions
    elif isinstance(slc, int):
        if slc >= 0:
            chosen = [positions[slc]] if slc < len(positions) else []
        else:
            chosen = positions[slice(slc, slc + 1 if slc != -1 else None)]
    else:
        chosen = positions[slice(*slc)]
    return [jnodes[k] for k in sorted(chosen)]


def ref_eval(jnodes, steps):
    """Evaluate the steps over a list of JSON nodes; returns the nested list of values."""
    picked = ref_pick(jnodes, steps[0])
    if len(steps) == 1:
        out = []
        for n in picked:
            if 'value' not in n:
                raise RefError('valueless')
            out.append(n['value'])
        return out
    out = []
    for n in picked:
        out += ref_sub(n, steps[1:])
    return out


def ref_sub(jnode, steps):
    sep = steps[0][0]
    if sep == '/':
        if 'members' not in jnode:
            raise RefError('no child nodes')
        if is_replication(jnode):
            envelope = []
            for repetition in jnode['members']:
                r = ref_eval(repetition, steps)
                if r:
                    envelope.append(r)
            return [envelope] if envelope else []
        return ref_eval(jnode['members'], steps)
    else:
        if 'attributes' not in jnode and 'factor' not in jnode:
            raise RefError('no attribute nodes')
        candidates = ([jnode['factor']] if 'factor' in jnode else []) + jnode.get('attributes', [])
        return ref_eval(candidates, steps)


def ref_flatten(values):
    out = []
    stack = [iter(values)]
    while stack:
        for v in stack[-1]:
            if isinstance(v, list):
                stack.append(iter(v))
                break
            out.append(v)
        else:
            stack.pop()
    return out


# ---------------------------------------------------------------------------------------------------
# Path enumeration over the nested JSON
# ---------------------------------------------------------------------------------------------------
def id_paths(jnodes, depth, prefix=(), out=None):
    """All distinct sequences of (separator, id) that exist in the structure, up to the given depth."""
    if out is None:
        out = OrderedSet()
    for n in jnodes:
        p = prefix + (('/', n['id']),)
        walk_node(n, p, depth, out)
    return out


def walk_node(n, p, depth, out):
    out.add(p)
    if len(p) >= depth:
        return
    if 'members' in n:
        if is_replication(n):
            for repetition in n['members']:
                for m in repetition:
                    walk_node(m, p + (('/', m['id']),), depth, out)
        else:
            for m in n['members']:
                walk_node(m, p + (('/', m['id']),), depth, out)
    if 'factor' in n:
        walk_node(n['factor'], p + (('.', n['factor']['id']),), depth, out)
    for a in n.get('attributes', []):
        walk_node(a, p + (('.', a['id']),), depth, out)


class OrderedSet(object):
    def __init__(self):
        self.d = {}
        self.items = []

    def add(self, x):
        if x not in self.d:
            self.d[x] = True
            self.items.append(x)


SLICE_VARIANTS = [
    lambda p: [s + (None,) for s in p],
    lambda p: [s + (None,) for s in p[:-1]] + [p[-1] + (0,)],
    lambda p: [s + (None,) for s in p[:-1]] + [p[-1] + (-1,)],
    lambda p: [s + (None,) for s in p[:-1]] + [p[-1] + ((None, None, 2),)],
    lambda p: [p[0] + ((1, None, None),)] + [s + (None,) for s in p[1:]],
    lambda p: [s + (1,) for s in p[:1]] + [s + (None,) for s in p[1:-1]] + ([p[-1] + ((None, -1, None),)] if len(p) > 1 else []),
    lambda p: [s + ((None, None, -1),) for s in p],
]

SELECTORS = [None, 0, 1, (1, None, None), (None, None, 2), (-1, None, None), (None, None, -1),
             (-2, None, None), (5, 2, None), (0, 1, None)]


def expected_outcome(jsubsets, indices, steps):
    """('ok', [values per subset]) or ('err', RefError)"""
    out = []
    for i in indices:
        out.append(ref_eval(jsubsets[i], steps))
    return out


def compare_query(name, msg, jsubsets, selector, steps):
    n_subsets = len(jsubsets)
    expr = selector_str(selector) + ''.join(step_str(s) for s in steps)
    indices = ref_select(n_subsets, selector)
    if any(i >= n_subsets for i in indices):
        return  # out of range selectors are looked at separately
    try:
        expected = expected_outcome(jsubsets, indices, steps)
    except RefError:
        expected = RefError
    try:
        result = querent.query(msg, expr)
    except QueryError:
        result = RefError
    if expected is RefError or result is RefError:
        # With compressed data and nothing selected the library still filters the shared node
        # tree, so that a path through a node without children fails there although the reference
        # has no subset to fail in: that case is pinned down in error_behaviour().
        if not (msg.is_compressed.value and not indices):
            check(expected is result, name, expr, 'error', expected, result)
        return
    check(isinstance(result, QueryResult), name, expr, 'type')
    check(result.path_expr == expr, name, expr, 'path_expr')
    check(result.n_subsets == n_subsets, name, expr, 'n_subsets')
    check(result.subset_indices() == indices, name, expr, 'subset_indices', result.subset_indices(), indices)
    check(result.all_values() == expected, name, expr, 'all_values', result.all_values(), expected)
    check(result.all_values(flat=True) == [ref_flatten(v) for v in expected], name, expr, 'all_values flat')
    check(list(result.results.keys()) == indices, name, expr, 'results keys')
    for i, v in zip(indices, expected):
        check(result.get_values(i) == v, name, expr, 'get_values', i)
        check(result.get_values(i, flat=True) == ref_flatten(v), name, expr, 'get_values flat', i)
    # accessors hand out fresh outer lists, the per-subset lists themselves when not flat
    a1, a2 = result.all_values(), result.all_values()
    check(a1 is not a2 and all(x is y for x, y in zip(a1, a2)), name, expr, 'identity of all_values')
    for i in indices:
        check(result.get_values(i) is result.results[i], name, expr, 'identity of get_values')


def compare_bare_ids(name, msg, selector, max_ids=12):
    """Bare ID of an ordinary element = every value carrying that ID in the flat data, per subset."""
    td = msg.template_data.value
    n_subsets = td.n_subsets
    indices = ref_select(n_subsets, selector)
    # ordinary: never present as an attribute or a replication factor in the nested JSON
    attached = set()

    def collect(jnodes):
        for n in jnodes:
            for a in n.get('attributes', []):
                attached.add(a['id'])
                collect([a])
            if 'factor' in n:
                attached.add(n['factor']['id'])  # reached by an attribute step as well
                collect([n['factor']])
            if 'members' in n:
                if is_replication(n):
                    for repetition in n['members']:
                        collect(repetition)
                else:
                    collect(n['members'])

    jsubsets = NestedJsonRenderer().render(td)
    for js in jsubsets:
        collect(js)
    ids = []
    for d in td.decoded_descriptors_all_subsets[0]:
        s = str(d)
        if s[0] == '0' and s not in attached and s not in ids:
            ids.append(s)
    for id_ in ids[:max_ids]:
        # the bare form is the descendant step; after a selector the separator has to be written
        expr = id_ if selector is None else selector_str(selector) + '>' + id_
        result = querent.query(msg, expr)
        expected = [
            [v for d, v in zip(td.decoded_descriptors_all_subsets[i], td.decoded_values_all_subsets[i]) if str(d) == id_]
            for i in indices
        ]
        check(result.subset_indices() == indices, name, expr, 'bare subset_indices')
        check(result.all_values(flat=True) == expected, name, expr, 'bare values', result.all_values(flat=True), expected)
        check([result.get_values(i, flat=True) for i in indices] == expected, name, expr, 'bare get_values')


def sweep(name, msg, depth=5, max_paths=70):
    jsubsets = NestedJsonRenderer().render(msg.template_data.value)
    check(json.loads(json.dumps(jsubsets, **JSON_DUMPS_KWARGS)) is not None, name, 'json')
    paths = OrderedSet()
    for js in (jsubsets[:1] if msg.is_compressed.value else jsubsets):
        for p in id_paths(js, depth).items:
            paths.add(p)
    paths = paths.items
    if len(paths) > max_paths:
        stride = len(paths) // max_paths + 1
        paths = paths[::stride] + paths[-5:]
    for k, p in enumerate(paths):
        for j, variant in enumerate(SLICE_VARIANTS):
            steps = variant(p)
            # all selectors for some of the paths, two rotating ones for the others
            selectors = SELECTORS if (k % 7 == 0 and j < 2) else [SELECTORS[(k + j) % len(SELECTORS)], None]
            for selector in selectors:
                compare_query(name, msg, jsubsets, selector, steps)
    for selector in SELECTORS:
        if not any(i >= len(jsubsets) for i in ref_select(len(jsubsets), selector)):
            compare_bare_ids(name, msg, selector)


def outcome(msg, expr):
    try:
        r = querent.query(msg, expr)
        return ('ok', r.subset_indices(), r.all_values())
    except Exception as e:
        return (type(e).__name__,)


def error_behaviour(plain, compressed):
    """
    plain / compressed: the same three subsets [301001, 101000 31001 008002, 103002 008002 020011 020011]
    stored uncompressed / compressed.
    """
    fails_in_filter = '/301001/001001/001002'   # 001001 has no child nodes: fails while nodes are filtered
    fails_in_values = '/103002'                 # matches a node without value: fails while values are created
    fine = '/103002/020011[1]'

    for msg in (plain, compressed):
        check(outcome(msg, fine) == ('ok', [0, 1, 2], [[[[3], [6]]], [[[9], [12]]], [[[3], [6]]]]), 'fine')
        check(outcome(msg, '@[2]' + fine) == ('ok', [2], [[[[3], [6]]]]), 'fine @[2]')
        check(outcome(msg, '@[::-2]' + fine) == ('ok', [2, 0], [[[[3], [6]]], [[[3], [6]]]]), 'fine reversed')
        check(outcome(msg, fails_in_filter) == ('QueryError',), 'filter error')
        check(outcome(msg, fails_in_values) == ('QueryError',), 'values error')
        check(outcome(msg, '@[1]' + fails_in_values) == ('QueryError',), 'values error @[1]')
        # out of range subset (an int selector is used as it is)
        check(outcome(msg, '@[3]' + fine) == ('IndexError',), 'out of range')
        check(outcome(msg, '@[3]' + fails_in_values) == ('IndexError',), 'out of range, values error')
        # nothing selected: values are never created
        check(outcome(msg, '@[5:2]' + fine) == ('ok', [], []), 'nothing selected')
        check(outcome(msg, '@[5:2]' + fails_in_values) == ('ok', [], []), 'nothing selected, values error')

    # The one node tree of compressed data is filtered first and in any case; the trees of
    # uncompressed data are filtered subset by subset after the values of the subset were fetched.
    check(outcome(compressed, '@[5:2]' + fails_in_filter) == ('QueryError',), 'compressed, nothing selected')
    check(outcome(plain, '@[5:2]' + fails_in_filter) == ('ok', [], []), 'plain, nothing selected')
    check(outcome(compressed, '@[3]' + fails_in_filter) == ('QueryError',), 'compressed, out of range')
    check(outcome(plain, '@[3]' + fails_in_filter) == ('IndexError',), 'plain, out of range')

    # The drivers themselves, called the way query() calls them
    node_path = NodePathParser().parse(fine)
    for msg, driver in ((plain, querent.query_uncompressed_data), (compressed, querent.query_compressed_data)):
        td = msg.template_data.value
        r = driver(td, node_path, [2, 0, 2])
        check(type(r) is QueryResult and r.path_expr == '' and not hasattr(r, 'n_subsets'), 'driver result')
        check(r.subset_indices() == [2, 0], 'driver indices')
        check(r.all_values() == [[[[3], [6]]], [[[3], [6]]]], 'driver values')
        nodes = querent.process_one_subset(td.decoded_nodes_all_subsets[1], node_path)
        check(querent.create_values_from_nodes(nodes, td.decoded_values_all_subsets[1]) == [[[9], [12]]], 'one subset')
        check([[[str(n.descriptor) for n in rep] for rep in env] for env in nodes] == [[['020011'], ['020011']]],
              'matching nodes')

    # compressed: the node tree is shared, the nodes handed out are the same objects for all subsets;
    # uncompressed: each subset has its own nodes
    seen = []
    original = querent.create_values_from_nodes

    def spy(nodes, decoded_values):
        seen.append(nodes)
        return original(nodes, decoded_values)

    for msg, shared in ((plain, False), (compressed, True)):
        del seen[:]
        querent.create_values_from_nodes = spy
        try:
            querent.query(msg, '/301001/001002')
        finally:
            del querent.create_values_from_nodes
        check(len(seen) == 3, 'one call per subset')
        check((seen[0] is seen[1] is seen[2]) == shared, 'shared nodes', shared)
        check((seen[0][0] is seen[1][0]) == shared, 'shared node objects', shared)


def query_result_object():
    r = QueryResult()
    check(r.path_expr == '' and r.subset_indices() == [] and r.all_values() == [] and r.all_values(flat=True) == [],
          'empty result')
    r = QueryResult('x')
    r.add_subset(3, [[1, [2, [3]]], 4])
    r.add_subset(1, [])
    r.add_subset(2, [[[]]])
    r.add_subset(3, [[5], 6])  # replaced in place, keeps its position
    check(r.path_expr == 'x', 'path_expr')
    check(r.subset_indices() == [3, 1, 2], 'order of insertion')
    check(r.all_values() == [[[5], 6], [], [[[]]]], 'all_values')
    check(r.all_values(flat=True) == [[5, 6], [], []], 'all_values flat')
    check(r.get_values(3) == [[5], 6] and r.get_values(3, flat=True) == [5, 6], 'get_values')
    check(r.get_values(2, True) == [] and r.get_values(1, flat=True) == [], 'get_values empty')
    flat = r.get_values(1, flat=True)
    check(flat is not r.results[1], 'flat copy')
    try:
        r.get_values(0)
        check(False, 'KeyError expected')
    except KeyError:
        check(True)
    try:
        r.get_values(0, flat=True)
        check(False, 'KeyError expected')
    except KeyError:
        check(True)
    check(isinstance(r.subset_indices(), list) and isinstance(r.all_values(), list), 'list types')


def main():
    descriptors = [301001, 101000, 31001, 8002, 103002, 8002, 20011, 20011]
    subsets = [[94, 461, 0, 1, 2, 3, 4, 5, 6], [94, 462, 0, 7, 8, 9, 10, 11, 12], [94, 463, 0, 1, 2, 3, 4, 5, 6]]
    plain = build(descriptors, subsets, False)
    compressed = build(descriptors, subsets, True)
    check(not plain.is_compressed.value and compressed.is_compressed.value, 'built')
    error_behaviour(plain, compressed)
    query_result_object()

    # uncompressed subsets of different shape: zero count in one subset only, nested delayed replications
    descriptors2 = [301001, 105000, 31001, 8002, 102000, 31001, 20011, 8002, 4001]
    uneven = build(descriptors2, [
        [1, 2,
         2,
         11, 2, 1, 21, 2, 22,
         12, 0,
         2016],
        [3, 4,
         0,
         2017],
        [5, 6,
         1,
         13, 1, 3, 23,
         2018],
    ], False)
    # compressed: the counts are the same in all subsets, one of them zero; fixed inside delayed
    descriptors3 = [301001, 101000, 31001, 8002, 104000, 31001, 8002, 102002, 20011, 8002, 4001]
    even = build(descriptors3, [
        [1, 2, 0, 2, 11, 1, 21, 2, 22, 12, 3, 23, 4, 24, 2016],
        [3, 4, 0, 2, 31, 5, 41, 6, 42, 32, 7, 43, 8, 44, 2017],
    ], True)
    check(even.is_compressed.value and not uneven.is_compressed.value, 'built 2')
    check(outcome(uneven, '/105000/102000/020011') == ('ok', [0, 1, 2], [[[[[[1], [2]]]]], [], [[[[[3]]]]]]), 'uneven')
    check(outcome(uneven, '/105000/102000.031001') == ('ok', [0, 1, 2], [[[[2], [0]]], [], [[[1]]]]), 'uneven factors')
    check(outcome(even, '@[::-1]/104000/102002/008002[-1]') ==
          ('ok', [1, 0], [[[[[[41], [42]]], [[[43], [44]]]]], [[[[[21], [22]]], [[[23], [24]]]]]]), 'even')
    check(outcome(even, '/101000/008002') == ('ok', [0, 1], [[], []]), 'zero count')

    sweep('plain', plain)
    sweep('compressed', compressed)
    sweep('uneven', uneven, depth=6)
    sweep('even', even, depth=6)
    for name, max_paths in (('contrived.bufr', 70), ('jaso_214.bufr', 40), ('207003.bufr', 40), ('g2nd_208.bufr', 30),
                            ('uegabe.bufr', 40), ('b005_89.bufr', 25), ('profiler_european.bufr', 30)):
        sweep(name, decode_file(name), max_paths=max_paths)

    print('OK: {} checks'.format(n_checks[0]))


if __name__ == '__main__':
    main()
