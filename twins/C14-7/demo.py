import os, sys; sys.path.insert(0, os.getcwd())

"""
Differential demonstration for refactor 7 (tables._fix_ncep_descriptors / BufrTableGroup.template_from_ids).

The fix is compared with a model of it written on plain nested tuples (no descriptor objects, no generator,
no in-place list surgery) and with hand written expectations. Exits 0 unpatched and patched.
"""
import pybufrkit

assert os.path.dirname(os.path.dirname(os.path.abspath(pybufrkit.__file__))) == os.getcwd(), pybufrkit.__file__

from pybufrkit import tables
from pybufrkit.tables import TableGroupCacheManager, _fix_ncep_descriptors
from pybufrkit.descriptors import (ElementDescriptor, FixedReplicationDescriptor, DelayedReplicationDescriptor,
                                   OperatorDescriptor, SequenceDescriptor, BufrTemplate, Descriptor,
                                   UndefinedElementDescriptor, UndefinedSequenceDescriptor, flat_member_ids)
from pybufrkit.decoder import Decoder, generate_bufr_message

N_CHECKS = [0]


def check(condition, what):
    N_CHECKS[0] += 1
    if not condition:
        print('FAILED: {}'.format(what))
        sys.exit(1)


# ---------------------------------------------------------------------------------------------------------------------
# Plain-data model
# ---------------------------------------------------------------------------------------------------------------------
SEQ = ('SequenceDescriptor', 'BufrTemplate')
REP = ('FixedReplicationDescriptor', 'DelayedReplicationDescriptor')


def shape(descriptor):
    """descriptor tree -> nested tuples (kind, id[, factor id], members)"""
    kind = type(descriptor).__name__
    if kind in SEQ:
        return kind, descriptor.id, shapes(descriptor.members)
    if kind in REP:
        factor = getattr(descriptor, 'factor', None)
        return kind, descriptor.id, None if factor is None else factor.id, shapes(descriptor.members)
    return kind, descriptor.id


def shapes(descriptors):
    return None if descriptors is None else tuple(shape(d) for d in descriptors)


class ModelIndexError(Exception):
    pass


class ModelAssertionError(Exception):
    pass


def model_fix(items):
    """The NCEP fix on shapes, purely functional: head / tail recursion instead of a work list."""
    if not items:
        return ()
    head, tail = items[0], tuple(items[1:])
    kind, members = head[0], head[-1]
    if kind in SEQ:
        if len(members) == 1 and members[0][0] in REP and len(members[0][-1]) == 0:
            return model_fix((members[0],) + tail)
        return (head[:-1] + (model_fix(members),),) + model_fix(tail)
    if kind in REP:
        if len(members) == 0:
            if head[1] // 1000 % 100 != 1:
                raise ModelAssertionError(head)
            if not tail:
                raise ModelIndexError(head)
            members, tail = tail[:1], tail[1:]
        return (head[:-1] + (model_fix(members),),) + model_fix(tail)
    return (head,) + model_fix(tail)


def run_model(descriptors):
    try:
        return 'ok', model_fix(shapes(descriptors))
    except ModelIndexError:
        return 'IndexError', None
    except ModelAssertionError:
        return 'AssertionError', None


def run_real(descriptors):
    try:
        ret = _fix_ncep_descriptors(descriptors)
    except IndexError:
        return 'IndexError', None
    except AssertionError:
        return 'AssertionError', None
    check(type(ret) is list, 'the fix returns a list, got {}'.format(type(ret)))
    return 'ok', shapes(ret)


def all_nodes(descriptors):
    for d in descriptors or ():
        yield d
        factor = getattr(d, 'factor', None)
        if factor is not None:
            yield factor
        for x in all_nodes(getattr(d, 'members', None)):
            yield x


# ---------------------------------------------------------------------------------------------------------------------
# Hand built descriptors (every call gives fresh objects)
# ---------------------------------------------------------------------------------------------------------------------
def E(id_, nbits=8):
    return ElementDescriptor(id_, 'NAME {}'.format(id_), 'NUMERIC', 1, -5, nbits, 'NUMERIC', 0, 3)


def O(id_):
    return OperatorDescriptor(id_)


def F(id_, *members):
    return FixedReplicationDescriptor(id_, members=list(members))


def D(id_, factor, *members):
    return DelayedReplicationDescriptor(id_, members=list(members), factor=E(factor))


def S(id_, *members):
    return SequenceDescriptor(id_, 'SEQ {}'.format(id_), list(members))


def ymd():
    return S(301011, E(4001), E(4002), E(4003))


CASES = {
    'empty list': lambda: [],
    'elements, operators, placeholders only': lambda: [
        E(1001), O(201132), E(12001), O(201000), UndefinedElementDescriptor(63255),
        UndefinedSequenceDescriptor(363255), Descriptor(77)],
    'ordinary nested sequences': lambda: [S(301001, E(1001), E(1002)), S(307001, ymd(), S(301012, E(4004), E(4005)))],
    'sequence of a lone delayed replication takes what follows': lambda: [
        E(1001), S(360001, D(101000, 31002)), E(12001), E(12002)],
    'sequence of a lone fixed replication takes a sequence': lambda: [S(360010, F(101003)), ymd(), E(12001)],
    'lone replication that has members is ordinary': lambda: [S(360011, F(101003, E(12001))), E(12002)],
    'two members, the first an empty replication: fixed inside the sequence': lambda: [
        S(360012, F(101002), E(12001)), E(12002)],
    'two members, an empty replication last: nothing left to take': lambda: [S(360013, E(12001), F(101002)), E(12002)],
    'ordinary replications recurse': lambda: [
        F(102002, E(1001), S(360001, D(101000, 31002))), E(12001)],
    'ill-defined sequence inside a replication': lambda: [
        D(103000, 31001, S(360001, D(101000, 31002)), ymd(), E(12001)), E(12002)],
    'ill-defined sequence nested in sequences': lambda: [
        S(361000, E(1001), S(361001, S(360001, D(101000, 31002)), S(361002, E(12001), E(12002)), E(12003)))],
    'top level empty replication of one item takes the next': lambda: [F(101004), E(12001), E(12002)],
    'top level empty delayed replication takes a replication': lambda: [D(101000, 31001), F(101002, E(1001)), E(2)],
    'top level empty replication, nothing follows': lambda: [E(1001), F(101004)],
    'ill-defined sequence last': lambda: [E(1001), S(360001, D(101000, 31002))],
    'empty replication of two items': lambda: [E(1001), F(102002), E(12001), E(12002)],
    'empty replication of no item': lambda: [F(100002), E(12001)],
    'empty delayed replication of three items in an ill-defined sequence': lambda: [
        S(360020, D(103000, 31001)), E(1), E(2), E(3)],
    'ill-defined sequence followed by another one': lambda: [
        S(360001, D(101000, 31002)), S(360002, D(101000, 31001)), E(12001)],
    'ill-defined sequence followed by a sequence that holds another one': lambda: [
        S(360001, D(101000, 31002)), S(361003, S(360002, D(101000, 31001)), E(12001)), E(12002)],
    'a template among the descriptors is a sequence': lambda: [
        BufrTemplate(members=[S(360001, D(101000, 31002)), E(1)]), E(2)],
    'a template of a lone empty replication': lambda: [BufrTemplate(members=[F(101002)]), E(2)],
    'empty sequence': lambda: [S(360030), E(1)],
    'replication whose member is an empty replication of one item, nothing follows inside': lambda: [
        F(101002, F(101003)), E(1)],
}

# what the cases must reach, written down by hand
HAND = {
    'empty list': ('ok', ()),
    'sequence of a lone delayed replication takes what follows': ('ok', (
        ('ElementDescriptor', 1001),
        ('DelayedReplicationDescriptor', 101000, 31002, (('ElementDescriptor', 12001),)),
        ('ElementDescriptor', 12002))),
    'sequence of a lone fixed replication takes a sequence': ('ok', (
        ('FixedReplicationDescriptor', 101003, None, (
            ('SequenceDescriptor', 301011, (('ElementDescriptor', 4001), ('ElementDescriptor', 4002),
                                            ('ElementDescriptor', 4003))),)),
        ('ElementDescriptor', 12001))),
    'two members, the first an empty replication: fixed inside the sequence': ('ok', (
        ('SequenceDescriptor', 360012, (('FixedReplicationDescriptor', 101002, None, (('ElementDescriptor', 12001),)),)),
        ('ElementDescriptor', 12002))),
    'two members, an empty replication last: nothing left to take': ('IndexError', None),
    'ill-defined sequence inside a replication': ('ok', (
        ('DelayedReplicationDescriptor', 103000, 31001, (
            ('DelayedReplicationDescriptor', 101000, 31002, (
                ('SequenceDescriptor', 301011, (('ElementDescriptor', 4001), ('ElementDescriptor', 4002),
                                                ('ElementDescriptor', 4003))),)),
            ('ElementDescriptor', 12001))),
        ('ElementDescriptor', 12002))),
    'top level empty replication of one item takes the next': ('ok', (
        ('FixedReplicationDescriptor', 101004, None, (('ElementDescriptor', 12001),)), ('ElementDescriptor', 12002))),
    'top level empty replication, nothing follows': ('IndexError', None),
    'ill-defined sequence last': ('IndexError', None),
    'empty replication of two items': ('AssertionError', None),
    'empty replication of no item': ('AssertionError', None),
    'empty delayed replication of three items in an ill-defined sequence': ('AssertionError', None),
    'ill-defined sequence followed by another one': ('IndexError', None),
    'ill-defined sequence followed by a sequence that holds another one': ('ok', (
        ('DelayedReplicationDescriptor', 101000, 31002, (
            ('SequenceDescriptor', 361003, (
                ('DelayedReplicationDescriptor', 101000, 31001, (('ElementDescriptor', 12001),)),)),)),
        ('ElementDescriptor', 12002))),
    'a template of a lone empty replication': ('ok', (
        ('FixedReplicationDescriptor', 101002, None, (('ElementDescriptor', 2),)),)),
    'empty sequence': ('ok', (('SequenceDescriptor', 360030, ()), ('ElementDescriptor', 1))),
    'replication whose member is an empty replication of one item, nothing follows inside': ('IndexError', None),
}
assert set(HAND) <= set(CASES)

outcomes = set()
for name, build in sorted(CASES.items()):
    given = build()
    top, before = list(given), shapes(given)
    originals = list(all_nodes(given))
    attributes_before = [dict(vars(d), members=None, factor=None) for d in originals]
    expected = run_model(build())
    real = run_real(given)
    outcomes.add(real[0])
    check(real == expected, '{}: {} instead of {}'.format(name, real, expected))
    if name in HAND:
        check(real == HAND[name], '{}: {} instead of the hand written {}'.format(name, real, HAND[name]))
    # the descriptors handed in are left as they were: the fix works on copies
    check(shapes(top) == before, '{}: the given descriptors are changed'.format(name))
    check([dict(vars(d), members=None, factor=None) for d in originals] == attributes_before,
          '{}: attributes of the given descriptors'.format(name))
    if real[0] == 'ok':
        check(given == [], '{}: the list handed in is consumed'.format(name))
        # fresh list and fresh copies, Table B attributes kept
        fixed = _fix_ncep_descriptors(build())
        by_identity = set(id(d) for d in originals)
        for d in all_nodes(fixed):
            check(id(d) not in by_identity, '{}: copies expected'.format(name))
            if type(d) is ElementDescriptor:
                check(d.as_list() == E(d.id).as_list() and
                      (d.crex_unit, d.crex_scale, d.crex_nchars) == ('NUMERIC', 0, 3), '{}: attributes'.format(name))
check(outcomes == {'ok', 'IndexError', 'AssertionError'}, outcomes)

# what is left of the list handed in when the fix gives up half way
pending = [E(1001), F(102002), E(12001), E(12002)]
try:
    _fix_ncep_descriptors(pending)
    check(False, 'AssertionError expected')
except AssertionError as e:
    check(str(e) == 'Fix for replication descriptor expects 1 member, got 0', str(e))
check(shapes(pending) == (('ElementDescriptor', 12001), ('ElementDescriptor', 12002)), shapes(pending))
pending = [E(1001), S(360001, D(101000, 31002))]
try:
    _fix_ncep_descriptors(pending)
    check(False, 'IndexError expected')
except IndexError:
    pass
check(pending == [], pending)

# things that are no lists of descriptors fail as before
for bad, exc in ((None, TypeError), ((E(1),), AttributeError), ([FixedReplicationDescriptor(101002)], TypeError),
                 ([SequenceDescriptor(360001, 'NO MEMBERS')], TypeError),
                 ([S(360040, DelayedReplicationDescriptor(101000))], TypeError), ([5], None)):
    try:
        ret = _fix_ncep_descriptors(bad)
        check(exc is None and ret == [5], 'no error for {!r}'.format(bad))
    except Exception as e:
        check(exc is not None and type(e) is exc, '{!r}: {!r}'.format(bad, e))

# ---------------------------------------------------------------------------------------------------------------------
# Through the table group, no extra entries: the template holds the very descriptors of the tables
# ---------------------------------------------------------------------------------------------------------------------
check(not TableGroupCacheManager.has_extra_entries(), 'no extra entries yet')
group = TableGroupCacheManager.get_table_group()
ids = (301011, 1001, 102000, 31001, 301011, 12001, 201129, 7001)
template = group.template_from_ids(*ids)
check(type(template) is BufrTemplate and type(template.members) is list, 'template')
check(template.members[0] is group.lookup(301011) and template.members[1] is group.lookup(1001), 'no copies')
check(template.members[2].members[0] is group.lookup(301011), 'no copies in replications')
check(shape(template) == ('BufrTemplate', 999999, (
    ('SequenceDescriptor', 301011, (('ElementDescriptor', 4001), ('ElementDescriptor', 4002), ('ElementDescriptor', 4003))),
    ('ElementDescriptor', 1001),
    ('DelayedReplicationDescriptor', 102000, 31001, (
        ('SequenceDescriptor', 301011, (('ElementDescriptor', 4001), ('ElementDescriptor', 4002),
                                        ('ElementDescriptor', 4003))),
        ('ElementDescriptor', 12001))),
    ('OperatorDescriptor', 201129), ('ElementDescriptor', 7001))), shape(template))
check(template.original_descriptor_ids == list(ids), template.original_descriptor_ids)
# an empty replication stays as it is when there are no extra entries
check(shape(group.template_from_ids(1001, 101002)) == ('BufrTemplate', 999999, (
    ('ElementDescriptor', 1001), ('FixedReplicationDescriptor', 101002, None, ()))), 'no fix without extra entries')
check(shape(group.template_from_ids()) == ('BufrTemplate', 999999, ()), 'empty template')

# ---------------------------------------------------------------------------------------------------------------------
# Through the table group with extra (NCEP like) entries
# ---------------------------------------------------------------------------------------------------------------------
b_entries = {'001194': ['BUFR REPORT SOURCE', 'CCITT IA5', 0, 0, 64, '', 0, 0],
             '063255': ['FILL', 'NUMERIC', 0, 0, 1, '', 0, 0]}
d_entries = {'360001': ['DRP16BIT', ['101000', '031002']],
             '360002': ['DRP8BIT', ['101000', '031001']],
             '360004': ['DRPSTAK', ['101000', '031000']],
             '360005': ['FIXED', ['101005']],
             '361001': ['HEADER', ['001194', '301011']],
             '361002': ['LEVELS', ['360001', '361003', '007001']],
             '361003': ['LEVEL', ['007004', '360004', '012001']],
             '361004': ['TWO ITEMS', ['102000', '031001']],
             '361005': ['NOT LONE', ['001194', '101000', '031001']]}
TableGroupCacheManager.invalidate()
TableGroupCacheManager.add_extra_entries(b_entries, d_entries)
try:
    check(bool(TableGroupCacheManager.has_extra_entries()), 'extra entries')
    group = TableGroupCacheManager.get_table_group()
    check(shape(group.lookup(360001)) == ('SequenceDescriptor', 360001, (
        ('DelayedReplicationDescriptor', 101000, 31002, ()),)), shape(group.lookup(360001)))

    requests = [
        (361001, 361002, 1001),
        (360001, 361001, 360002, 12001, 12002),
        (360005, 361003, 4001),
        (103000, 31001, 360002, 301011, 12001, 360004, 1194),
        (361005, 12001, 12002),
        (1001, 63255, 363255, 205008),
        (),
        (360001,),
        (361004, 12001, 12002),
        (12001, 101000, 31001),
        (360001, 360002, 12001),
    ]
    seen = set()
    for ids in requests:
        raw = group.descriptors_from_ids(*ids)
        expected = run_model(raw)
        try:
            template = group.template_from_ids(*ids)
            real = ('ok', shapes(template.members))
            check(type(template) is BufrTemplate and type(template.members) is list and template.id == 999999
                  and template.name == '', 'template')
            in_tables = set(id(d) for d in all_nodes(raw))
            check(all(id(d) not in in_tables for d in all_nodes(template.members)), 'copies of the table entries')
        except IndexError:
            real = ('IndexError', None)
        except AssertionError:
            real = ('AssertionError', None)
        seen.add(real[0])
        check(real == expected, '{}: {} instead of {}'.format(ids, real, expected))
    check(seen == {'ok', 'IndexError', 'AssertionError'}, seen)

    template = group.template_from_ids(361001, 361002, 1001)
    check(shape(template) == ('BufrTemplate', 999999, (
        ('SequenceDescriptor', 361001, (
            ('ElementDescriptor', 1194),
            ('SequenceDescriptor', 301011, (('ElementDescriptor', 4001), ('ElementDescriptor', 4002),
                                            ('ElementDescriptor', 4003))))),
        ('SequenceDescriptor', 361002, (
            ('DelayedReplicationDescriptor', 101000, 31002, (
                ('SequenceDescriptor', 361003, (
                    ('ElementDescriptor', 7004),
                    ('DelayedReplicationDescriptor', 101000, 31000, (('ElementDescriptor', 12001),)))),)),
            ('ElementDescriptor', 7001))),
        ('ElementDescriptor', 1001))), shape(template))
    check(flat_member_ids(template) == [1194, 4001, 4002, 4003, 101000, 31002, 7004, 101000, 31000, 12001, 7001, 1001],
          flat_member_ids(template))
    check(template.original_descriptor_ids == [361001, 361002, 1001], template.original_descriptor_ids)
    element = template.members[0].members[0]
    check(element is not group.lookup(1194) and element.as_list() == [1194, 'BUFR REPORT SOURCE', 'CCITT IA5', 0, 0, 64]
          and vars(element) == vars(group.lookup(1194)), 'Table B attributes of the copies')
    # the tables themselves are not touched by the fix
    check(shape(group.lookup(361002)) == ('SequenceDescriptor', 361002, (
        ('SequenceDescriptor', 360001, (('DelayedReplicationDescriptor', 101000, 31002, ()),)),
        ('SequenceDescriptor', 361003, (
            ('ElementDescriptor', 7004),
            ('SequenceDescriptor', 360004, (('DelayedReplicationDescriptor', 101000, 31000, ()),)),
            ('ElementDescriptor', 12001))),
        ('ElementDescriptor', 7001))), shape(group.lookup(361002)))
finally:
    tables.TableGroupCacheManager._TABLE_GROUP_CACHE.extra_b_entries.clear()
    tables.TableGroupCacheManager._TABLE_GROUP_CACHE.extra_d_entries.clear()
    TableGroupCacheManager.invalidate()

# ---------------------------------------------------------------------------------------------------------------------
# A real file: NCEP prepbufr (table definition messages come first, the data messages use them)
# ---------------------------------------------------------------------------------------------------------------------
with open(os.path.join('tests', 'data', 'prepbufr.bufr'), 'rb') as ins:
    s = ins.read()
n_data_messages = n_fixed = 0
try:
    for bufr_message in generate_bufr_message(Decoder(), s):
        if not TableGroupCacheManager.has_extra_entries():
            continue
        template, group = bufr_message.build_template(Decoder().tables_root_dir)
        raw = group.descriptors_from_ids(*bufr_message.unexpanded_descriptors.value)
        status, expected = run_model(raw)
        check(status == 'ok' and shapes(template.members) == expected, 'prepbufr template')
        check(shapes(bufr_message.template_data.value.template.members) == expected, 'prepbufr decoded template')
        n_fixed += expected != shapes(raw)
        n_data_messages += 1
        # no replication without members survives
        check(all(len(d.members) > 0 for d in all_nodes(template.members)
                  if isinstance(d, (FixedReplicationDescriptor, DelayedReplicationDescriptor))), 'members')
finally:
    tables.TableGroupCacheManager._TABLE_GROUP_CACHE.extra_b_entries.clear()
    tables.TableGroupCacheManager._TABLE_GROUP_CACHE.extra_d_entries.clear()
    TableGroupCacheManager.invalidate()
check(n_data_messages > 0 and n_fixed > 0, (n_data_messages, n_fixed))

print('OK ({} checks, {} prepbufr data messages, {} of them changed by the fix)'.format(
    N_CHECKS[0], n_data_messages, n_fixed))
