import os, sys; sys.path.insert(0, os.getcwd())

import hashlib
import json
import logging
import pickle
import random
import subprocess

logging.disable(logging.WARNING)  # silence the 'fallback' warnings of the tables module

from pybufrkit import tables as tables_module
from pybufrkit.constants import DEFAULT_TABLES_DIR
from pybufrkit.dataquery import NodePathParser, DataQuerent
from pybufrkit.decoder import Decoder
from pybufrkit.encoder import Encoder
from pybufrkit.renderer import (FlatTextRenderer, NestedTextRenderer,
                                FlatJsonRenderer, NestedJsonRenderer)
from pybufrkit.tables import TableGroupCacheManager

assert os.path.dirname(os.path.abspath(tables_module.__file__)) == os.path.join(os.getcwd(), 'pybufrkit'), \
    'run with the current directory = worktree root'

DATA_DIR = os.path.join('tests', 'data')
REAL_LIMIT = 50


def read_bytes(name):
    with open(os.path.join(DATA_DIR, name), 'rb') as ins:
        return ins.read()


def read_text(name):
    with open(os.path.join(DATA_DIR, name)) as ins:
        return ins.read()


# --------------------------------------------------------------------------
# Observation: everything that can be seen of a decoded / encoded message
def describe_descriptor(d):
    return (type(d).__name__, str(d), getattr(d, 'name', None), getattr(d, 'unit', None),
            getattr(d, 'scale', None), getattr(d, 'refval', None), getattr(d, 'nbits', None))


def observe_message(msg):
    """Values, labels, links, renderings and a query of a processed message."""
    td = msg.template_data.value
    parts = [
        repr(msg.table_group_key),
        repr(td.decoded_values_all_subsets),
        repr([[describe_descriptor(d) for d in ds] for ds in td.decoded_descriptors_all_subsets]),
        repr([sorted(links.items()) for links in td.bitmap_links_all_subsets]),
    ]
    for renderer_class in (FlatTextRenderer, NestedTextRenderer, FlatJsonRenderer, NestedJsonRenderer):
        parts.append(repr(renderer_class().render(msg)))
    path = '/{:06d}'.format(msg.unexpanded_descriptors.value[0])
    try:
        result = DataQuerent(NodePathParser()).query(msg, path)
        parts.append(repr(result.subset_indices()))
        parts.append(repr(result.all_values()))
        parts.append(repr(result.all_values(flat=True)))
        parts.append(FlatTextRenderer().render(result))
    except Exception as e:
        parts.append('QUERY-ERR {} {}'.format(type(e).__name__, e))
    return hashlib.sha256('\x00'.join(parts).encode('utf-8', 'backslashreplace')).hexdigest()


def run_item(item, decoder, encoder_by_version):
    """
    Perform the operation of a pool item and return (observation, message or None).
    A failing operation is observed by the type and text of its exception.
    """
    kind = item[0]
    try:
        if kind == 'dec':
            msg = decoder.process(item[2])
            return observe_message(msg), msg
        else:
            msg = encoder_by_version[item[3]].process(item[2])
            digest = hashlib.sha256(msg.serialized_bytes).hexdigest()
            return digest + observe_message(msg), msg
    except Exception as e:
        return 'ERR {} {}'.format(type(e).__name__, e), None


def make_coders(cache_max):
    decoder = Decoder(compiled_template_cache_max=cache_max)
    encoders = {
        None: Encoder(compiled_template_cache_max=cache_max),
        35: Encoder(compiled_template_cache_max=cache_max, master_table_version=35),
        7: Encoder(compiled_template_cache_max=cache_max, master_table_version=7),
    }
    return decoder, encoders


# --------------------------------------------------------------------------
# The pool: more table versions than the caches hold, good and bad messages
def build_pool():
    pool = []
    for stub in ('207003', 'ISMD01_OKPR', 'IUSK73_AMMC_182300', 'b002_95', 'g2nd_208',
                 'profiler_european', 'rado_250', 'uegabe', 'contrived', 'jaso_214'):
        pool.append(('dec', stub, read_bytes(stub + '.bufr')))

    # The same content under other master table versions (other labels, other table groups)
    for stub, versions in (('uegabe', (7, 16, 20, 35, 41)),
                           ('207003', (14, 16, 36)),
                           ('profiler_european', (6, 10)),
                           ('b002_95', (17,))):
        text = read_text(stub + '.json')
        for version in versions:
            data = Encoder(master_table_version=version).process(text).serialized_bytes
            pool.append(('dec', '{}@{}'.format(stub, version), data))

    # Failing decodes
    rado = read_bytes('rado_250.bufr')
    pool.append(('dec', 'invalid', read_bytes('multi_invalid_messages.bufr')))
    pool.append(('dec', 'truncated', rado[:len(rado) // 2]))
    pool.append(('dec', 'garbage', b'BUFR\x00\x00\x10\x04garbage!'))
    pool.append(('dec', 'nosignature', b'no start signature in here'))

    # Encodes, successful and failing (310060 is undefined in version 7)
    for stub, version in (('207003', None), ('uegabe', None), ('uegabe', 35), ('uegabe', 7),
                          ('profiler_european', 35), ('IUSK73_AMMC_182300', None), ('207003', 7)):
        pool.append(('enc', '{}->{}'.format(stub, version), read_text(stub + '.json'), version))
    return pool


def fresh_baselines(pool, demo_file):
    """Observation of each pool item as the FIRST operation of a fresh process."""
    jobs = [(mode, idx) for mode in ('plain', 'compiled') for idx in range(len(pool))]
    baselines = {}
    for start in range(0, len(jobs), 8):  # 8 children at a time
        procs = []
        for mode, idx in jobs[start:start + 8]:
            proc = subprocess.Popen([sys.executable, demo_file, '--fresh', mode],
                                    stdin=subprocess.PIPE, stdout=subprocess.PIPE, cwd=os.getcwd())
            procs.append((mode, idx, proc))
        for mode, idx, proc in procs:
            out, _ = proc.communicate(pickle.dumps(pool[idx]))
            assert proc.returncode == 0, (mode, idx)
            baselines[mode, idx] = out.decode().strip().splitlines()[-1]
    return baselines


def fresh_main(mode):
    """The child: nothing but this one operation has happened in the process."""
    item = pickle.loads(sys.stdin.buffer.read())
    decoder, encoders = make_coders(None if mode == 'plain' else 100)
    observation, _ = run_item(item, decoder, encoders)
    print(observation)


def filler_keys():
    """More than 50 table group keys that no pool message uses."""
    keys = []
    for root in (DEFAULT_TABLES_DIR + os.sep + '.', DEFAULT_TABLES_DIR + os.sep + os.sep):
        for version in range(6, 42):
            keys.append((root, version))
    return keys


def run_interleavings(pool, baselines, seeds=(1, 2), n_ops=26, cache_sizes=(None, 0, 1, 2, 100),
                      limits=(1, 2, 3, REAL_LIMIT), check=None):
    """
    Random interleavings of decode / encode / failing operations / queries and
    renderings of older message objects / table cache fillers, every result
    compared with the result of a fresh process.
    """
    fillers = filler_keys()
    n_checked = 0
    for seed in seeds:
        rng = random.Random(seed)
        for cache_max in cache_sizes:
            mode = 'plain' if cache_max is None else 'compiled'
            for limit in limits:
                tables_module.MAXIMUM_NUMBER_OF_CACHED_TABLE_GROUPS = limit
                decoder, encoders = make_coders(cache_max)
                kept = []  # message objects of earlier operations
                if limit == REAL_LIMIT:
                    # reach the real limit: more distinct table groups than it holds
                    for root, version in rng.sample(fillers, 58):
                        TableGroupCacheManager.get_table_group(tables_root_dir=root, master_table_version=version)
                for _ in range(n_ops):
                    dice = rng.random()
                    if dice < 0.15:
                        root, version = rng.choice(fillers)
                        TableGroupCacheManager.get_table_group(tables_root_dir=root, master_table_version=version)
                    elif dice < 0.35 and kept:
                        # query and render an older message object again
                        idx, msg = rng.choice(kept)
                        tail = observe_message(msg)
                        assert baselines[mode, idx].endswith(tail), \
                            ('old message object changed', pool[idx][1], cache_max, limit, seed)
                        n_checked += 1
                    else:
                        idx = rng.randrange(len(pool))
                        observation, msg = run_item(pool[idx], decoder, encoders)
                        assert observation == baselines[mode, idx], \
                            ('depends on history', pool[idx][1], cache_max, limit, seed)
                        n_checked += 1
                        if msg is not None:
                            kept.append((idx, msg))
                            del kept[:-6]
                    if check is not None:
                        check(decoder, encoders, cache_max, limit)
    tables_module.MAXIMUM_NUMBER_OF_CACHED_TABLE_GROUPS = REAL_LIMIT
    return n_checked


# --------------------------------------------------------------------------
# Checks specific to CoderState.__init__ / CoderState.switch_subset_context
from pybufrkit import coder as coder_module
from pybufrkit.coder import CoderState, BSRModifier, AuditedList
from pybufrkit.errors import PyBufrKitError as PyBufrKitErrorType
from pybufrkit.templatecompiler import CompilerState


def raises(exc_type, func, *args):
    try:
        func(*args)
    except Exception as e:
        assert type(e) is exc_type, (type(e), exc_type)
        return e
    raise AssertionError('{} not raised'.format(exc_type))


# the instance attributes in the order in which a new state gets them
ATTRIBUTES = [
    'is_compressed', 'n_subsets', 'idx_subset',
    'decoded_descriptors_all_subsets', 'bitmap_links_all_subsets', 'decoded_descriptors', 'bitmap_links',
    'decoded_values_all_subsets', 'decoded_values', 'idx_value',
    'nbits_offset', 'scale_offset', 'nbits_of_new_refval', 'new_refvals',
    'nbits_of_associated', 'nbits_of_skipped_local_descriptor', 'bsr_modifier', 'new_nbytes',
    'data_not_present_count', 'status_qa_info_follows',
    'bitmap', 'bitmapped_descriptors', 'bitmap_definition_state', 'most_recent_bitmap_is_for_reuse', 'n_031031',
    'next_bitmapped_descriptor', 'back_reference_boundary', 'back_referenced_descriptors',
]

# what a template application starts from
INITIAL = {
    'idx_value': 0, 'nbits_offset': 0, 'scale_offset': 0, 'nbits_of_new_refval': 0, 'new_refvals': {},
    'nbits_of_associated': [], 'nbits_of_skipped_local_descriptor': 0,
    'bsr_modifier': BSRModifier(nbits_increment=0, scale_increment=0, refval_factor=1), 'new_nbytes': 0,
    'data_not_present_count': 0, 'status_qa_info_follows': coder_module.QA_INFO_NA,
    'bitmap': None, 'bitmapped_descriptors': None, 'bitmap_definition_state': coder_module.BITMAP_NA,
    'most_recent_bitmap_is_for_reuse': False, 'n_031031': 0, 'next_bitmapped_descriptor': None,
    'back_reference_boundary': 0, 'back_referenced_descriptors': None,
}


def assert_initial(state, except_for=()):
    for name, value in INITIAL.items():
        if name in except_for:
            continue
        actual = getattr(state, name)
        assert type(actual) is type(value) and actual == value, (name, actual, value)


def make_dirty(state):
    """Leave a trace in every piece of state that an operator or a bitmap can touch."""
    state.idx_value = 17
    state.nbits_offset = 3
    state.scale_offset = -2
    state.nbits_of_new_refval = 12
    state.new_refvals[12101] = -5
    state.nbits_of_associated.append(4)
    state.nbits_of_skipped_local_descriptor = 8
    state.bsr_modifier = BSRModifier(nbits_increment=10, scale_increment=3, refval_factor=1000)
    state.new_nbytes = 6
    state.data_not_present_count = 2
    state.status_qa_info_follows = coder_module.QA_INFO_PROCESSING
    state.bitmap = [0, 1]
    state.bitmapped_descriptors = [(0, 'x')]
    state.bitmap_definition_state = coder_module.BITMAP_BIT_COUNTING
    state.most_recent_bitmap_is_for_reuse = True
    state.n_031031 = 2
    state.next_bitmapped_descriptor = lambda: (0, 'x')
    state.back_reference_boundary = 9
    state.back_referenced_descriptors = [(0, 'x'), (1, 'y')]


def check_coder_state():
    # --- construction -------------------------------------------------------
    for is_compressed in (False, True, 0, 1):
        for n_subsets in (0, 1, 3):
            state = CoderState(is_compressed, n_subsets)
            assert list(vars(state)) == ATTRIBUTES, list(vars(state))
            assert state.is_compressed is is_compressed and state.n_subsets == n_subsets and state.idx_subset == 0
            assert_initial(state)
            for all_subsets, kind in ((state.decoded_descriptors_all_subsets, list),
                                      (state.bitmap_links_all_subsets, dict),
                                      (state.decoded_values_all_subsets, list)):
                assert len(all_subsets) == n_subsets and all(type(x) is kind and not x for x in all_subsets)
            # compressed: ONE list of descriptors / dict of links for all subsets; values always separate
            n_distinct = min(n_subsets, 1) if is_compressed else n_subsets
            assert len(set(map(id, state.decoded_descriptors_all_subsets))) == n_distinct
            assert len(set(map(id, state.bitmap_links_all_subsets))) == n_distinct
            assert len(set(map(id, state.decoded_values_all_subsets))) == n_subsets
            if n_subsets:
                assert state.decoded_descriptors is state.decoded_descriptors_all_subsets[0]
                assert state.bitmap_links is state.bitmap_links_all_subsets[0]
                assert state.decoded_values is state.decoded_values_all_subsets[0]
            else:
                assert state.decoded_descriptors == [] and state.bitmap_links == [] and state.decoded_values == []
            # nothing is shared between two states
            other = CoderState(is_compressed, n_subsets)
            assert other.new_refvals is not state.new_refvals
            assert other.nbits_of_associated is not state.nbits_of_associated

    # the encoder hands its values in: they are used as they are, not copied
    values = [[1, 2], [3, 4]]
    state = CoderState(False, 2, values)
    assert state.decoded_values_all_subsets is values and state.decoded_values is values[0]
    assert list(vars(state)) == ATTRIBUTES
    assert CoderState(False, 2, []).decoded_values_all_subsets == [[], []]  # an empty list is replaced
    raises(TypeError, CoderState, False, None)
    raises(TypeError, CoderState, False, '2')
    raises(IndexError, CoderState, False, -1)  # no lists, but subset 0 is selected
    raises(IndexError, CoderState, True, -1)
    # one list of values for two subsets is accepted here (subset 0 is selected);
    # the IndexError comes only when subset 1 is switched to -> see below
    assert CoderState(False, 2, [[5]]).decoded_values == [5]

    # debug logging on the root logger: audited lists, same attributes
    root_level = logging.root.level
    logging.root.setLevel(logging.DEBUG)
    try:
        state = CoderState(False, 2)
        assert [type(x) for x in state.decoded_values_all_subsets] == [AuditedList, AuditedList]
        assert list(vars(state)) == ATTRIBUTES
        assert_initial(state)
        state = CoderState(True, 2, values)
        assert [type(x) for x in state.decoded_values_all_subsets] == [AuditedList, AuditedList]
        assert state.decoded_values_all_subsets == values and state.decoded_values_all_subsets[0] is not values[0]
    finally:
        logging.root.setLevel(root_level)

    # the compiler's state is a coder state of one uncompressed subset
    group = TableGroupCacheManager.get_table_group(master_table_version=13)
    compiler_state = CompilerState(group, group.template_from_ids(301011))
    assert list(vars(compiler_state)) == ATTRIBUTES + ['block_stack']
    assert_initial(compiler_state)

    # --- switching the subset ----------------------------------------------
    state = CoderState(False, 3)
    for idx_subset in (0, 2, 1, 1, -1):
        make_dirty(state)
        old_refvals, old_associated = state.new_refvals, state.nbits_of_associated
        state.decoded_descriptors.append('d{}'.format(idx_subset))
        assert state.switch_subset_context(idx_subset) is None
        assert state.idx_subset == idx_subset
        assert_initial(state)
        assert state.new_refvals is not old_refvals and old_refvals == {12101: -5}
        assert state.nbits_of_associated is not old_associated and old_associated == [4]
        assert state.decoded_descriptors is state.decoded_descriptors_all_subsets[idx_subset]
        assert state.decoded_values is state.decoded_values_all_subsets[idx_subset]
        assert state.bitmap_links is state.bitmap_links_all_subsets[idx_subset]
        assert list(vars(state)) == ATTRIBUTES  # no attribute added, none removed
    assert [len(ds) for ds in state.decoded_descriptors_all_subsets] == [2, 2, 1]  # the lists themselves are kept

    # a subset that does not exist: IndexError after the first two assignments only
    state = CoderState(False, 2)
    make_dirty(state)
    descriptors_before = state.decoded_descriptors
    raises(IndexError, state.switch_subset_context, 2)
    assert state.idx_subset == 2 and state.new_refvals == {}
    assert state.decoded_descriptors is descriptors_before
    assert state.idx_value == 17 and state.nbits_offset == 3 and state.nbits_of_associated == [4]
    assert state.bitmap == [0, 1] and state.back_reference_boundary == 9 and state.n_031031 == 2
    raises(TypeError, state.switch_subset_context, None)
    raises(TypeError, state.switch_subset_context, 'a')
    assert state.data_not_present_count == 2 and state.new_nbytes == 6

    # fewer lists of values than subsets: descriptors are switched, values fail, rest untouched
    state = CoderState(False, 2, [[5]])
    make_dirty(state)
    raises(IndexError, state.switch_subset_context, 1)
    assert state.decoded_descriptors is state.decoded_descriptors_all_subsets[1]
    assert state.decoded_values is state.decoded_values_all_subsets[0]
    assert state.bitmap_links is state.bitmap_links_all_subsets[0]
    assert state.idx_value == 17 and state.bsr_modifier.refval_factor == 1000 and state.bitmap == [0, 1]

    # compressed state (never switched by the coders, but possible): shared lists stay shared
    state = CoderState(True, 3)
    make_dirty(state)
    state.switch_subset_context(2)
    assert_initial(state)
    assert state.decoded_descriptors is state.decoded_descriptors_all_subsets[0]
    assert state.decoded_values is state.decoded_values_all_subsets[2]

    # the methods around the bitmap work on the freshly reset state as on a new one
    for state in (CoderState(False, 2), CoderState(False, 2)):
        state.switch_subset_context(1)
        raises(TypeError, state.add_bitmap_link)  # next_bitmapped_descriptor is None
        raises(PyBufrKitErrorType, state.recall_bitmap)  # no bitmap is defined for reuse
        raises(PyBufrKitErrorType, state.build_bitmapped_descriptors, [0])
        state.mark_back_reference_boundary()
        assert state.back_reference_boundary == 0
        state.cancel_all_back_references()
        state.cancel_bitmap()
        assert_initial(state, except_for=('back_referenced_descriptors',))
        assert state.back_referenced_descriptors is None


if __name__ == '__main__':
    if len(sys.argv) > 2 and sys.argv[1] == '--fresh':
        fresh_main(sys.argv[2])
        sys.exit(0)
    check_coder_state()
    pool = build_pool()
    baselines = fresh_baselines(pool, os.path.abspath(__file__))
    n_checked = run_interleavings(pool, baselines, seeds=(4,), n_ops=30)
    print('OK: {} operations gave the result of a fresh process'.format(n_checked))
