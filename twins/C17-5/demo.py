import os, sys; sys.path.insert(0, os.getcwd())
"""
Differential demonstration for refactor 5 (SectionConfigurer loading / configure_section).

Everything that is compared with the library is computed here independently:
the section layouts are read from the JSON files with this script's own file
name parser and its own "which edition applies" rule, the messages are packed
bit by bit from those layouts, and the expected query answers are looked up in
plain dictionaries built while packing.

Exits 0 when every check holds, both on the unpatched and the patched tree.
"""
import copy
import json
import re
import shutil
import tempfile
from collections import OrderedDict

import pybufrkit
from pybufrkit.bufr import BufrMessage, BufrSection, SectionConfigurer, SectionParameter
from pybufrkit.decoder import Decoder
from pybufrkit.encoder import Encoder
from pybufrkit.errors import PyBufrKitError, MetadataExprParsingError
from pybufrkit.mdquery import MetadataExprParser, MetadataQuerent

assert os.path.dirname(os.path.abspath(pybufrkit.__file__)) == os.path.join(os.getcwd(), 'pybufrkit'), \
    'the worktree copy of pybufrkit must be the one imported'

DEFINITIONS_DIR = os.path.join(os.getcwd(), 'pybufrkit', 'definitions')
N_CHECKS = 0


def check(cond, what):
    global N_CHECKS
    N_CHECKS += 1
    if not cond:
        print('FAILED: {}'.format(what))
        sys.exit(1)


def raises(exc_type, func, *args, **kwargs):
    try:
        func(*args, **kwargs)
    except BaseException as e:
        return type(e) is exc_type
    return False


# ---------------------------------------------------------------------------
# Independent reading of the definitions
# ---------------------------------------------------------------------------
FNAME_RE = re.compile(r'^section(\d+)(?:-(\d+))?\.json$')


def load_definitions(definitions_dir):
    """{section index: {edition or None: json}} with this script's own parser."""
    ret = {}
    for fname in sorted(os.listdir(definitions_dir)):
        m = FNAME_RE.match(fname)
        if not m:
            continue
        with open(os.path.join(definitions_dir, fname)) as ins:
            ret.setdefault(int(m.group(1)), {})[None if m.group(2) is None else int(m.group(2))] = json.load(ins)
    return ret


DEFS = load_definitions(DEFINITIONS_DIR)


def layout(section_index, edition, defs=DEFS):
    by_edition = defs[section_index]
    if edition in by_edition and edition:
        return by_edition[edition]
    if None in by_edition:
        return by_edition[None]
    flagged = [d for d in by_edition.values() if d.get('default', False)]
    assert len(flagged) == 1
    return flagged[0]


def expected_configurations(defs):
    """What SectionConfigurer.configurations must look like (0 is the default key)."""
    ret = {}
    for index, by_edition in defs.items():
        ret[index] = {}
        for edition, data in by_edition.items():
            ret[index][0 if edition is None else edition] = data
        for edition, data in by_edition.items():
            if edition is not None and edition != 0 and data.get('default', False):
                ret[index][0] = data
    return ret


# ---------------------------------------------------------------------------
# Packing messages by hand
# ---------------------------------------------------------------------------
def pack(fields):
    """fields: list of (value, nbits) with value int / bool / bytes / str of 0 and 1."""
    bits = ''
    for value, nbits in fields:
        if isinstance(value, bytes):
            assert len(value) * 8 == nbits
            bits += ''.join('{:08b}'.format(b) for b in bytearray(value))
        elif isinstance(value, str):
            assert len(value) == nbits and set(value) <= set('01')
            bits += value
        else:
            assert 0 <= int(value) < (1 << nbits)
            bits += '{:0{}b}'.format(int(value), nbits)
    bits += '0' * (-len(bits) % 8)
    return bytes(bytearray(int(bits[i:i + 8], 2) for i in range(0, len(bits), 8)))


DESCRIPTORS = [1001, 1002]  # WMO block number (7 bits), WMO station number (10 bits)
DATA_VALUES = [(71, 7), (936, 10)]
LOCAL_BITS = '1010101111001101'  # 2 bytes of local use in section 2


def build_message(edition, with_section2, damaged_data=False, data_category=0):
    """
    Return (bytes, expected) where expected is an OrderedDict
    {section index: OrderedDict {parameter name: value}} for the full decode.
    """
    counter = [20]

    def some_value(name, nbits):
        fixed = {
            'master_table_number': 0, 'master_table_version': 13, 'local_table_version': 0,
            'data_category': data_category, 'month': 9, 'day': 29, 'hour': 11, 'minute': 58,
            'second': 7, 'year': 2026 if nbits == 16 else 26,
            'n_subsets': 1,
        }
        if name in fixed:
            return fixed[name]
        counter[0] += 3
        return counter[0] % (1 << nbits)

    expected = OrderedDict()
    chunks = OrderedDict()
    for index in (1, 2, 3, 4, 5):
        if index == 2 and not with_section2:
            continue
        config = layout(index, edition)
        names = [p['name'] for p in config['parameters']]
        values = OrderedDict()
        tail = b''
        for p in config['parameters']:
            name, nbits, typ = p['name'], p['nbits'], p['type']
            if name == 'section_length':
                values[name] = None  # filled in below
            elif name == 'is_section2_presents':
                values[name] = bool(with_section2)
            elif typ == 'bool':
                values[name] = name == 'is_observation'
            elif typ == 'unexpanded_descriptors':
                values[name] = list(DESCRIPTORS)
                tail = pack(sum([[(d // 100000, 2), (d // 1000 % 100, 6), (d % 1000, 8)] for d in DESCRIPTORS], []))
            elif typ == 'template_data':
                values[name] = 'TEMPLATE_DATA'
                tail = b'' if damaged_data else pack(DATA_VALUES)
            elif typ == 'bin' and nbits == 0:
                values[name] = LOCAL_BITS
                tail = pack([(LOCAL_BITS, len(LOCAL_BITS))])
            elif typ == 'bin':
                values[name] = '{:0{}b}'.format(some_value(name, nbits), nbits)
            elif typ == 'bytes':
                values[name] = p['expected'].encode('ascii')
            else:
                assert typ == 'uint', typ
                values[name] = some_value(name, nbits)
        fixed_fields = [(values[p['name']], p['nbits']) for p in config['parameters'] if p['nbits'] != 0]
        if 'section_length' in names:
            nbytes_fixed = (sum(n for _, n in fixed_fields) + 7) // 8
            values['section_length'] = nbytes_fixed + len(tail)
            fixed_fields = [(values[p['name']], p['nbits']) for p in config['parameters'] if p['nbits'] != 0]
        chunks[index] = pack(fixed_fields) + tail
        expected[index] = values

    config0 = layout(0, None)
    total = 8 + sum(len(c) for c in chunks.values())
    values0 = OrderedDict()
    for p in config0['parameters']:
        values0[p['name']] = {'start_signature': b'BUFR', 'length': total, 'edition': edition}[p['name']]
    section0 = pack([(values0[p['name']], p['nbits']) for p in config0['parameters']])
    assert len(section0) == 8
    full = OrderedDict([(0, values0)])
    full.update(expected)
    return section0 + b''.join(chunks.values()), full


def info_expectation(full):
    """Expected sections of a metadata-only decode: section 4 stops before the data, no section 5."""
    ret = OrderedDict()
    for index, values in full.items():
        if index == 5:
            continue
        if index == 4:
            values = OrderedDict((k, v) for k, v in list(values.items())[:list(values).index('template_data')])
        ret[index] = values
    return ret


def section_values(section):
    ret = OrderedDict()
    for parameter in section:
        value = parameter.value
        if parameter.type == 'template_data':
            value = 'TEMPLATE_DATA'
        ret[parameter.name] = value
    return ret


def same_answer(message, got, expected):
    if expected == 'TEMPLATE_DATA':
        return got is message.template_data.value
    return got == expected and type(got) is type(expected)


def expected_query(sections, expr_index, name):
    for index, values in sections.items():
        if expr_index is None or index == expr_index:
            if name in values:
                return values[name]
    return None


# ---------------------------------------------------------------------------
# 1. SectionConfigurer.__init__ : the table of configurations
# ---------------------------------------------------------------------------
configurer = SectionConfigurer()
check(configurer.configurations == expected_configurations(DEFS), 'bundled configurations table')
check(sorted(configurer.configurations) == [0, 1, 2, 3, 4, 5], 'six sections')
check(configurer.configurations[1][0] is configurer.configurations[1][4], 'default flagged edition doubles as key 0')
check(sorted(configurer.configurations[1]) == [0, 1, 2, 3, 4], 'editions of section 1')
for idx in (0, 2, 3, 4, 5):
    check(list(configurer.configurations[idx]) == [0], 'edition-less file stored once under key 0')

tmp = tempfile.mkdtemp(prefix='w5t_C17_demo5_')
try:
    # A directory where (a) an edition-less file and an edition file with default=true share
    # an index, (b) a default=false one, (c) files to be ignored, (d) minimal configs without
    # the optional keys
    custom = os.path.join(tmp, 'custom')
    shutil.copytree(DEFINITIONS_DIR, custom)
    with open(os.path.join(custom, 'section3-7.json'), 'w') as outs:
        json.dump({'index': 3, 'default': True, 'parameters': [
            {'name': 'section_length', 'nbits': 24, 'type': 'uint'},
            {'name': 'tag', 'nbits': 16, 'type': 'bytes', 'expected': 'ab', 'as_property': False},
        ]}, outs)
    with open(os.path.join(custom, 'section3-8.json'), 'w') as outs:
        json.dump({'index': 3, 'default': False, 'parameters': []}, outs)
    with open(os.path.join(custom, 'notasection.json'), 'w') as outs:
        outs.write('this is not json')
    with open(os.path.join(custom, 'section9.txt'), 'w') as outs:
        outs.write('nor this')
    custom_defs = load_definitions(custom)
    custom_configurer = SectionConfigurer(custom)
    expected_custom = expected_configurations(custom_defs)
    # os.listdir order decides whether section3.json or section3-7.json wins key 0: accept exactly those two
    got = custom_configurer.configurations
    check(sorted(got) == sorted(expected_custom), 'custom: section indices')
    for idx in got:
        check(sorted(got[idx]) == sorted(expected_custom[idx]), 'custom: editions of section {}'.format(idx))
        for edition in got[idx]:
            if (idx, edition) == (3, 0):
                listing = [f for f in os.listdir(custom) if f in ('section3.json', 'section3-7.json')]
                winner = custom_defs[3][None] if listing[-1] == 'section3.json' else custom_defs[3][7]
                check(got[3][0] == winner, 'custom: the later file of the listing holds the default key')
            else:
                check(got[idx][edition] == expected_custom[idx][edition], 'custom: {} {}'.format(idx, edition))
    check(got[3][8] == {'index': 3, 'default': False, 'parameters': []}, 'custom: default=false is not the default')

    # A file name that cannot be parsed is reported the same way (ValueError from int())
    bad = os.path.join(tmp, 'bad')
    os.mkdir(bad)
    with open(os.path.join(bad, 'sectionX.json'), 'w') as outs:
        outs.write('{}')
    check(raises(ValueError, SectionConfigurer, bad), 'unparsable file name -> ValueError')

    # Invalid JSON in a well named file -> ValueError (json.JSONDecodeError is a subclass)
    bad2 = os.path.join(tmp, 'bad2')
    os.mkdir(bad2)
    with open(os.path.join(bad2, 'section0.json'), 'w') as outs:
        outs.write('{')
    try:
        SectionConfigurer(bad2)
        check(False, 'invalid json must fail')
    except ValueError:
        check(True, 'invalid json -> ValueError')

    # -----------------------------------------------------------------------
    # 2. configure_section on hand made configurations (defaults, errors)
    # -----------------------------------------------------------------------
    msg = BufrMessage()
    section = custom_configurer.configure_section(msg, 3)  # no edition yet -> default key
    default3 = custom_configurer.configurations[3][0]
    check(section is msg.sections[-1] and len(msg.sections) == 1, 'section added to the message')
    check(section.get_metadata('index') == 3, 'index metadata')
    check(section.get_metadata('description') == default3.get('description', ''), 'description metadata')
    check(section.get_metadata('optional') is False, 'optional metadata')
    check(section.get_metadata('end_of_message') is False, 'end_of_message metadata')

    class FakeEdition(object):
        def __init__(self, value):
            self.value = value

    msg = BufrMessage()
    msg.edition = FakeEdition(7)
    section = custom_configurer.configure_section(msg, 3)
    check([p.name for p in section] == ['section_length', 'tag'], 'minimal config: parameter order')
    check(section.get_metadata('description') == '', 'missing description -> empty string')
    check(section.get_metadata('optional') is False, 'missing optional -> False')
    check(section.get_metadata('end_of_message') is False, 'missing end_of_message -> False')
    tag = section.tag
    check((tag.name, tag.nbits, tag.type, tag.expected, tag.as_property, tag.value, tag.parent is section)
          == ('tag', 16, 'bytes', b'ab', False, None, True), 'bytes parameter, text expectation encoded')
    sl = section.section_length
    check((sl.name, sl.nbits, sl.type, sl.expected, sl.as_property, sl.value, sl.parent is section)
          == ('section_length', 24, 'uint', None, False, None, True), 'parameter defaults: expected None, as_property False')

    msg.edition = FakeEdition(8)
    section = custom_configurer.configure_section(msg, 3)
    check(len(section) == 0 and section.get_metadata('index') == 3, 'config with no parameters')

    # Errors raised from the configuration, in the original order of the look-ups
    def configurer_with(config):
        c = SectionConfigurer()
        c.configurations = {0: {0: config}}
        return c

    ok_param = {'name': 'a', 'nbits': 8, 'type': 'uint'}
    check(raises(KeyError, configurer_with({'parameters': [ok_param]}).configure_section, BufrMessage(), 0),
          'missing index -> KeyError')
    check(raises(KeyError, configurer_with({'index': 0}).configure_section, BufrMessage(), 0),
          'missing parameters -> KeyError')
    for missing in ('name', 'nbits', 'type'):
        param = dict(ok_param)
        del param[missing]
        m = BufrMessage()
        try:
            configurer_with({'index': 0, 'parameters': [ok_param, param]}).configure_section(m, 0)
            check(False, 'missing {} must fail'.format(missing))
        except KeyError as e:
            check(e.args == (missing,), 'missing {} -> KeyError({!r})'.format(missing, missing))
        check(m.sections == [], 'nothing added to the message when the configuration is broken')
    # type is looked up before nbits, nbits before name
    try:
        configurer_with({'index': 0, 'parameters': [{}]}).configure_section(BufrMessage(), 0)
        check(False, 'empty parameter must fail')
    except KeyError as e:
        check(e.args == ('type',), 'type is the first key looked up')
    try:
        configurer_with({'index': 0, 'parameters': [{'type': 'uint'}]}).configure_section(BufrMessage(), 0)
        check(False, 'parameter without nbits must fail')
    except KeyError as e:
        check(e.args == ('nbits',), 'nbits is the second key looked up')
    if __debug__:
        try:
            configurer_with({'index': 0, 'parameters': [{'type': 'bytes', 'nbits': 12}]}
                            ).configure_section(BufrMessage(), 0)
            check(False, 'bytes of 12 bits must fail')
        except AssertionError as e:
            check(str(e) == 'nbits for bytes type must be integer multiple of 8: 12', 'assertion message')
    section = configurer_with({'index': 0, 'parameters': [{'type': 'uint', 'nbits': 12, 'name': 'x'}]}
                              ).configure_section(BufrMessage(), 0)
    check(section.x.nbits == 12, '12 bits are fine for anything but bytes')
    check(raises(KeyError, SectionConfigurer().configure_section, BufrMessage(), 6), 'unknown section index -> KeyError')

    # Optional section, absent / present; an optional section without a presence flag on the message
    for present in (False, True):
        m = BufrMessage()
        m.is_section2_presents = FakeEdition(present)
        section = configurer.configure_section(m, 2)
        if present:
            check(section is not None and m.sections == [section] and section.get_metadata('optional') is True,
                  'optional section present')
        else:
            check(section is None and m.sections == [], 'optional section absent -> None, nothing added')
    check(raises(AttributeError, configurer.configure_section, BufrMessage(), 2),
          'optional section and no presence flag -> AttributeError')

    # -----------------------------------------------------------------------
    # 3. configuration transformers: none, one, several, any iterable, in order
    # -----------------------------------------------------------------------
    calls = []

    def t_first(config):
        calls.append(('first', config.get('trace', ())))
        new = copy.deepcopy(config)
        new['trace'] = config.get('trace', ()) + ('first',)
        new['description'] = 'rewritten once'
        return new

    def t_second(config):
        calls.append(('second', config.get('trace', ())))
        new = copy.deepcopy(config)
        new['trace'] = config.get('trace', ()) + ('second',)
        new['description'] = config['description'] + ' and twice'
        new['end_of_message'] = True
        new['parameters'] = new['parameters'][:1]
        return new

    for make in (tuple, list, iter, lambda ts: (t for t in ts)):
        del calls[:]
        m = BufrMessage()
        section = configurer.configure_section(m, 3, make([t_first, t_second]))
        check(calls == [('first', ()), ('second', ('first',))], 'transformers applied left to right, each on the result')
        check(section.get_metadata('description') == 'rewritten once and twice', 'description from the last transformer')
        check(section.get_metadata('end_of_message') is True, 'end_of_message from the last transformer')
        check([p.name for p in section] == ['section_length'], 'parameters from the last transformer')
    del calls[:]
    section = configurer.configure_section(BufrMessage(), 3, [t_second, t_first])
    check(calls == [('second', ()), ('first', ('second',))], 'the other order')
    check(section.get_metadata('description') == 'rewritten once', 'the other order: description')
    check(configurer.configurations[3][0].get('trace') is None and
          configurer.configurations[3][0] == DEFS[3][None], 'the stored configuration is not touched')
    section = configurer.configure_section(BufrMessage(), 3, ())
    check(section.get_metadata('description') == DEFS[3][None]['description'], 'no transformer')
    section = configurer.configure_section(BufrMessage(), 3)
    check([p.name for p in section] == [p['name'] for p in DEFS[3][None]['parameters']], 'default argument')
    check(raises(TypeError, configurer.configure_section, BufrMessage(), 3, None), 'not iterable -> TypeError')
    check(raises(KeyError, configurer.configure_section, BufrMessage(), 6, None),
          'the configuration is looked up before the transformers are touched')

    def t_boom(config):
        raise RuntimeError('boom')

    m = BufrMessage()
    check(raises(RuntimeError, configurer.configure_section, m, 3, [t_first, t_boom, t_second]) and m.sections == [],
          'an exception of a transformer passes through')

    # -----------------------------------------------------------------------
    # 4. Whole messages: editions 2, 3, 4 x section 2 present / absent
    #    full decode, metadata only, with and without ignore_value_expectation,
    #    and every metadata query
    # -----------------------------------------------------------------------
    decoder = Decoder()
    querent = MetadataQuerent(MetadataExprParser())
    all_names = sorted({p['name'] for by_edition in DEFS.values() for d in by_edition.values() for p in d['parameters']}
                       | {'no_such_parameter'})

    for edition in (2, 3, 4):
        for with_section2 in (False, True):
            label = 'edition {} section2 {}'.format(edition, with_section2)
            data, full = build_message(edition, with_section2)
            info = info_expectation(full)
            variants = [
                (dict(), full), (dict(ignore_value_expectation=True), full),
                (dict(info_only=True), info), (dict(info_only=True, ignore_value_expectation=True), info),
            ]
            for kwargs, expected in variants:
                message = decoder.process(data, **kwargs)
                what = '{} {}'.format(label, sorted(kwargs))
                check([s.get_metadata('index') for s in message.sections] == list(expected), what + ': section indices')
                for section in message.sections:
                    index = section.get_metadata('index')
                    config = layout(index, edition)
                    check(section_values(section) == expected[index], what + ': values of section {}'.format(index))
                    check(list(section_values(section)) == list(expected[index]), what + ': order in section {}'.format(index))
                    check(section.get_metadata('description') == config['description'], what + ': description')
                    check(section.get_metadata('optional') is config['optional'], what + ': optional')
                    last = index == (4 if kwargs.get('info_only') else 5)
                    check(section.get_metadata('end_of_message') is last, what + ': end_of_message')
                    by_name = {p['name']: p for p in config['parameters']}
                    for parameter in section:
                        p = by_name[parameter.name]
                        exp = p.get('expected')
                        if kwargs.get('ignore_value_expectation'):
                            exp = None
                        elif exp is not None:
                            exp = exp.encode('utf-8')
                        check((parameter.nbits, parameter.type, parameter.expected, parameter.as_property)
                              == (p['nbits'], p['type'], exp, p.get('as_property', False)) and parameter.parent is section,
                              what + ': attributes of {}'.format(parameter.name))
                        if parameter.as_property:
                            check(getattr(message, parameter.name) is parameter, what + ': proxy ' + parameter.name)
                if not kwargs.get('info_only'):
                    check(message.template_data.value.decoded_values_all_subsets == [[71, 936]], what + ': data values')
                    check(message.serialized_bytes == data, what + ': serialized bytes')
                else:
                    # section 4 is skipped to its declared end without being decoded; the stop signature is left
                    check(message.serialized_bytes == data[:-4], what + ': serialized bytes stop at the end of section 4')
                for name in all_names:
                    check(same_answer(message, querent.query(message, '%' + name), expected_query(expected, None, name)),
                          what + ': %' + name)
                    check(same_answer(message, querent.query(message, '  %' + name + ' '), expected_query(expected, None, name)),
                          what + ': stripped %' + name)
                    for k in (0, 1, 2, 3, 4, 5, 6, 9, -1):
                        expr = '%{}.{}'.format(k, name)
                        check(same_answer(message, querent.query(message, expr), expected_query(expected, k, name)), what + ': ' + expr)
                for expr in ('length', '', 'x%length', '%a.length', '%.length', '%1.5.length', '%1x.length'):
                    if expr == '%1.5.length':
                        # index 1, name '5.length'
                        check(querent.query(message, expr) is None, what + ': ' + expr)
                    else:
                        check(raises(MetadataExprParsingError, querent.query, message, expr), what + ': rejected ' + repr(expr))

            # damaged data: section 4 declares no data at all
            damaged, full_damaged = build_message(edition, with_section2, damaged_data=True)
            try:
                decoder.process(damaged)
                check(False, label + ': damaged data must not decode')
            except PyBufrKitError:
                check(True, label + ': damaged data rejected by the full decode')
            message = decoder.process(damaged, info_only=True)
            info_damaged = info_expectation(full_damaged)
            check([s.get_metadata('index') for s in message.sections] == list(info_damaged), label + ': damaged, sections')
            for section in message.sections:
                check(section_values(section) == info_damaged[section.get_metadata('index')], label + ': damaged, values')
            # sections 0-3 agree with the undamaged message except for the lengths
            for index in (1, 2, 3):
                if index in full:
                    check(info_damaged[index] == full[index], label + ': damaged, section {} unchanged'.format(index))

    # A wrong expectation: rejected unless ignore_value_expectation
    data, full = build_message(4, False)
    broken = data[:-4] + b'7778'
    check(raises(PyBufrKitError, decoder.process, broken), 'wrong stop signature rejected')
    message = decoder.process(broken, ignore_value_expectation=True)
    check(message.sections[-1].stop_signature.value == b'7778' and message.sections[-1].stop_signature.expected is None,
          'wrong stop signature accepted without expectations')
    check(decoder.process(broken, info_only=True).length.value == len(data), 'metadata only does not get there')

    # -----------------------------------------------------------------------
    # 5. The encoder builds its sections through configure_section_with_values
    # -----------------------------------------------------------------------
    for stub in ('jaso_214', 'IUSK73_AMMC_182300'):
        with open(os.path.join('tests', 'data', stub + '.json')) as ins:
            encoded = Encoder(ignore_declared_length=True).process(ins.read())
        with open(os.path.join('tests', 'data', stub + '.bufr'), 'rb') as ins:
            original = decoder.process(ins.read())
        check([s.get_metadata('index') for s in encoded.sections] == [s.get_metadata('index') for s in original.sections],
              stub + ': encoder sections')
        for s_enc, s_dec in zip(encoded.sections, original.sections):
            for p_enc, p_dec in zip(s_enc, s_dec):
                check((p_enc.name, p_enc.nbits, p_enc.type, p_enc.expected, p_enc.as_property) ==
                      (p_dec.name, p_dec.nbits, p_dec.type, p_dec.expected, p_dec.as_property), stub + ': ' + p_enc.name)
                if p_enc.type in ('uint', 'bool', 'unexpanded_descriptors') and p_enc.name not in ('length', 'section_length'):
                    check(p_enc.value == p_dec.value, stub + ': value of ' + p_enc.name)
        redecoded = decoder.process(encoded.serialized_bytes)
        check(redecoded.template_data.value.decoded_values_all_subsets ==
              original.template_data.value.decoded_values_all_subsets, stub + ': round trip')
finally:
    shutil.rmtree(tmp, ignore_errors=True)

print('demo 5: {} checks passed'.format(N_CHECKS))
