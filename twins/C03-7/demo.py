import os, sys; sys.path.insert(0, os.getcwd())
"""
Differential demonstration for refactor 7 (compressed numeric / code-flag fields of the encoder).

Every expectation below is written down by hand from FM-94 (regulation 94.6.3, compression):
the field of a compressed element is

    minimum (width of the element) | NBINC (6 bits) | one increment of NBINC bits per subset

with all ones for "missing".  Nothing of the expected side is computed with pybufrkit.
"""
import copy
import json
from decimal import Decimal

import pybufrkit
from pybufrkit.bitops import BitStringBitWriter
from pybufrkit.coder import CoderState
from pybufrkit.decoder import Decoder
from pybufrkit.encoder import Encoder

assert os.path.dirname(os.path.dirname(os.path.abspath(pybufrkit.__file__))) == os.getcwd(), pybufrkit.__file__

INF, NAN = float('inf'), float('nan')
# what bitstring raises for an integer that does not fit the field
REFUSED = 'ValueError'
n_checks = 0


def check(cond, what):
    global n_checks
    n_checks += 1
    if not cond:
        print('FAILED: {}'.format(what))
        sys.exit(1)


def message(descriptors, subsets):
    """A compressed edition 4 message (master table version 13) as the encoder takes it"""
    return [
        ['BUFR', 0, 4],
        [22, 0, 89, 0, 0, False, '0000000', 0, 2, 0, 13, 0, 2007, 11, 21, 12, 0, 0],
        [0, '00000000', len(subsets), True, True, '000000', list(descriptors)],
        [0, '00000000', copy.deepcopy(subsets)],
        ['7777'],
    ]


def data_bits(b):
    """The bits of section 4 behind its four leading octets, found from the section lengths alone"""
    pos = 8
    pos += int.from_bytes(b[pos:pos + 3], 'big')  # section 1 (no section 2)
    pos += int.from_bytes(b[pos:pos + 3], 'big')  # section 3
    length = int.from_bytes(b[pos:pos + 3], 'big')
    payload = b[pos + 4: pos + length]
    assert b[pos + length:] == b'7777'
    return ''.join('{:08b}'.format(octet) for octet in payload)


def field(width, minimum, nbinc=0, increments=()):
    assert 0 <= minimum < 2 ** width and 0 <= nbinc < 64
    s = '{:0{}b}'.format(minimum, width) + '{:06b}'.format(nbinc)
    if nbinc:
        for inc in increments:
            assert 0 <= inc < 2 ** nbinc
            s += '{:0{}b}'.format(inc, nbinc)
    else:
        assert not increments
    return s


def signed_field(width, value):
    # 203YYY: sign bit and magnitude, then NBINC = 0
    return ('1' if value < 0 else '0') + '{:0{}b}'.format(abs(value), width - 1) + '000000'


ENCODERS = [('interpreted', Encoder()), ('compiled', Encoder(compiled_template_cache_max=8))]
decoder = Decoder()

# descriptors, one list of values per subset, expected fields, expected values read back
GOOD = [
    # 004001 YEAR: 12 bits, scale 0, reference 0
    ('year all equal', [4001], [[2000], [2000], [2000]], [field(12, 2000)], [[2000]] * 3),
    ('year all missing', [4001], [[None], [None], [None]], [field(12, 4095)], [[None]] * 3),
    ('year one subset', [4001], [[1999]], [field(12, 1999)], [[1999]]),
    ('year one subset missing', [4001], [[None]], [field(12, 4095)], [[None]]),
    ('year range 4 with missing', [4001], [[2000], [None], [2003]],
     [field(12, 2000, 3, [0, 7, 3])], [[2000], [None], [2003]]),
    ('year range+1 all ones', [4001], [[2000], [2002]], [field(12, 2000, 3, [0, 2])], [[2000], [2002]]),
    ('year range 1', [4001], [[2001], [2000]], [field(12, 2000, 2, [1, 0])], [[2001], [2000]]),
    ('year bool / int / float equal', [4001], [[1], [1.0], [True]], [field(12, 1)], [[1]] * 3),
    ('year extremes', [4001], [[0], [4094]], [field(12, 0, 13, [0, 4094])], [[0], [4094]]),
    # wider increments than the element itself are written as asked
    ('year 41 bit increments', [4001], [[2 ** 40], [1], [None]],
     [field(12, 1, 41, [2 ** 40 - 1, 0, 2 ** 41 - 1])], None),
    # 007001 HEIGHT OF STATION: 15 bits, scale 0, reference -400
    ('height at the reference value', [7001], [[-400], [-400]], [field(15, 0)], [[-400]] * 2),
    ('height top of the range', [7001], [[32366], [32366]], [field(15, 32766)], [[32366]] * 2),
    ('height differing', [7001], [[100], [None], [-50]],
     [field(15, 350, 8, [150, 255, 0])], [[100], [None], [-50]]),
    # 010004 PRESSURE: 14 bits, scale -1, reference 0
    ('pressure equal', [10004], [[101320.0], [101320.0]], [field(14, 10132)], [[101320.0]] * 2),
    ('pressure below precision', [10004], [[101321.0], [101322.0], [101323.0]],
     [field(14, 10132)], [[101320.0]] * 3),
    ('pressure below precision with missing', [10004], [[101321.0], [None], [101322.0]],
     [field(14, 10132, 2, [0, 3, 0])], [[101320.0], [None], [101320.0]]),
    ('pressure equal mixed types', [10004], [[1], [1.0], [True]], [field(14, 0)], [[0.0]] * 3),
    ('pressure int then Decimal', [10004], [[20], [Decimal(20)]], [field(14, 2)], [[20.0]] * 2),
    # 005001 LATITUDE (HIGH ACCURACY): 25 bits, scale 5, reference -9000000
    ('latitude', [5001], [[-90.0], [90.0], [12.34567]],
     [field(25, 0, 25, [0, 18000000, 10234567])], [[-90.0], [90.0], [12.34567]]),
    ('latitude equal', [5001], [[-12.5], [-12.5]], [field(25, 7750000)], [[-12.5]] * 2),
    ('latitude missing and value', [5001], [[None], [0.00001]],
     [field(25, 9000001, 2, [3, 0])], [[None], [0.00001]]),
    # 012001 TEMPERATURE: 12 bits, scale 1, reference 0
    ('temperature equal', [12001], [[273.2], [273.2]], [field(12, 2732)], [[273.2]] * 2),
    ('temperature 201132 202129', [201132, 202129, 12001, 202000, 201000, 12001],
     [[273.25, 273.2], [273.26, 273.9]],
     [field(16, 27325, 2, [0, 1]), field(12, 2732, 4, [0, 7])], [[273.25, 273.2], [273.26, 273.9]]),
    ('height under 207001', [207001, 7001, 207000], [[-400.0], [12.3]],
     [field(19, 0, 13, [0, 4123])], [[-400.0], [12.3]]),
    ('height with new reference value', [203012, 7001, 203255, 7001, 203000],
     [[-500, -500], [-500, -450]],
     [signed_field(12, -500), field(15, 0, 6, [0, 50])], [[-500, -500], [-500, -450]]),
    ('height equal with new reference value', [203012, 7001, 203255, 7001, 203000],
     [[300, 300], [300, 300]],
     [signed_field(12, 300), field(15, 0)], [[300, 300], [300, 300]]),
    # 020003 PRESENT WEATHER: code table, 9 bits
    ('code all missing', [20003], [[None], [None]], [field(9, 511)], [[None]] * 2),
    ('code all equal', [20003], [[5], [5]], [field(9, 5)], [[5]] * 2),
    ('code with missing', [20003], [[5], [None], [7]], [field(9, 5, 3, [0, 7, 2])], [[5], [None], [7]]),
    ('code differing', [20003], [[4], [1]], [field(9, 1, 3, [3, 0])], [[4], [1]]),
    ('code range 1', [20003], [[1], [2], [1]], [field(9, 1, 2, [0, 1, 0])], [[1], [2], [1]]),
    # several elements one after another, flag table 008001 (7 bits) in between
    ('three elements', [4001, 8001, 10004], [[2000, 64, 500.0], [2001, None, 500.0], [None, 32, None]],
     [field(12, 2000, 2, [0, 1, 3]), field(7, 32, 6, [32, 63, 0]), field(14, 50, 2, [0, 0, 3])],
     [[2000, 64, 500.0], [2001, None, 500.0], [None, 32, None]]),
]

# what the encoder refuses, and how
BAD = [
    ('year too large', [4001], [[5000], [5000]], REFUSED),
    ('year negative', [4001], [[-1], [-1]], REFUSED),
    ('year minimum too large', [4001], [[5000], [5001]], REFUSED),
    ('height below the reference value', [7001], [[-401], [-401]], REFUSED),
    ('height below the reference value, differing', [7001], [[-401], [0]], REFUSED),
    ('year range needs more than 63 bits', [4001], [[0], [2 ** 70]], REFUSED),
    ('year range beyond the table of missing values', [4001], [[0], [None], [2 ** 300]], 'IndexError'),
    ('year range beyond 63 bits, no missing', [4001], [[0], [2 ** 300]], REFUSED),
    ('temperature strings', [12001], [['abc'], ['abd']], 'TypeError'),
    ('temperature equal strings', [12001], [['abc'], ['abc']], 'TypeError'),
    ('temperature infinite', [12001], [[INF], [1.0]], 'OverflowError'),
    ('temperature infinite second', [12001], [[1.0], [INF]], 'OverflowError'),
    ('temperature not a number', [12001], [[1.0], [NAN]], 'ValueError'),
    ('temperature list', [12001], [[1.0], [[2.0]]], 'TypeError'),
    ('year floats differing', [4001], [[2000.0], [2001.0]], 'TypeError'),
    ('year strings', [4001], [['a'], ['b']], 'TypeError'),
    ('year equal strings', [4001], [['a'], ['a']], 'ValueError'),
    ('year int and string', [4001], [[1], ['a']], 'TypeError'),
    ('pressure Decimal then int', [10004], [[Decimal(20)], [20]], 'TypeError'),
    ('code strings', [20003], [['a'], ['b']], 'TypeError'),
    ('code too large', [20003], [[512], [512]], REFUSED),
    ('code minimum negative', [20003], [[-1], [3]], REFUSED),
    ('code range beyond the table of missing values', [20003], [[0], [None], [2 ** 300]], 'IndexError'),
]

for flavour, encoder in ENCODERS:
    for title, descriptors, subsets, fields, read_back in GOOD:
        what = '{} ({})'.format(title, flavour)
        given = message(descriptors, subsets)
        msg = encoder.process(given)
        bits = data_bits(msg.serialized_bytes)
        expected = ''.join(fields)
        check(bits[:len(expected)] == expected,
              '{}: bits of the data section\n expected {}\n got      {}'.format(what, expected, bits))
        check(len(bits) - len(expected) < 8 and set(bits[len(expected):]) <= {'0'}, what + ': padding')
        # the values handed in are the values of the message object, untouched
        check(msg.template_data.value.decoded_values_all_subsets == subsets, what + ': values kept')
        check(repr(msg.template_data.value.decoded_values_all_subsets) == repr(subsets), what + ': values kept (repr)')
        if read_back is not None:
            decoded = decoder.process(msg.serialized_bytes)
            check(decoded.template_data.value.decoded_values_all_subsets == read_back,
                  '{}: read back {}'.format(what, decoded.template_data.value.decoded_values_all_subsets))
            # canonical fixpoint
            again = encoder.process(message(descriptors, decoded.template_data.value.decoded_values_all_subsets))
            check(again.serialized_bytes == msg.serialized_bytes, what + ': fixpoint')
        # the same message from its JSON text
        if not any(isinstance(v, Decimal) for subset in subsets for v in subset):
            check(encoder.process(json.dumps(given)).serialized_bytes == msg.serialized_bytes, what + ': from text')

    for title, descriptors, subsets, exc_name in BAD:
        what = '{} ({})'.format(title, flavour)
        try:
            encoder.process(message(descriptors, subsets))
        except Exception as e:
            check(type(e).__name__ == exc_name, '{}: {} expected, got {!r}'.format(what, exc_name, e))
        else:
            check(False, what + ': accepted')


# The two methods called directly, with a writer that records what it is asked to write:
# order of the writes, the very objects written, and how far the writer got when an error comes up.
class RecordingWriter(BitStringBitWriter):
    def __init__(self):
        super(RecordingWriter, self).__init__()
        self.calls = []

    def write_uint(self, value, nbits):
        self.calls.append((repr(value), nbits))
        return super(RecordingWriter, self).write_uint(value, nbits)


def run(method_name, values, *args):
    state = CoderState(True, len(values), [[0, v] for v in values])
    state.idx_value = 1
    before = copy.deepcopy(state.decoded_values_all_subsets)
    writer = RecordingWriter()
    descriptor = object()
    try:
        result = getattr(Encoder(), method_name)(state, writer, descriptor, *args)
        outcome = 'None' if result is None else 'returned {!r}'.format(result)
    except Exception as e:
        outcome = type(e).__name__
    check(repr(state.decoded_values_all_subsets) == repr(before), 'input values untouched')
    check(state.idx_value == 2, 'value index advanced once')
    check(state.decoded_descriptors == [descriptor], 'descriptor recorded once')
    return outcome, writer.calls, writer.bit_stream.bin


DIRECT = [
    # method, values, arguments (nbits, scale_powered, refval), outcome, calls, bits written
    ('process_numeric_compressed', [None, None], (12, 10.0, 5), 'None', [('4095', 12), ('0', 6)]),
    ('process_numeric_compressed', [1.5, 1.5], (12, 1.0, 0), 'None', [('1.5', 12), ('0', 6)]),
    ('process_numeric_compressed', [1.5, 1.5], (12, 1.0, 1), 'None', [('0.5', 12), ('0', 6)]),
    ('process_numeric_compressed', [1.26, 1.26], (12, 10.0, 0), 'None', [('13', 12), ('0', 6)]),
    ('process_numeric_compressed', [1.0, 1.0], (12, 10.0, 2.5), 'None', [('7.5', 12), ('0', 6)]),
    ('process_numeric_compressed', [1.0, 1.0], (12, 10.0, -3), 'None', [('13', 12), ('0', 6)]),
    ('process_numeric_compressed', [1.0, 1.0], (12, 10.0, True), 'None', [('9', 12), ('0', 6)]),
    ('process_numeric_compressed', [True, True], (12, 1.0, 0), 'None', [('True', 12), ('0', 6)]),
    ('process_numeric_compressed', [1.0, 2.0, None], (12, 10.0, 2.5), 'TypeError', []),
    ('process_numeric_compressed', [1.0, 2.0, None], (12, 10.0, 3), 'None',
     [('7', 12), ('4', 6), ('0', 4), ('10', 4), ('15', 4)]),
    ('process_numeric_compressed', [3, None, 1], (12, 1.0, 0), 'None',
     [('1', 12), ('3', 6), ('2', 3), ('7', 3), ('0', 3)]),
    ('process_numeric_compressed', [1.04, 0.96], (12, 10.0, 0), 'None', [('10', 12), ('0', 6)]),
    ('process_numeric_compressed', [1.04, None, 0.96], (12, 10.0, 0), 'None',
     [('10', 12), ('2', 6), ('0', 2), ('3', 2), ('0', 2)]),
    # refused: how far the writer got
    ('process_numeric_compressed', [5000, 5000], (12, 1.0, 0), REFUSED, [('5000', 12)]),
    ('process_numeric_compressed', [5000, 5001], (12, 1.0, 0), REFUSED, [('5000', 12)]),
    ('process_numeric_compressed', [0, 2 ** 70], (12, 1.0, 0), REFUSED, [('0', 12), ('71', 6)]),
    ('process_numeric_compressed', [0, None, 2 ** 300], (12, 1.0, 0), 'IndexError', []),
    ('process_numeric_compressed', [7, 'a'], (12, 1.0, 0), 'TypeError', []),
    ('process_numeric_compressed', ['a', 'b'], (12, 1.0, 0), 'TypeError', []),
    ('process_numeric_compressed', ['a', 'b'], (12, 10.0, 0), 'TypeError', []),
    ('process_numeric_compressed', [1.0, INF], (12, 10.0, 0), 'OverflowError', []),
    # the first value that cannot be converted decides: scaling of value 0, then its
    # reference value, then value 1
    ('process_numeric_compressed', [1.0, INF], (12, 10.0, 'x'), 'TypeError', []),
    ('process_numeric_compressed', [NAN, INF], (12, 10.0, 'x'), 'ValueError', []),
    ('process_numeric_compressed', [None, INF], (12, 10.0, 'x'), 'OverflowError', []),
    ('process_numeric_compressed', [2, 3], (300, 1.0, 0), 'None', [('2', 300), ('2', 6), ('0', 2), ('1', 2)]),
    ('process_numeric_compressed', [None, None], (300, 1.0, 0), 'IndexError', []),
    ('process_numeric_compressed', [1, 1], (300, 1.0, 0), 'None', [('1', 300), ('0', 6)]),
    ('process_codeflag_compressed', [None, None], (9,), 'None', [('511', 9), ('0', 6)]),
    ('process_codeflag_compressed', [6, 6], (9,), 'None', [('6', 9), ('0', 6)]),
    ('process_codeflag_compressed', [6.0, 6], (9,), 'None', [('6.0', 9), ('0', 6)]),
    ('process_codeflag_compressed', [6, None, 9], (9,), 'None',
     [('6', 9), ('3', 6), ('0', 3), ('7', 3), ('3', 3)]),
    ('process_codeflag_compressed', [9, 6], (9,), 'None', [('6', 9), ('3', 6), ('3', 3), ('0', 3)]),
    ('process_codeflag_compressed', [600, 6], (9,), 'None', [('6', 9), ('10', 6), ('594', 10), ('0', 10)]),
    ('process_codeflag_compressed', [600, 601], (9,), REFUSED, [('600', 9)]),
    ('process_codeflag_compressed', [None, None], (300,), 'IndexError', []),
    ('process_codeflag_compressed', [0, None, 2 ** 300], (9,), 'IndexError', []),
    ('process_codeflag_compressed', [0, 2 ** 70], (9,), REFUSED, [('0', 9), ('71', 6)]),
    ('process_codeflag_compressed', ['a', 'b'], (9,), 'TypeError', []),
    ('process_codeflag_compressed', [1.5, 2.5], (9,), 'TypeError', []),
]

for method_name, values, args, outcome, calls in DIRECT:
    what = '{}({!r}, {!r})'.format(method_name, values, args)
    got = run(method_name, values, *args)
    check(got[0] == outcome, '{}: outcome {} expected, got {}'.format(what, outcome, got[0]))
    check(got[1] == calls, '{}: writes {} expected, got {}'.format(what, calls, got[1]))
    # every write but a refused last one is in the stream
    done = [(v, n) for v, n in calls if 0 <= int(eval(v)) < 2 ** n]
    check((done == calls) if outcome != REFUSED else (done == calls[:-1]),
          '{}: only the last write can be the refused one'.format(what))
    check(got[2] == ''.join('{:0{}b}'.format(int(eval(v)), n) for v, n in done),
          '{}: bits written'.format(what))

print('refactor 7 demo: {} checks passed'.format(n_checks))
