"""
Demo for refactor 2: what generate_bufr_message does when a message cannot be decoded.

Valid messages that are separated from a broken piece must still be found, with their exact
bytes, when continue_on_error is switched on; without it the very error of the decoder is raised
after the messages that precede it have been yielded. The decoder calls made for the recovery
(side effects on the decoder) are recorded as well.
"""
import os, sys; sys.path.insert(0, os.getcwd())
import contextlib
import io
import itertools

from pybufrkit.decoder import Decoder, generate_bufr_message
from pybufrkit.errors import PyBufrKitError

DATA = os.path.join(os.getcwd(), 'tests', 'data')
NOTICE = 'Continuing on next message and ignoring error: '


def rd(name):
    with open(os.path.join(DATA, name), 'rb') as ins:
        return ins.read()


class RecordingDecoder(Decoder):
    """Records every call of process: (offset of the string in the stream, info_only, outcome)."""

    def __init__(self, *args, **kwargs):
        super(RecordingDecoder, self).__init__(*args, **kwargs)
        self.calls = []
        self.errors = []
        self.stream_length = None

    def process(self, s, *args, **kwargs):
        offset = None if self.stream_length is None else self.stream_length - len(s)
        entry = [offset, kwargs.get('info_only'), kwargs.get('start_signature', 'absent'), None]
        self.calls.append(entry)
        try:
            m = super(RecordingDecoder, self).process(s, *args, **kwargs)
        except BaseException as e:
            entry[3] = 'error'
            self.errors.append(e)
            raise
        entry[3] = 'ok'
        return m


decoder = RecordingDecoder()


def scan(stream, limit=1000, **kw):
    """-> (list of serialized bytes, exception or None, stderr text, decoder calls)"""
    decoder.calls, decoder.errors, decoder.stream_length = [], [], len(stream)
    got, exc = [], None
    err = io.StringIO()
    with contextlib.redirect_stderr(err):
        try:
            for m in itertools.islice(generate_bufr_message(decoder, stream, **kw), limit):
                got.append(m.serialized_bytes)
        except Exception as e:
            exc = e
    calls = [tuple(c) for c in decoder.calls]
    return got, exc, err.getvalue(), calls


def notices(text):
    return [line for line in text.splitlines() if line.startswith(NOTICE)]


G3 = rd('207003.bufr')        # edition 3, compressed
G4 = rd('uegabe.bufr')        # edition 4, not compressed
GC = rd('contrived.bufr')     # edition 4
SEP = b'\r\r\n\x03\x01\r\r\n'
n_checks = 0

# ---- no error at all: the handler must stay out of the way ---------------------------------------
stream = SEP + G3 + SEP + G4 + b'BUF' + GC
for info_only, coe in itertools.product((False, True), (False, True)):
    got, exc, err, calls = scan(stream, info_only=info_only, continue_on_error=coe)
    assert exc is None and got == [G3, G4, GC]
    assert notices(err) == []
    assert calls == [(len(SEP), info_only, None, 'ok'),
                     (2 * len(SEP) + len(G3), info_only, None, 'ok'),
                     (2 * len(SEP) + len(G3) + len(G4) + 3, info_only, None, 'ok')]
    n_checks += 1

# ---- a lone signature followed by rubbish, then good messages ------------------------------------
for junk in (b'BUFR', b'BUFR\x00\x00\x10', b'BUFR\x00\x00\x10\x047777', b'BUFRBUFR'):
    stream = G4 + SEP + junk + SEP + G3 + SEP
    at = len(G4) + len(SEP)
    n_sig = junk.count(b'BUFR')
    for info_only in (False, True):
        # errors are fatal by default; what precedes has been delivered
        got, exc, err, calls = scan(stream, info_only=info_only)
        assert got == [G4]
        assert isinstance(exc, PyBufrKitError) and exc is decoder.errors[-1]
        assert notices(err) == []
        assert calls == [(0, info_only, None, 'ok'), (at, info_only, None, 'error')]
        # same with the flag spelled out
        got, exc, err, calls = scan(stream, info_only=info_only, continue_on_error=False)
        assert got == [G4] and isinstance(exc, PyBufrKitError) and exc is decoder.errors[-1]
        # carry on: every signature of the rubbish is reported once, the scan resumes one byte
        # behind it, and the good message that follows is found
        got, exc, err, calls = scan(stream, info_only=info_only, continue_on_error=True)
        assert exc is None and got == [G4, G3], (junk, info_only)
        assert len(notices(err)) == n_sig
        assert all(str(e) in err for e in decoder.errors)
        expected = [(0, info_only, None, 'ok')]
        for k in range(n_sig):
            expected.append((at + 4 * k, info_only, None, 'error'))
            if not info_only:
                # the metadata are tried on their own to learn the declared length
                expected.append((at + 4 * k, True, None, 'error'))
        expected.append((at + len(junk) + len(SEP), info_only, None, 'ok'))
        assert calls == expected, (junk, info_only, calls, expected)
        n_checks += 3

# ---- broken data section, intact metadata: the declared length is used to move on ------------------
bad_end4 = G4[:-4] + b'7778'
bad_end3 = G3[:-1] + b'8'
for bad in (bad_end4, bad_end3):
    stream = SEP + bad + SEP + GC + b'BUF' + bad + G3
    at1 = len(SEP)
    at2 = at1 + len(bad) + len(SEP)
    at3 = at2 + len(GC) + 3
    at4 = at3 + len(bad)
    got, exc, err, calls = scan(stream)
    assert got == [] and isinstance(exc, PyBufrKitError) and exc is decoder.errors[-1]
    assert "not as expected (b'7777')" in str(exc)
    assert calls == [(at1, False, None, 'error')]
    got, exc, err, calls = scan(stream, continue_on_error=True)
    assert exc is None and got == [GC, G3]
    assert len(notices(err)) == 2
    assert calls == [(at1, False, None, 'error'), (at1, True, None, 'ok'),
                     (at2, False, None, 'ok'),
                     (at3, False, None, 'error'), (at3, True, None, 'ok'),
                     (at4, False, None, 'ok')]
    # when only the metadata are read the end marker is not looked at: the declared length rules
    got, exc, err, calls = scan(stream, info_only=True, continue_on_error=True)
    assert exc is None and got == [bad, GC, bad, G3] and notices(err) == []
    n_checks += 3

# ---- truncated message (neither data nor the rest of the metadata) -------------------------------
stream = G3 + G4[:200] + SEP + GC
got, exc, err, calls = scan(stream)
assert got == [G3] and isinstance(exc, PyBufrKitError) and exc is decoder.errors[-1]
got, exc, err, calls = scan(stream, info_only=True)
assert got == [G3] and isinstance(exc, PyBufrKitError) and exc is decoder.errors[-1]
for info_only in (False, True):
    got, exc, err, calls = scan(stream, info_only=info_only, continue_on_error=True)
    assert exc is None and got == [G3, GC]
    assert len(notices(err)) == 1
    expected = [(0, info_only, None, 'ok'), (len(G3), info_only, None, 'error')]
    if not info_only:
        expected.append((len(G3), True, None, 'error'))
    expected.append((len(G3) + 200 + len(SEP), info_only, None, 'ok'))
    assert calls == expected
    n_checks += 1

# ---- the file of the test suite ----------------------------------------------------------------
multi = rd('multi_invalid_messages.bufr')
assert [multi[i:i + 4] for i in (0, 522, 616)] == [b'BUFR'] * 3 and len(multi) == 735
got, exc, err, calls = scan(multi)
assert got == [] and isinstance(exc, PyBufrKitError) and exc is decoder.errors[-1]
got, exc, err, calls = scan(multi, continue_on_error=True)
assert exc is None and got == [multi[522:616]]
assert len(notices(err)) == 2
assert calls == [(0, False, None, 'error'), (0, True, None, 'ok'),
                 (522, False, None, 'ok'),
                 (616, False, None, 'error'), (616, True, None, 'ok')]
got, exc, err, calls = scan(multi, continue_on_error=True, info_only=True)
assert exc is None and got == [multi[:522], multi[522:616], multi[616:]] and notices(err) == []
got, exc, err, calls = scan(multi, continue_on_error=True, filter_expr='${%data_category} == 2')
assert exc is None and got == [multi[522:616]]
# here the third message is refused by the filter before its broken data section is touched
got, exc, err, calls = scan(multi, continue_on_error=True, filter_expr='${%edition} == 3')
assert exc is None and got == [] and len(notices(err)) == 1
got, exc, err, calls = scan(multi, continue_on_error=True, filter_expr='${%edition} == 3', info_only=True)
assert exc is None and got == [multi[:522]] and notices(err) == []
n_checks += 6

# ---- extra arguments reach the recovery call as well ------------------------------------------
class KeywordSpy(RecordingDecoder):
    def process(self, s, *args, **kwargs):
        self.seen.append((args, tuple(sorted(k for k in kwargs))))
        return super(KeywordSpy, self).process(s, *args, **kwargs)

spy = KeywordSpy()
spy.seen = []
spy.stream_length = len(multi)
with contextlib.redirect_stderr(io.StringIO()):
    msgs = list(generate_bufr_message(spy, multi, False, True, None, 'pos.bufr', ignore_value_expectation=True))
assert [m.filename for m in msgs] == ['pos.bufr']
assert len(spy.seen) == 5
assert all(x == (('pos.bufr',), ('ignore_value_expectation', 'info_only', 'start_signature')) for x in spy.seen)
n_checks += 1

# ---- errors that are not PyBufrKitError are never swallowed -----------------------------------
class Exploding(Decoder):
    def __init__(self, exc, only_info=False):
        super(Exploding, self).__init__()
        self.exc, self.only_info, self.n = exc, only_info, 0

    def process(self, s, *args, **kwargs):
        self.n += 1
        if not self.only_info or kwargs.get('info_only'):
            raise self.exc
        return super(Exploding, self).process(s, *args, **kwargs)

for info_only in (False, True):
    boom = ValueError('boom')
    ex = Exploding(boom)
    try:
        list(generate_bufr_message(ex, G3 + G4, info_only=info_only, continue_on_error=True))
    except ValueError as e:
        assert e is boom and ex.n == 1
    else:
        raise AssertionError('ValueError expected')
    n_checks += 1
# ... also when raised by the recovery call itself; the first error is then its context
boom = KeyError('boom')
ex = Exploding(boom, only_info=True)
with contextlib.redirect_stderr(io.StringIO()) as err:
    try:
        list(generate_bufr_message(ex, bad_end4 + G3, continue_on_error=True))
    except KeyError as e:
        assert e is boom and ex.n == 2
        assert isinstance(e.__context__, PyBufrKitError)
    else:
        raise AssertionError('KeyError expected')
assert len(notices(err.getvalue())) == 1
# a PyBufrKitError subclass raised by the decoder is handed over as the same object
class Custom(PyBufrKitError):
    pass
mine = Custom('mine')
ex = Exploding(mine)
try:
    list(generate_bufr_message(ex, G3))
except Custom as e:
    assert e is mine
else:
    raise AssertionError('Custom expected')
with contextlib.redirect_stderr(io.StringIO()) as err:
    assert list(generate_bufr_message(ex, b'..BUFR..BUFR', continue_on_error=True)) == []
assert notices(err.getvalue()) == [NOTICE + str(mine)] * 2 and ex.n == 1 + 4
with contextlib.redirect_stderr(io.StringIO()) as err:
    assert list(generate_bufr_message(ex, b'..BUFR..BUFR', continue_on_error=True, info_only=True)) == []
assert notices(err.getvalue()) == [NOTICE + str(mine)] * 2 and ex.n == 1 + 4 + 2
n_checks += 4

print('demo 2 ok, {} checks'.format(n_checks))
