import os, sys; sys.path.insert(0, os.getcwd())
"""
Differential demonstration for refactor 8 (decoder side of the length accounting).

The messages are assembled here with plain string / integer arithmetic (no pybufrkit, no bitstring), with surplus
octets declared in any of the sections 1-4, with and without section 2, with bytes before BUFR and after 7777, with
sections declared shorter than their content, truncated ... What the decoder reports (the span of the message, the
length and the start of every section, the values of the parameters including the "rest of the section" parameter of
section 2, the error for an overrun) is compared with what follows from the way the message was assembled.

Run from the worktree root:  /venv/bin/python _out/8/demo.py
"""
import itertools
import logging

import pybufrkit
assert os.path.dirname(os.path.dirname(os.path.abspath(pybufrkit.__file__))) == os.getcwd(), pybufrkit.__file__

from pybufrkit.bufr import BufrMessage
from pybufrkit.constants import BITPOS_START
from pybufrkit.decoder import Decoder, generate_bufr_message
from pybufrkit.errors import BitReadError, PyBufrKitError, UnknownDescriptor

logging.disable(logging.CRITICAL)

N_CHECKS = [0]


def check(cond, *what):
    N_CHECKS[0] += 1
    if not cond:
        print('FAILED:', *what)
        sys.exit(1)


# ---------------------------------------------------------------------------------------------------------------
# Reference model (independent of the library)
# ---------------------------------------------------------------------------------------------------------------
def ubits(value, nbits):
    s = bin(value)[2:]
    assert value >= 0 and len(s) <= nbits, (value, nbits)
    return '0' * (nbits - len(s)) + s


def text_bits(text):
    return ''.join(ubits(ord(c), 8) for c in text)


# (name, kind, nbits) for each section; kind: u = unsigned, b = flag, s = string of 0/1, t = text
SECTION1 = {
    2: [('section_length', 'u', 24), ('master_table_number', 'u', 8), ('originating_centre', 'u', 16),
        ('update_sequence_number', 'u', 8), ('is_section2_presents', 'b', 1), ('flag_bits', 's', 7),
        ('data_category', 'u', 8), ('data_local_subcategory', 'u', 8), ('master_table_version', 'u', 8),
        ('local_table_version', 'u', 8), ('year', 'u', 8), ('month', 'u', 8), ('day', 'u', 8), ('hour', 'u', 8),
        ('minute', 'u', 8), ('second', 'u', 8)],
    3: [('section_length', 'u', 24), ('master_table_number', 'u', 8), ('originating_subcentre', 'u', 8),
        ('originating_centre', 'u', 8), ('update_sequence_number', 'u', 8), ('is_section2_presents', 'b', 1),
        ('flag_bits', 's', 7), ('data_category', 'u', 8), ('data_local_subcategory', 'u', 8),
        ('master_table_version', 'u', 8), ('local_table_version', 'u', 8), ('year', 'u', 8), ('month', 'u', 8),
        ('day', 'u', 8), ('hour', 'u', 8), ('minute', 'u', 8), ('second', 'u', 8)],
    4: [('section_length', 'u', 24), ('master_table_number', 'u', 8), ('originating_centre', 'u', 16),
        ('originating_subcentre', 'u', 16), ('update_sequence_number', 'u', 8), ('is_section2_presents', 'b', 1),
        ('flag_bits', 's', 7), ('data_category', 'u', 8), ('data_i18n_subcategory', 'u', 8),
        ('data_local_subcategory', 'u', 8), ('master_table_version', 'u', 8), ('local_table_version', 'u', 8),
        ('year', 'u', 16), ('month', 'u', 8), ('day', 'u', 8), ('hour', 'u', 8), ('minute', 'u', 8),
        ('second', 'u', 8)],
}
SECTION0 = [('start_signature', 't', 32), ('length', 'u', 24), ('edition', 'u', 8)]
SECTION2 = [('section_length', 'u', 24), ('reserved_bits', 's', 8), ('local_bits', 's', 0)]
SECTION3 = [('section_length', 'u', 24), ('reserved_bits', 's', 8), ('n_subsets', 'u', 16),
            ('is_observation', 'b', 1), ('is_compressed', 'b', 1), ('flag_bits', 's', 6),
            ('unexpanded_descriptors', 'descriptors', 0)]
SECTION4 = [('section_length', 'u', 24), ('reserved_bits', 's', 8), ('template_data', 'data', 0)]
SECTION5 = [('stop_signature', 't', 32)]

NBITS_001001 = 7  # WMO block number: 7 bits, scale 0, reference 0


def layout(index, edition):
    return {0: SECTION0, 1: SECTION1[edition], 2: SECTION2, 3: SECTION3, 4: SECTION4, 5: SECTION5}[index]


def field_bits(kind, nbits, value):
    if kind == 'u':
        return ubits(value, nbits)
    if kind == 'b':
        return '1' if value else '0'
    if kind == 's':
        return value
    if kind == 't':
        return text_bits(value)
    if kind == 'descriptors':
        return ''.join(ubits(d // 100000, 2) + ubits(d // 1000 % 100, 6) + ubits(d % 1000, 8) for d in value)
    if kind == 'data':  # uncompressed subsets of 001001 only
        return ''.join(ubits(v, NBITS_001001) for subset in value for v in subset)
    raise AssertionError(kind)


class Refused(Exception):
    pass


def reference_encode(json_data, ignore_declared_length):
    """
    :return: (bytes, total length, [(section index, start bit, section length or None)])
    """
    edition = json_data[0][2]
    sec2 = json_data[1][{2: 4, 3: 5, 4: 5}[edition]]
    indices = [0, 1] + ([2] if sec2 else []) + [3, 4, 5]
    assert len(indices) == len(json_data)
    out = ''
    sections = []
    for index, values in zip(indices, json_data):
        fields = layout(index, edition)
        assert len(fields) == len(values)
        bits = ''.join(field_bits(kind, nbits, value) for (_, kind, nbits), value in zip(fields, values))
        unit = 16 if edition <= 3 else 8
        bits += '0' * (-len(bits) % unit)
        section_length = None
        if fields[0][0] == 'section_length':
            declared = values[0]
            if declared == 0 or ignore_declared_length:
                section_length = len(bits) // 8
            else:
                section_length = declared
                if declared * 8 < len(bits):
                    nbytes_over = (len(bits) - declared * 8) // 8
                    raise Refused('Writing exceeds declared section length {} by {} bytes'.format(
                        declared, nbytes_over))
                bits += '0' * (declared * 8 - len(bits))
            bits = ubits(section_length, 24) + bits[24:]
        sections.append((index, len(out), section_length))
        out += bits
    assert len(out) % 8 == 0
    nbytes = len(out) // 8
    declared = json_data[0][1]
    if declared == 0 or ignore_declared_length:
        total = nbytes
    elif declared != nbytes:
        raise Refused('Write exceeds declared total length {} by {} bytes'.format(declared, nbytes - declared))
    else:
        total = declared
    out = out[:32] + ubits(total, 24) + out[56:]
    data = bytes(bytearray(int(out[i: i + 8], 2) for i in range(0, len(out), 8)))
    return data, total, sections


def make_json(edition, n_elements, local_bits, lengths, n_subsets=1):
    """lengths: declared lengths of (message, section 1, section 2, section 3, section 4)"""
    has2 = local_bits is not None
    if edition == 2:
        s1 = [lengths[1], 0, 98, 0, has2, '0000000', 0, 0, 13, 0, 12, 1, 2, 3, 4, 5]
    elif edition == 3:
        s1 = [lengths[1], 0, 0, 98, 0, has2, '0000000', 0, 0, 13, 0, 12, 1, 2, 3, 4, 5]
    else:
        s1 = [lengths[1], 0, 98, 0, 0, has2, '0000000', 0, 0, 0, 25, 0, 2012, 1, 2, 3, 4, 5]
    data = [['BUFR', lengths[0], edition], s1]
    if has2:
        data.append([lengths[2], '00000000', local_bits])
    data.append([lengths[3], '00000000', n_subsets, True, False, '000000', [1001] * n_elements])
    data.append([lengths[4], '00000000',
                 [[(i * 37 + 5 + 11 * k) % 127 for i in range(n_elements)] for k in range(n_subsets)]])
    data.append(['7777'])
    return data


DECODER = Decoder()
DECODER_COMPILING = Decoder(compiled_template_cache_max=20)


# ---------------------------------------------------------------------------------------------------------------
# Assembling a message and saying what the decoder has to find in it
# ---------------------------------------------------------------------------------------------------------------
class Assembled(object):
    def __init__(self, edition, n_elements, local_bits, surplus=(0, 0, 0, 0), n_subsets=1):
        """surplus: the octets declared beyond the (padded) content in the sections 1, 2, 3, 4"""
        self.edition = edition
        self.n_elements = n_elements
        self.n_subsets = n_subsets
        self.local_bits = local_bits
        plain = reference_encode(make_json(edition, n_elements, local_bits, [0] * 5, n_subsets), False)
        natural = dict((index, length) for index, _, length in plain[2])
        lengths = [0] + [natural.get(k, 0) + (surplus[k - 1] if natural.get(k) else 0) for k in (1, 2, 3, 4)]
        self.json_data = make_json(edition, n_elements, local_bits, lengths, n_subsets)
        self.data, self.total, self.sections = reference_encode(self.json_data, False)
        assert self.total == len(self.data) == plain[1] + sum(
            s for k, s in zip((1, 2, 3, 4), surplus) if natural.get(k))
        self.start = dict((index, start // 8) for index, start, _ in self.sections)  # in octets
        self.length = dict((index, length) for index, _, length in self.sections)
        # Spare octets of section 3 come out as descriptors
        n_spare = (self.length[3] - 7 - 2 * n_elements) // 2
        self.descriptors = [1001] * n_elements + [0] * n_spare
        self.values = self.json_data[-2][2]
        if local_bits is not None:
            self.local_bits_read = local_bits + '0' * (self.length[2] * 8 - 32 - len(local_bits))

    def patched(self, index, new_length):
        """The message with another length written into the section (nothing else changed)"""
        start = self.start[index]
        return self.data[:start] + new_length.to_bytes(3, 'big') + self.data[start + 3:]

    def content_nbits(self, index):
        """The bits the decoder reads in the section before it looks at the declared length"""
        if index == 1:
            return sum(nbits for _, _, nbits in SECTION1[self.edition])
        if index == 4:
            return 32 + NBITS_001001 * self.n_elements * self.n_subsets
        raise AssertionError(index)


def verify_decoded(message, assembled, label, info_only=False, expectation_ignored=False):
    check(isinstance(message, BufrMessage), label, 'unexpected', repr(message))
    a = assembled
    span = a.data[:-4] if info_only else a.data
    check(message.serialized_bytes == span, label, 'span', message.serialized_bytes, span)
    check(message.length.value == a.total, label, 'total length')
    check(message.edition.value == a.edition, label, 'edition')
    sections = a.sections[:-1] if info_only else a.sections
    check(len(message.sections) == len(sections), label, 'number of sections')
    for section, (index, start, length) in zip(message.sections, sections):
        check(section.get_metadata('index') == index, label, 'index')
        check(section.get_metadata(BITPOS_START) == start, label, 'start of section', index)
        if length is None:
            check('section_length' not in section, label)
        else:
            check(section.section_length.value == length, label, 'length of section', index)
        values = a.json_data[a.sections.index((index, start, length))]
        for parameter, (name, kind, nbits) in zip(section, layout(index, a.edition)):
            check(parameter.name == name, label, 'parameter name')
        by_name = dict((name, value) for (name, _, _), value in zip(layout(index, a.edition), values))
        if index == 0:
            check(section.start_signature.value == b'BUFR', label)
        if index == 1:
            for name, value in by_name.items():
                check(getattr(section, name).value == value, label, 'section 1', name)
                check(type(getattr(section, name).value) is type(value), label, 'section 1 type', name)
        if index == 2:
            check(section.reserved_bits.value == '00000000', label)
            check(section.local_bits.value == a.local_bits_read, label, 'local bits',
                  section.local_bits.value, a.local_bits_read)
            check(len(section) == 3, label)
        if index == 3:
            check(section.n_subsets.value == a.n_subsets, label)
            check(section.is_observation.value is True and section.is_compressed.value is False, label)
            check(section.unexpanded_descriptors.value == a.descriptors, label, 'descriptors',
                  section.unexpanded_descriptors.value, a.descriptors)
        if index == 4:
            if info_only:
                check(len(section) == 2 and 'template_data' not in section, label)
                check(section.get_metadata('end_of_message') is True, label)
            else:
                check(section.template_data.value.decoded_values_all_subsets == a.values, label, 'values')
        if index == 5:
            check(section.stop_signature.value == b'7777', label)
    check(message.is_section2_presents.value is (a.local_bits is not None), label)
    check(message.unexpanded_descriptors.value == a.descriptors, label)


def run_decoder(data, decoder=DECODER, **kwargs):
    kwargs.setdefault('wire_template_data', False)
    try:
        return decoder.process(data, **kwargs)
    except Exception as e:
        return e


def check_error(got, error_type, text, label):
    check(type(got) is error_type, label, 'expected', error_type, 'got', repr(got))
    if text is not None:
        check(got.message == text, label, got.message, text)


OVERRUN = 'Read exceeds declared section {} length: {} by {} bits'
UNKNOWN_000000 = 'Cannot process descriptor 000000 of type: UndefinedElementDescriptor'


# ---------------------------------------------------------------------------------------------------------------
# 1. Well-formed messages: edition x section 2 x data bits modulo 16 x surplus octets x bytes around the message
# ---------------------------------------------------------------------------------------------------------------
def demo_well_formed():
    n_messages = 0
    local_bits_choices = (None, '', '1', '101', '1' * 8, '10' * 6, '1' * 16, '011' * 7)
    surplus_choices = [(0, 0, 0, 0)]
    surplus_choices += [tuple(k if i == j else 0 for j in range(4)) for i in (0, 1, 3) for k in (1, 2, 3, 8)]
    surplus_choices += [(1, 3, 0, 5), (2, 2, 0, 2), (7, 1, 0, 1)]
    arounds = ((b'', b''), (b'', b'7777'), (b'\x00\x01junk', b'BUFR\x00\x00\x10\x04'), (b'BUF', b'\x00' * 5),
               (b'7777', b'77777777'))
    count = 0
    for edition in (2, 3, 4):
        for n_elements in range(0, 17):  # 7 * n modulo 16 takes every value
            for local_bits in local_bits_choices:
                for surplus in surplus_choices:
                    if surplus != (0, 0, 0, 0) and n_elements % 5 != 2 and local_bits not in (None, '101'):
                        continue
                    if local_bits is None and surplus[1] and sum(surplus) == surplus[1]:
                        continue
                    count += 1
                    a = Assembled(edition, n_elements, local_bits, surplus)
                    label = 'edition {} n {} local {!r} surplus {}'.format(edition, n_elements, local_bits, surplus)
                    before, after = arounds[count % len(arounds)]
                    verify_decoded(run_decoder(before + a.data + after), a, label)
                    n_messages += 1
                    if count % 7 == 0:
                        verify_decoded(run_decoder(a.data + after, start_signature=None), a, label + ' no search')
                        verify_decoded(run_decoder(before + a.data + after, info_only=True), a, label + ' info',
                                       info_only=True)
                        verify_decoded(run_decoder(before + a.data + after, ignore_value_expectation=True), a,
                                       label + ' no expectation')
                        verify_decoded(run_decoder(before + a.data + after, ignore_value_expectation=True,
                                                   info_only=True), a, label + ' no expectation, info',
                                       info_only=True)
                        verify_decoded(run_decoder(before + a.data + after, DECODER_COMPILING,
                                                   wire_template_data=True), a, label + ' compiled')
                        n_messages += 5

    # Surplus octets in section 3 are taken for descriptors as far as they make pairs
    for edition in (2, 3, 4):
        for n_elements in (0, 1, 2, 5):
            for k in (1, 2, 3, 4, 5):
                a = Assembled(edition, n_elements, None, (0, 0, k, 0))
                label = 'edition {} n {} surplus {} in section 3'.format(edition, n_elements, k)
                n_spare = ((0 if edition == 4 else 1) + k) // 2
                check(a.descriptors == [1001] * n_elements + [0] * n_spare, label, 'model')
                got = run_decoder(a.data + b'xx')
                if n_spare:
                    check_error(got, UnknownDescriptor, UNKNOWN_000000, label)
                else:
                    verify_decoded(got, a, label)
                verify_decoded(run_decoder(b'xx' + a.data, info_only=True), a, label + ' info', info_only=True)
                n_messages += 2

    # Several subsets
    for edition, n_subsets in itertools.product((2, 3, 4), (2, 3, 5)):
        for n_elements in (1, 2, 3, 9):
            for surplus in ((0, 0, 0, 0), (0, 0, 0, 3)):
                a = Assembled(edition, n_elements, '1', surplus, n_subsets)
                verify_decoded(run_decoder(a.data), a, 'subsets')
                n_messages += 1
    return n_messages


# ---------------------------------------------------------------------------------------------------------------
# 2. Sections declared shorter than their content, truncated messages, signatures
# ---------------------------------------------------------------------------------------------------------------
def demo_refused():
    n_messages = 0
    for edition in (2, 3, 4):
        for n_elements in (0, 1, 2, 7, 8, 16):
            for local_bits in (None, '', '101', '1' * 16):
                for surplus in ((0, 0, 0, 0), (2, 1, 0, 3)):
                    a = Assembled(edition, n_elements, local_bits, surplus)
                    label = 'edition {} n {} local {!r} surplus {}'.format(edition, n_elements, local_bits, surplus)
                    verify_decoded(run_decoder(a.data), a, label)

                    # Section 1: fixed content
                    nbits = a.content_nbits(1)
                    for short in sorted({0, 1, 3, nbits // 8 - 2, nbits // 8 - 1}):
                        for kwargs in ({}, {'info_only': True}):
                            got = run_decoder(a.patched(1, short), **kwargs)
                            check_error(got, PyBufrKitError, OVERRUN.format(1, short, nbits - 8 * short),
                                        label + ' section 1 declared {}'.format(short))
                            n_messages += 1
                    # ... and exactly its content is fine for section 1 itself (what follows is then misplaced
                    # only if there was surplus)
                    if not surplus[0]:
                        verify_decoded(run_decoder(a.patched(1, nbits // 8)), a, label + ' section 1 exact')

                    # Section 2: the rest of the section would be negative
                    if local_bits is not None:
                        for short in (0, 1, 2, 3):
                            for kwargs in ({}, {'info_only': True}, {'ignore_value_expectation': True}):
                                got = run_decoder(a.patched(2, short), **kwargs)
                                check_error(got, PyBufrKitError, OVERRUN.format(2, short, 32 - 8 * short),
                                            label + ' section 2 declared {}'.format(short))
                                n_messages += 1

                    # Section 3: shorter than its fixed part; no descriptors are read then
                    for short in (0, 1, 4, 6):
                        for kwargs in ({}, {'info_only': True}):
                            got = run_decoder(a.patched(3, short), **kwargs)
                            check_error(got, PyBufrKitError, OVERRUN.format(3, short, 56 - 8 * short),
                                        label + ' section 3 declared {}'.format(short))
                            n_messages += 1

                    # Section 4: shorter than header and data
                    nbits = a.content_nbits(4)
                    nbytes = (nbits + 7) // 8
                    for short in sorted({0, 1, 3, 4, nbytes - 1} - ({4} if n_elements == 0 else set())):
                        if short * 8 >= nbits:
                            continue
                        got = run_decoder(a.patched(4, short))
                        check_error(got, PyBufrKitError, OVERRUN.format(4, short, nbits - 8 * short),
                                    label + ' section 4 declared {}'.format(short))
                        # Without the data only the header of 4 octets is read
                        got = run_decoder(a.patched(4, short), info_only=True)
                        if short < 4:
                            check_error(got, PyBufrKitError, OVERRUN.format(4, short, 32 - 8 * short),
                                        label + ' section 4 declared {}, info'.format(short))
                        else:
                            check(isinstance(got, BufrMessage) and
                                  got.serialized_bytes == a.patched(4, short)[:a.start[4] + short], label, 'info short 4')
                        n_messages += 2
                    # Declared to the octet in which the data end: fine, even if the padding to an even number of
                    # octets is not counted; what follows is not 7777 then
                    if a.length[4] != nbytes:
                        got = run_decoder(a.patched(4, nbytes))
                        follows = a.data[a.start[4] + nbytes: a.start[4] + nbytes + 4]
                        check_error(got, PyBufrKitError,
                                    'Value ({!r}) not as expected ({!r})'.format(follows, b'7777'),
                                    label + ' section 4 declared to the end of the data')
                        got = run_decoder(a.patched(4, nbytes), ignore_value_expectation=True)
                        check(isinstance(got, BufrMessage) and
                              got.serialized_bytes == a.patched(4, nbytes)[:a.start[4] + nbytes + 4] and
                              got.sections[-1].stop_signature.value == follows and
                              got.sections[-2].section_length.value == nbytes, label, 'expectation ignored')
                        n_messages += 2

                    # Truncated anywhere
                    cuts = {4, 5, 7, 8, 9, a.start[3] - 1, a.start[3], a.start[3] + 2, a.start[3] + 7,
                            a.start[4], a.start[4] + 3, a.start[4] + 4, a.start[5] - 1, a.start[5],
                            a.start[5] + 1, a.start[5] + 3}
                    if local_bits is not None:
                        cuts |= {a.start[2], a.start[2] + 2, a.start[2] + 3, a.start[2] + 4, a.start[3] - 1}
                    for cut in sorted(cuts):
                        got = run_decoder(b'..' + a.data[:cut])
                        check_error(got, BitReadError, None, label + ' cut at {}'.format(cut))
                        n_messages += 1
                    for cut in (0, 1, 3):
                        check_error(run_decoder(b'..' + a.data[:cut]), PyBufrKitError,
                                    "Cannot find start signature: {}".format(b'BUFR'), label + ' no start')

                    # Signatures
                    broken = a.data[:-1] + b'8'
                    check_error(run_decoder(broken), PyBufrKitError,
                                'Value ({!r}) not as expected ({!r})'.format(b'7778', b'7777'), label + ' stop')
                    got = run_decoder(broken, ignore_value_expectation=True)
                    check(isinstance(got, BufrMessage) and got.serialized_bytes == broken, label, 'stop ignored')
                    check_error(run_decoder(b'xx' + a.data, start_signature=None), PyBufrKitError,
                                'Value ({!r}) not as expected ({!r})'.format(b'xxBU', b'BUFR'), label + ' start')
                    check_error(run_decoder(b'xx' + a.data, start_signature=b'BUFS'), PyBufrKitError,
                                'Cannot find start signature: {}'.format(b'BUFS'), label + ' other start')
                    n_messages += 5
    return n_messages


# ---------------------------------------------------------------------------------------------------------------
# 3. Streams of messages
# ---------------------------------------------------------------------------------------------------------------
def demo_streams():
    assembled = [Assembled(4, 3, None), Assembled(3, 5, '101', (1, 2, 0, 3)), Assembled(2, 0, '', (0, 1, 0, 0)),
                 Assembled(4, 16, '1' * 9, (3, 0, 1, 1), 2), Assembled(3, 2, None, (0, 0, 0, 8))]
    stream = b'head' + b'\r\n7777'.join(a.data for a in assembled) + b'tail BUF'
    for info_only in (False, True):
        messages = list(generate_bufr_message(DECODER, stream, info_only=info_only))
        check(len(messages) == len(assembled), 'stream: number of messages')
        for message, a in zip(messages, assembled):
            check(message.serialized_bytes == a.data, 'stream: span')
            check(message.length.value == a.total, 'stream: total')
            check([s.section_length.value for s in message.sections if 'section_length' in s] ==
                  [length for _, _, length in a.sections if length is not None], 'stream: section lengths')
    # A message with a section that is declared too short in the middle of the stream
    bad = assembled[1].patched(1, 5)
    stream = assembled[0].data + bad + assembled[2].data
    try:
        list(generate_bufr_message(DECODER, stream))
    except PyBufrKitError as e:
        check_error(e, PyBufrKitError, OVERRUN.format(1, 5, 18 * 8 - 40), 'stream: refusal')
    else:
        check(False, 'stream: refusal expected')
    return len(assembled) * 2 + 1


# ---------------------------------------------------------------------------------------------------------------
# 4. Sample files: spans and section lengths as an independent walk over the octets finds them; surplus octets
#    put into the samples change nothing in what is decoded
# ---------------------------------------------------------------------------------------------------------------
def walk(data):
    """Independent walk over the sections of the message at the beginning of data: [(index, start, length)]"""
    check(data[:4] == b'BUFR', 'walk: start')
    total = int.from_bytes(data[4:7], 'big')
    edition = data[7]
    spans = [(0, 0, 8)]
    pos = 8
    has2 = bool(data[pos + (7 if edition <= 3 else 9)] & 0x80)
    for index in (1, 2, 3, 4):
        if index == 2 and not has2:
            continue
        length = int.from_bytes(data[pos: pos + 3], 'big')
        spans.append((index, pos, length))
        pos += length
    spans.append((5, pos, 4))
    check(data[pos: pos + 4] == b'7777' and pos + 4 == total, 'walk: extent')
    return spans


def insert_surplus(data, spans, index, n_octets):
    """n_octets zero octets more at the end of the section; the lengths of section and message adjusted"""
    _, start, length = next(span for span in spans if span[0] == index)
    total = int.from_bytes(data[4:7], 'big')
    out = (data[:start] + (length + n_octets).to_bytes(3, 'big') + data[start + 3: start + length] +
           b'\0' * n_octets + data[start + length:])
    return out[:4] + (total + n_octets).to_bytes(3, 'big') + out[7:]


def demo_samples():
    data_dir = os.path.join(os.getcwd(), 'tests', 'data')
    n_messages = 0
    for name in ('207003', 'jaso_214', 'uegabe', 'b005_89', 'rado_250', 'ISMD01_OKPR', 'contrived',
                 'profiler_european', 'IUSK73_AMMC_040000'):
        with open(os.path.join(data_dir, name + '.bufr'), 'rb') as ins:
            original = ins.read()
        offset = original.find(b'BUFR')
        spans = walk(original[offset:])
        total = spans[-1][1] + 4
        plain = DECODER.process(original + b'BUFR')
        check(plain.serialized_bytes == original[offset: offset + total], 'sample span', name)

        def verify(message, spans, label):
            check(len(message.sections) == len(spans), label, 'sections')
            for section, (index, start, length) in zip(message.sections, spans):
                check(section.get_metadata('index') == index, label, 'index')
                check(section.get_metadata(BITPOS_START) == start * 8, label, 'start')
                if index in (1, 2, 3, 4):
                    check(section.section_length.value == length, label, 'length', index)
            check(message.length.value == spans[-1][1] + 4, label, 'total')

        verify(plain, spans, name)
        values = plain.template_data.value.decoded_values_all_subsets
        for index, n_octets in ((1, 1), (1, 4), (4, 1), (4, 2), (4, 9), (2, 3)):
            if index == 2 and not any(span[0] == 2 for span in spans):
                continue
            data = insert_surplus(original[offset: offset + total], spans, index, n_octets)
            message = DECODER.process(b'\x01\x02' + data + original[offset + total:] + b'7777')
            label = '{} with {} more in section {}'.format(name, n_octets, index)
            check(message.serialized_bytes == data, label, 'span')
            verify(message, walk(data), label)
            check(message.template_data.value.decoded_values_all_subsets == values, label, 'values')
            if index == 2:
                check(message.sections[2].local_bits.value ==
                      plain.sections[2].local_bits.value + '0' * (8 * n_octets), label, 'local bits')
            n_messages += 1
        # The data section declared one octet (edition 4) / two octets (else) shorter than it is
        _, start4, length4 = spans[-2]
        step = 1 if original[offset + 7] > 3 else 2
        shorter = original[offset: offset + start4] + (length4 - step - 2).to_bytes(3, 'big') + \
            original[offset + start4 + 3:]
        got = run_decoder(shorter)
        check(type(got) is PyBufrKitError and
              got.message.startswith('Read exceeds declared section 4 length: {} by '.format(length4 - step - 2)),
              name, 'shorter section 4', repr(got))
        n_messages += 1
    return n_messages


if __name__ == '__main__':
    n = demo_well_formed()
    n += demo_refused()
    n += demo_streams()
    n += demo_samples()
    print('OK: {} messages, {} checks'.format(n, N_CHECKS[0]))
