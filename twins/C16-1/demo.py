import os, sys; sys.path.insert(0, os.getcwd())
import json
import random

from pybufrkit.decoder import Decoder
from pybufrkit.encoder import Encoder
from pybufrkit.renderer import NestedJsonRenderer, FlatJsonRenderer
from pybufrkit.dataquery import (NodePathParser, DataQuerent, QueryResult, PathComponent,
                                 PATH_SEPARATOR_CHILD, PATH_SEPARATOR_ATTRIB, PATH_SEPARATOR_DESCEND)
from pybufrkit.templatedata import (ValueDataNode, NoValueDataNode, SequenceNode,
                                    FixedReplicationNode, DelayedReplicationNode)
from pybufrkit.errors import QueryError, PathExprParsingError
from pybufrkit.utils import EntityEncoder

DATA = os.path.join('tests', 'data')
QUERENT = DataQuerent(NodePathParser())


def load(name, **decoder_kwargs):
    with open(os.path.join(DATA, name), 'rb') as ins:
        return Decoder(**decoder_kwargs).process(ins.read())


def nested_json(message):
    return NestedJsonRenderer()._render_template_data(message.template_data.value)


def raises(exc_type, func, *args, **kwargs):
    try:
        func(*args, **kwargs)
    except exc_type as e:
        # exact type, not a subclass
        return type(e) is exc_type
    except Exception:
        return False
    return False


# --------------------------------------------------------------------------
# Independent oracle: evaluates a path of child (/) and attribute (.) steps
# over the nested JSON rendering of the message. It never touches the node
# tree nor any DataQuerent method.
# --------------------------------------------------------------------------
class OracleError(Exception):
    pass


def is_replication(j):
    return j['id'][0] == '1' and 'members' in j


def pick(candidates, id_, slc):
    entries = [e for e in enumerate(candidates) if e[1]['id'] == id_]
    if isinstance(slc, int):
        return entries[slc:slc + 1]
    return sorted(entries[slc], key=lambda e: e[0])  # document order


def evaluate(j, comps):
    sep, id_, slc = comps[0]
    if sep == '/':
        if 'members' not in j:
            raise OracleError('no child nodes')
        if is_replication(j):
            blocks = j['members']  # one list per repetition
            if not blocks:
                return []
            positions = [p for p, _ in pick(blocks[0], id_, slc)]
            envelope = []
            for block in blocks:
                r = proceed([block[p] for p in positions], comps)
                if r:
                    envelope.append(r)
            return [envelope] if envelope else []  # one envelope per replication
        return proceed([n for _, n in pick(j['members'], id_, slc)], comps)
    if 'factor' not in j and 'attributes' not in j:
        raise OracleError('no attribute nodes')
    candidates = ([j['factor']] if 'factor' in j else []) + j.get('attributes', [])
    return proceed([n for _, n in pick(candidates, id_, slc)], comps)


def proceed(jnodes, comps):
    if len(comps) == 1:
        return jnodes
    out = []
    for n in jnodes:
        out += evaluate(n, comps[1:])
    return out


def to_values(x):
    out = []
    for e in x:
        if isinstance(e, list):
            out.append(to_values(e))
        elif 'value' in e:
            out.append(e['value'])
        else:
            raise OracleError('valueless')
    return out


def oracle(nested_subsets, comps, subset_indices):
    return [to_values(evaluate({'id': 'TEMPLATE', 'members': nested_subsets[i]}, comps))
            for i in subset_indices]


def slice_text(slc):
    if isinstance(slc, int):
        return '[{}]'.format(slc)
    if slc == slice(None):
        return ''
    return '[{}:{}:{}]'.format(*['' if v is None else v for v in (slc.start, slc.stop, slc.step)])


def expr_of(comps, subset=''):
    return subset + ''.join(sep + id_ + slice_text(slc) for sep, id_, slc in comps)


def as_parsed(slc):
    # a written negative index means "that one from the end"
    if isinstance(slc, int) and slc < 0:
        return slice(slc, slc + 1 if slc != -1 else None, None)
    return slc


def enumerate_paths(nested_subsets, max_depth=6):
    """All distinct chains of (separator, id), ending at a node with a value."""
    found = set()

    def walk(j, prefix):
        if len(prefix) >= max_depth:
            return
        kids = []
        if 'members' in j:
            members = j['members']
            if is_replication(j):
                members = [n for block in members for n in block]
            kids += [('/', n) for n in members]
        if 'factor' in j:
            kids.append(('.', j['factor']))
        kids += [('.', n) for n in j.get('attributes', [])]
        for sep, n in kids:
            p = prefix + ((sep, n['id']),)
            if 'value' in n:
                found.add(p)
            walk(n, p)

    for subset in nested_subsets:
        walk({'id': 'TEMPLATE', 'members': subset}, ())
    return sorted(found)


SLICES = [slice(None), 0, 1, 2, -1, -2, 7, slice(1, None, None), slice(None, None, 2),
          slice(None, None, -1), slice(-2, None, None), slice(0, 5, 3), slice(3, 1, -1), slice(5, 2, None)]


def sweep(name, rnd, n_variants=4, selectors=('', '@[-1]', '@[::3]', '@[1:2]'), message=None, nested=None):
    """Compare DataQuerent with the oracle for every path of the message, with
    bare IDs and with random slices at every step. Return (n_queries, n_errors)."""
    message = message or load(name)
    nested = nested or nested_json(message)
    n_subsets = message.n_subsets.value
    every = list(range(n_subsets))
    picks = {'': every, '@[-1]': every[-1:], '@[::3]': every[::3], '@[1:2]': every[1:2]}
    n_queries = n_errors = 0
    for path in enumerate_paths(nested[:3] + nested[-1:]):
        variants = [[(s, i, slice(None)) for s, i in path]]
        for _ in range(n_variants):
            variants.append([(s, i, rnd.choice(SLICES)) for s, i in path])
        for comps in variants:
            parsed = [(s, i, as_parsed(c)) for s, i, c in comps]
            for selector in selectors:
                if n_subsets > 8 and selector == '':
                    continue  # keep the demo quick
                expr = expr_of(comps, selector)
                try:
                    expected = oracle(nested, parsed, picks[selector])
                except OracleError:
                    assert raises(QueryError, QUERENT.query, message, expr), expr
                    n_errors += 1
                    continue
                result = QUERENT.query(message, expr)
                assert result.subset_indices() == picks[selector], (name, expr)
                assert result.all_values() == expected, (name, expr)
                n_queries += 1
    return n_queries, n_errors


# --------------------------------------------------------------------------
# Tiny hand-made node trees for calling the filter methods directly
# --------------------------------------------------------------------------
class FakeDescriptor(object):
    def __init__(self, id_, n_members=None):
        self.id_ = id_
        if n_members is not None:
            self.n_members = n_members

    def __str__(self):
        return self.id_


_index_counter = [0]


def V(id_, attributes=None):
    node = ValueDataNode(FakeDescriptor(id_), _index_counter[0])
    _index_counter[0] += 1
    for a in attributes or []:
        node.add_attribute(a)
    return node


def S(id_, members):
    node = SequenceNode(FakeDescriptor(id_))
    node.members = members
    return node


def R(id_, n_members, members):
    node = FixedReplicationNode(FakeDescriptor(id_, n_members))
    node.members = members
    return node


def D(id_, n_members, factor, members):
    node = DelayedReplicationNode(FakeDescriptor(id_, n_members))
    node.factor = factor
    node.members = members
    return node


def PC(sep, id_, slc=slice(None)):
    return PathComponent(sep, id_, slc)


def ids(nested_nodes):
    return [ids(n) if isinstance(n, list) else str(n.descriptor) for n in nested_nodes]


# ==========================================================================
# Demo 1 - filter_for_entities (slice application, document order)
# ==========================================================================
def main():
    q = QUERENT
    a0, b0, a1, c0, a2, a3 = V('A'), V('B'), V('A'), V('C'), V('A'), V('A')
    seq = S('300001', [V('A'), V('Z')])
    nodes = [a0, b0, a1, seq, c0, a2, a3]

    # ---- child separator, integer slices: exactly the n-th match
    for get_node in (True, False):
        def f(sep, id_, slc, ns=nodes):
            return q.filter_for_entities(ns, PC(sep, id_, slc), get_node=get_node)

        def want(*positions):
            return [nodes[p] if get_node else p for p in positions]

        assert f('/', 'A', 0) == want(0)
        assert f('/', 'A', 1) == want(2)
        assert f('/', 'A', 3) == want(6)
        assert f('/', 'A', 4) == []          # beyond the matches
        assert f('/', 'Q', 0) == []          # no match at all
        assert f('/', 'A', True) == want(2)  # bool is an int
        assert f('.', 'A', 2) == want(5)
        # ---- slice objects, always in document order
        assert f('/', 'A', slice(None)) == want(0, 2, 5, 6)
        assert f('/', 'A', slice(None, None, -1)) == want(0, 2, 5, 6)
        assert f('/', 'A', slice(3, 0, -2)) == want(2, 6)
        assert f('/', 'A', slice(-1, None)) == want(6)
        assert f('/', 'A', slice(-2, -1)) == want(5)
        assert f('/', 'A', slice(1, 3)) == want(2, 5)
        assert f('/', 'A', slice(10, 20)) == []
        assert f('/', '300001', slice(None)) == want(3)
        # ---- descendant separator: composite nodes are kept besides the matches
        assert f('>', 'A', slice(None)) == want(0, 2, 3, 5, 6)
        assert f('>', 'A', 0) == want(0, 3)        # no early stop for '>'
        assert f('>', 'A', 3) == want(3, 6)
        assert f('>', 'A', 9) == want(3)
        assert f('>', 'Q', 0) == want(3)
        assert f('>', 'A', slice(None, None, -2)) == want(2, 3, 6)
        assert f('>', '300001', slice(None)) == want(3)  # exact match wins over keep
        assert f('>', 'A', -1) == want(3, 6)       # hand-made negative int, descendant
        # ---- empty input
        assert f('/', 'A', 0, ns=[]) == []
        assert f('/', 'A', slice(None), ns=[]) == []
        assert f('>', 'A', 0, ns=[]) == []
        # ---- iterator input is consumed only as far as needed
        it = iter(nodes)
        assert q.filter_for_entities(it, PC('/', 'A', 1), get_node=get_node) == want(2)
        assert next(it) is seq
        # ---- truthy / falsy get_node values
    assert q.filter_for_entities(nodes, PC('/', 'A', 1), get_node='yes') == [a1]
    assert q.filter_for_entities(nodes, PC('/', 'A', 1), get_node=0) == [2]
    assert q.filter_for_entities(nodes, PC('/', 'A', 1)) == [a1]

    # ---- wrappers
    assert q.filter_for_nodes(nodes, PC('/', 'A', slice(1, None))) == [a1, a2, a3]
    assert q.filter_for_indices(nodes, PC('/', 'A', slice(1, None))) == [2, 5, 6]
    result = q.filter_for_nodes(nodes, PC('/', 'A'))
    assert result is not nodes and all(x is y for x, y in zip(result, [a0, a1, a2, a3]))

    # ---- error cases with hand-made components (the parser never produces them)
    assert raises(IndexError, q.filter_for_entities, [b0, a0], PC('/', 'A', -1))   # checked at the first node
    assert q.filter_for_entities([a0, b0], PC('/', 'A', -1)) == [a0]
    assert raises(IndexError, q.filter_for_entities, [], PC('/', 'A', -1))
    assert raises(IndexError, q.filter_for_entities, [b0], PC('>', 'A', -1))
    assert raises(TypeError, q.filter_for_entities, nodes, PC('/', 'A', None))
    assert raises(TypeError, q.filter_for_entities, nodes, PC('/', 'A', '0'))
    assert raises(TypeError, q.filter_for_entities, nodes, PC('/', 'A', 1.0))
    assert raises(TypeError, q.filter_for_entities, [], PC('/', 'A', None))
    assert raises(AttributeError, q.filter_for_entities, [object()], PC('/', 'A', 0))
    assert raises(TypeError, q.filter_for_entities, None, PC('/', 'A', 0))

    # ---- whole messages against the oracle, many slices at every step
    rnd = random.Random(1601)
    total = errors = 0
    for name in ('contrived.bufr', 'jaso_214.bufr', 'ISMD01_OKPR.bufr', 'amv2_87.bufr',
                 'IUSK73_AMMC_182300.bufr', 'uegabe.bufr'):
        n, e = sweep(name, rnd, n_variants=5)
        total += n
        errors += e
    assert total > 3000 and errors > 0, (total, errors)

    # ---- a few literal expectations
    m = load('jaso_214.bufr')
    assert q.query(m, '@[1]/123002/021062').all_values() == [[[[11.28, 0.02], [14.78, 0.03]]]]
    assert q.query(m, '@[1]/123002/021062[1]').all_values() == [[[[0.02], [0.03]]]]
    assert q.query(m, '@[1]/123002/021062[-1]').all_values() == [[[[0.02], [0.03]]]]
    assert q.query(m, '@[1]/123002/021062[::-1]').all_values() == [[[[11.28, 0.02], [14.78, 0.03]]]]
    assert q.query(m, '@[1]/123002/021062[2]').all_values() == [[]]
    m = load('contrived.bufr')
    assert q.query(m, '008002').all_values(flat=True) == [[1, 3, 21, 5, 7, 9, 22], [12, 10, 8, 22, 6, 4, 21]]
    # every level holds one 008002 only, so [0] at each level selects them all and [1] none
    assert q.query(m, '008002[0]').all_values() == [[[[[[1], [3]], 21], [[[5], [7], [9]], 22]]],
                                                    [[[[[12], [10], [8]], 22], [[[6], [4]], 21]]]]
    assert q.query(m, '008002[1]').all_values(flat=True) == [[], []]
    print('demo 1 ok: {} queries agree with the oracle, {} expected QueryErrors'.format(total, errors))


if __name__ == '__main__':
    main()
