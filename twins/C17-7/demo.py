import os, sys; sys.path.insert(0, os.getcwd())
"""
Differential demonstration for refactor 7 (SectionConfigurer: section construction and
presence test split out of configure_section, info_configuration on a try/except lookup).

Everything the library returns is compared with expectations computed in this file without the
library: a reference transformer written from the documentation of info_configuration, the section
layouts read straight from the JSON files, hand-packed messages whose field values are known by
construction, and a small bit-level reference parser for the sample files.

Run from the worktree root:  /venv/bin/python _out/7/demo.py     (exit status 0 = all checks passed)
"""
import copy
import glob
import json
import logging

import pybufrkit
from pybufrkit.bufr import BufrMessage, BufrSection, SectionConfigurer, SectionParameter
from pybufrkit.decoder import Decoder, generate_bufr_message
from pybufrkit.errors import PyBufrKitError, BitReadError
from pybufrkit.mdquery import MetadataExprParser, MetadataQuerent

assert os.path.dirname(os.path.abspath(pybufrkit.__file__)) == os.path.join(os.getcwd(), 'pybufrkit'), \
    'run from the worktree root'

N_CHECKS = [0]


def check(condition, what):
    N_CHECKS[0] += 1
    if not condition:
        print('FAILED: {}'.format(what))
        sys.exit(1)


def outcome(func, *args, **kwargs):
    """('ok', result) or ('raise', exception type, str(exception))"""
    try:
        return 'ok', func(*args, **kwargs)
    except Exception as e:
        return 'raise', type(e), str(e)


# ---------------------------------------------------------------------------------------------
# Independent knowledge of the layouts: the JSON files themselves
# ---------------------------------------------------------------------------------------------
DEFINITIONS_DIR = os.path.join(os.getcwd(), 'pybufrkit', 'definitions')


def load_json(fname):
    with open(os.path.join(DEFINITIONS_DIR, fname)) as ins:
        return json.load(ins)


def ref_layout(section_index, edition):
    """The layout that governs a section of a message of the given edition (None: not known yet)"""
    if section_index == 1:
        fname = 'section1-{}.json'.format(edition if edition in (1, 2, 3, 4) else 4)
    else:
        fname = 'section{}.json'.format(section_index)
    return load_json(fname)


def ref_info_configuration(config):
    """Written from the docstring: keep what is in front of the template data and end the message there"""
    for i, parameter in enumerate(config['parameters']):
        if parameter['type'] == 'template_data':
            cut = i
            break
    else:
        cut = None
    for parameter in config['parameters']:
        parameter['type']  # every parameter has to carry a type
    if cut is None:
        return config
    expected = {}
    for k, v in config.items():
        expected[k] = copy.deepcopy(v)
    expected['end_of_message'] = True
    expected['parameters'] = config['parameters'][:cut]
    return expected


def ref_ignore_value_expectation(config):
    expected = json.loads(json.dumps(config))
    for parameter in expected['parameters']:
        parameter['expected'] = None
    return expected


REFERENCE_TRANSFORMERS = {'info_configuration': ref_info_configuration,
                          'ignore_value_expectation': ref_ignore_value_expectation}


# ---------------------------------------------------------------------------------------------
# 1. info_configuration / ignore_value_expectation on their own
# ---------------------------------------------------------------------------------------------
def part_transformers():
    bundled = [load_json(os.path.basename(f)) for f in sorted(glob.glob(os.path.join(DEFINITIONS_DIR, 'section*.json')))]
    check(len(bundled) == 9, 'nine bundled layouts')

    P = lambda name, type_, nbits=8, **kw: dict(dict(name=name, type=type_, nbits=nbits), **kw)
    synthetic = [
        # no template data at all / no parameter at all
        {'index': 7, 'parameters': []},
        {'index': 7, 'parameters': [P('a', 'uint'), P('b', 'bin')]},
        # template data first, in the middle, last, twice
        {'index': 7, 'parameters': [P('t', 'template_data', 0), P('a', 'uint')]},
        {'index': 7, 'parameters': [P('a', 'uint'), P('t', 'template_data', 0), P('b', 'uint')]},
        {'index': 7, 'parameters': [P('a', 'uint'), P('b', 'uint'), P('t', 'template_data', 0)]},
        {'index': 7, 'parameters': [P('a', 'uint'), P('t', 'template_data', 0), P('b', 'uint'),
                                    P('t2', 'template_data', 0), P('c', 'uint')]},
        # 'end_of_message' already there (True / False), in front of and behind 'parameters'
        {'index': 7, 'end_of_message': False, 'parameters': [P('a', 'uint'), P('t', 'template_data', 0)]},
        {'index': 7, 'parameters': [P('a', 'uint'), P('t', 'template_data', 0)], 'end_of_message': True,
         'extra': {'nested': [1, 2, {'x': 'y'}]}},
        # near misses of the type name
        {'index': 7, 'parameters': [P('a', 'template_data '), P('b', 'Template_data'), P('c', b'template_data')]},
        # parameters held by a tuple
        {'index': 7, 'parameters': (P('a', 'uint'), P('t', 'template_data', 0), P('b', 'uint'))},
        {'index': 7, 'parameters': (P('a', 'uint'),)},
    ]

    for config in bundled + synthetic:
        pristine = copy.deepcopy(config)
        result = SectionConfigurer.info_configuration(config)
        expected = ref_info_configuration(pristine)
        check(result == expected, 'info_configuration value for {}'.format(pristine))
        check(list(result) == list(expected), 'info_configuration key order for {}'.format(pristine))
        check(type(result['parameters']) is type(expected['parameters']), 'parameter container type')
        check(config == pristine, 'info_configuration leaves its argument alone')
        has_template_data = any(p['type'] == 'template_data' for p in pristine['parameters'])
        if has_template_data:
            check(result is not config, 'a new config when something is cut')
            check(result['end_of_message'] is True, 'message ends with the cut section')
            check(all(p['type'] != 'template_data' for p in result['parameters']), 'nothing from the data on')
            # the parameters that are kept are the very objects of the argument, everything else is a copy
            check(all(a is b for a, b in zip(result['parameters'], config['parameters'])), 'kept parameters shared')
            for k in config:
                if k != 'parameters' and isinstance(config[k], (dict, list)):
                    check(result[k] is not config[k] and result[k] == config[k], 'other entries deep-copied')
            # applying it again finds nothing to cut
            check(SectionConfigurer.info_configuration(result) is result, 'idempotent: same object back')
        else:
            check(result is config, 'the very same object when there is no template data')

        # the other transformer, also in combination (both orders), also through an instance
        for transformers in ((SectionConfigurer.ignore_value_expectation,),
                             (SectionConfigurer.info_configuration, SectionConfigurer.ignore_value_expectation),
                             (SectionConfigurer.ignore_value_expectation, SectionConfigurer.info_configuration),
                             (SectionConfigurer().info_configuration, SectionConfigurer().ignore_value_expectation)):
            if isinstance(pristine['parameters'], tuple) or any(isinstance(p['type'], bytes) for p in pristine['parameters']):
                continue  # the json round trip of the reference cannot express these
            got, want = config, pristine
            for t in transformers:
                got = t(got)
                want = REFERENCE_TRANSFORMERS[t.__name__](want)
            check(got == want, 'transformer chain {} on {}'.format([t.__name__ for t in transformers], pristine))
            check(config == pristine, 'transformer chain leaves its argument alone')

    # Error behaviour: what is missing is reported by the same exception, whatever else is in the config
    bad = [
        ({}, KeyError),  # no parameters
        ({'parameters': None}, TypeError),
        ({'parameters': 5}, TypeError),
        ({'parameters': [{'name': 'a'}]}, KeyError),  # no type, nothing to cut
        ({'parameters': [P('t', 'template_data', 0), {'name': 'a'}]}, KeyError),  # no type *behind* the data
        ({'parameters': [{'name': 'a'}, P('t', 'template_data', 0)]}, KeyError),
        ({'parameters': [None]}, TypeError),
        (None, TypeError),
        ([], TypeError),
    ]
    for config, exc in bad:
        pristine = copy.deepcopy(config)
        got = outcome(SectionConfigurer.info_configuration, config)
        check(got[0] == 'raise' and got[1] is exc, 'info_configuration({!r}) raises {}: {}'.format(pristine, exc, got))
        check(config == pristine, 'argument untouched on error')

    # A type object whose comparison is peculiar: equal to everything -> the first position is the cut
    class Anything(object):
        def __eq__(self, other):
            return True

        def __ne__(self, other):
            return False

        __hash__ = None

    config = {'index': 1, 'parameters': [P('a', 'uint'), P('b', Anything()), P('t', 'template_data', 0)]}
    result = SectionConfigurer.info_configuration(config)
    check([p['name'] for p in result['parameters']] == ['a'], 'cut at the first parameter whose type equals the name')

    # A ValueError raised while the types are collected is not mistaken for "no template data"
    class Boom(dict):
        def __getitem__(self, item):
            if item == 'type':
                raise ValueError('boom')
            return dict.__getitem__(self, item)

    got = outcome(SectionConfigurer.info_configuration, {'parameters': [Boom(name='x')]})
    check(got[0] == 'raise' and got[1] is ValueError and got[2] == 'boom', 'ValueError of a parameter passes through')


# ---------------------------------------------------------------------------------------------
# 2. configure_section: what is built, when it is added, and in which order things fail
# ---------------------------------------------------------------------------------------------
class Flag(object):
    def __init__(self, value):
        self.value = value


class LogCapture(logging.Handler):
    def __init__(self):
        logging.Handler.__init__(self, level=logging.DEBUG)
        self.messages = []

    def emit(self, record):
        self.messages.append((record.levelname, record.getMessage()))


def describe_section(section):
    return dict(
        index=section.get_metadata('index'),
        description=section.get_metadata('description'),
        optional=section.get_metadata('optional'),
        end_of_message=section.get_metadata('end_of_message'),
        parameters=[(p.name, p.nbits, p.type, p.expected, p.as_property, p.value, p.parent is section)
                    for p in section],
    )


def ref_describe(config):
    def expected_of(p):
        e = p.get('expected', None)
        return e.encode('utf-8') if isinstance(e, type(u'')) else e
    return dict(
        index=config['index'],
        description=config.get('description', ''),
        optional=config.get('optional', False),
        end_of_message=config.get('end_of_message', False),
        parameters=[(p['name'], p['nbits'], p['type'], expected_of(p), p.get('as_property', False), None, True)
                    for p in config['parameters']],
    )


def part_configure_section():
    import pybufrkit.bufr
    handler = LogCapture()
    pybufrkit.bufr.log.addHandler(handler)
    old_level = pybufrkit.bufr.log.level
    pybufrkit.bufr.log.setLevel(logging.DEBUG)
    try:
        _part_configure_section(handler)
    finally:
        pybufrkit.bufr.log.removeHandler(handler)
        pybufrkit.bufr.log.setLevel(old_level)


def _part_configure_section(handler):
    configurer = SectionConfigurer()

    # 2a. bundled layouts, every edition, real message objects
    for edition in (None, 0, 1, 2, 3, 4, 5, 255):
        for section_index in range(6):
            for flag in (True, False, 1, 0, 2, '', 'x', None, [], [0]):
                for transformers in ((), (configurer.info_configuration,), (configurer.ignore_value_expectation,),
                                     (configurer.info_configuration, configurer.ignore_value_expectation)):
                    bufr_message = BufrMessage('f')
                    if edition is not None:
                        bufr_message.edition = Flag(edition)
                    bufr_message.is_section2_presents = Flag(flag)
                    del handler.messages[:]
                    section = configurer.configure_section(bufr_message, section_index, transformers)

                    config = ref_layout(section_index, edition)
                    for t in transformers:
                        config = REFERENCE_TRANSFORMERS[t.__name__](config)
                    present = (section_index != 2) or bool(flag)
                    label = (edition, section_index, flag, [t.__name__ for t in transformers])
                    if present:
                        check(isinstance(section, BufrSection), 'a section comes back {}'.format(label))
                        check(bufr_message.sections == [section] and bufr_message.sections[0] is section,
                              'and it is the one added to the message {}'.format(label))
                        check(describe_section(section) == ref_describe(config), 'section contents {}'.format(label))
                        check(all(isinstance(p, SectionParameter) for p in section), 'parameter objects')
                        check(not any(m.endswith('is not present') for _, m in handler.messages), 'no absence logged')
                    else:
                        check(section is None, 'absent optional section gives None {}'.format(label))
                        check(bufr_message.sections == [], 'and nothing is added {}'.format(label))
                        check(handler.messages[-1] == ('INFO', 'Section 2 is not present'), 'absence is logged last')
                    edition_label = edition if edition else 'default'
                    check(handler.messages[0] == ('INFO', 'Configure Section {} of edition {}'.format(
                        section_index, edition_label)), 'configuration is logged first {}'.format(handler.messages))
                    check(len(handler.messages) == (1 if present else 2), 'nothing else is logged')

    # 2b. default for configuration_transformers, keyword use
    bufr_message = BufrMessage()
    section = configurer.configure_section(bufr_message=bufr_message, section_index=4)
    check([p.name for p in section] == ['section_length', 'reserved_bits', 'template_data'], 'no transformer by default')
    section = configurer.configure_section(bufr_message, 4, configuration_transformers=[configurer.info_configuration])
    check([p.name for p in section] == ['section_length', 'reserved_bits'] and section.end_of_message is True,
          'transformers given as a list by keyword')
    check(len(bufr_message.sections) == 2, 'both added')

    # 2c. synthetic layouts: defaults of the metadata, order of the failures
    synthetic = SectionConfigurer()
    synthetic.configurations = {
        # minimal: only what is mandatory
        0: {0: {'index': 40, 'parameters': []}},
        # optional one, a parameter without the optional keys, text and bytes expectations
        1: {0: {'index': 41, 'optional': True, 'end_of_message': 0, 'description': 'd',
                'parameters': [{'name': 'a', 'nbits': 16, 'type': 'bytes', 'expected': u'ab'},
                               {'name': 'b', 'nbits': 3, 'type': 'uint', 'expected': 5, 'as_property': 1},
                               {'name': 'c', 'nbits': 0, 'type': 'bytes', 'expected': b'xy'}]}},
        # bytes parameter with a width that is not whole octets, in an optional section that is absent
        2: {0: {'index': 42, 'optional': True,
                'parameters': [{'name': 'a', 'nbits': 8, 'type': 'uint'}, {'name': 'b', 'nbits': 12, 'type': 'bytes'}]}},
        # missing mandatory keys
        3: {0: {'parameters': []}},
        4: {0: {'index': 44}},
        5: {0: {'index': 45, 'parameters': [{'name': 'a', 'nbits': 8}]}},
        6: {0: {'index': 46, 'parameters': [{'name': 'a', 'type': 'uint'}]}},
        7: {0: {'index': 47, 'parameters': [{'type': 'uint', 'nbits': 8}]}},
        # optional, truthy in another way
        8: {0: {'index': 48, 'optional': 'yes', 'parameters': [{'name': 'a', 'nbits': 8, 'type': 'uint'}]}},
        # same parameter name twice: the later one wins, at the place of the first
        9: {0: {'index': 49, 'parameters': [{'name': 'a', 'nbits': 8, 'type': 'uint'}, {'name': 'b', 'nbits': 1, 'type': 'bool'},
                                            {'name': 'a', 'nbits': 9, 'type': 'bin'}]}},
    }

    class Message(object):
        """Only what configure_section needs"""
        def __init__(self, **flags):
            self.edition = None
            self.sections = []
            for k, v in flags.items():
                setattr(self, k, Flag(v))

        def add_section(self, section):
            self.sections.append(section)

    m = Message()
    section = synthetic.configure_section(m, 0)
    check(describe_section(section) == dict(index=40, description='', optional=False, end_of_message=False, parameters=[]),
          'metadata defaults')
    check(m.sections == [section] and len(section) == 0, 'empty section added')

    for flag, present in ((True, True), (7, True), (False, False), (0, False), (None, False)):
        m = Message(is_section1_presents=flag)
        section = synthetic.configure_section(m, 1)
        if present:
            check(describe_section(section) == dict(
                index=41, description='d', optional=True, end_of_message=0,
                parameters=[('a', 16, 'bytes', b'ab', False, None, True), ('b', 3, 'uint', 5, 1, None, True),
                            ('c', 0, 'bytes', b'xy', False, None, True)]), 'synthetic optional section present')
            check(m.sections == [section], 'added')
        else:
            check(section is None and m.sections == [], 'synthetic optional section absent')

    # the flag of *this* section index is the one consulted; without it: AttributeError, nothing added
    m = Message(is_section2_presents=True)
    got = outcome(synthetic.configure_section, m, 1)
    check(got[0] == 'raise' and got[1] is AttributeError and 'is_section1_presents' in got[2], 'flag is looked up by index')
    check(m.sections == [], 'nothing added when the flag is missing')
    # a flag without .value
    m = Message()
    m.is_section1_presents = True
    got = outcome(synthetic.configure_section, m, 1)
    check(got[0] == 'raise' and got[1] is AttributeError and 'value' in got[2] and m.sections == [], 'flag without value')
    # not optional: the flag is not even looked at
    m = Message()
    check(synthetic.configure_section(m, 9) is m.sections[0], 'no flag needed for a mandatory section')
    check([(p.name, p.nbits, p.type) for p in m.sections[0]] == [('a', 9, 'bin'), ('b', 1, 'bool')], 'duplicate name')
    m = Message(is_section8_presents=False)
    check(synthetic.configure_section(m, 8) is None and m.sections == [], "optional: 'yes' counts, flag says absent")
    m = Message(is_section8_presents=True)
    check(synthetic.configure_section(m, 8) is m.sections[0], "optional: 'yes' counts, flag says present")

    # the width assertion comes before the presence test (absent and present alike, and without any flag)
    for m in (Message(is_section2_presents=False), Message(is_section2_presents=True), Message()):
        got = outcome(synthetic.configure_section, m, 2)
        check(got[0] == 'raise' and got[1] is AssertionError and got[2].endswith('multiple of 8: 12'), 'assertion first')
        check(m.sections == [], 'nothing added')
    for section_index, key in ((3, 'index'), (4, 'parameters'), (5, 'type'), (6, 'nbits'), (7, 'name')):
        m = Message()
        got = outcome(synthetic.configure_section, m, section_index)
        check(got[0] == 'raise' and got[1] is KeyError and got[2] == repr(key), 'missing {!r}: {}'.format(key, got))
        check(m.sections == [], 'nothing added')
    got = outcome(synthetic.configure_section, Message(), 10)
    check(got[0] == 'raise' and got[1] is KeyError and got[2] == '10', 'unknown section index')

    # transformers run before anything is built, in the order given; what they raise passes through
    calls = []

    def t1(config):
        calls.append(('t1', config['index']))
        return dict(config, index=config['index'] + 100, optional=False)

    def t2(config):
        calls.append(('t2', config['index']))
        return dict(config, description='from t2')

    def t3(config):
        raise ZeroDivisionError('t3')

    m = Message()
    section = synthetic.configure_section(m, 1, (t1, t2))
    check(calls == [('t1', 41), ('t2', 141)], 'transformers in order')
    check((section.get_metadata('index'), section.get_metadata('description'), section.optional) == (141, 'from t2', False)
          and m.sections == [section], 'their result is what is built, and decides whether the section is optional')
    got = outcome(synthetic.configure_section, m, 2, iter([t1, t3, t2]))
    check(got[0] == 'raise' and got[1] is ZeroDivisionError and len(m.sections) == 1, 'transformer failure passes through')

    # configure_section_with_values goes through the same path
    m = BufrMessage()
    section = configurer.configure_section_with_values(m, 0, [b'BUFR', 99, 4])
    check([(p.name, p.value) for p in section] == [('start_signature', b'BUFR'), ('length', 99), ('edition', 4)], 'values')
    m.is_section2_presents = Flag(False)
    check(configurer.configure_section_with_values(m, 2, [1, 2, 3]) is None and len(m.sections) == 1, 'absent, no values')
    m.is_section2_presents = Flag(True)
    section = configurer.configure_section_with_values(m, 2, [9, '0' * 8, '1'], overrides={'section_length': 5})
    check([p.value for p in section] == [5, '0' * 8, '1'] and m.sections[1] is section, 'present, overrides')


# ---------------------------------------------------------------------------------------------
# 3. Whole messages: packed by hand (values known by construction) and the sample files
#    (values from a reference parser working on the JSON layouts)
# ---------------------------------------------------------------------------------------------
def pack(fields):
    """fields: list of (nbits, int) -> bytes (total must be whole octets)"""
    total, acc = 0, 0
    for nbits, value in fields:
        assert 0 <= value < (1 << nbits), (nbits, value)
        acc = (acc << nbits) | value
        total += nbits
    assert total % 8 == 0
    return acc.to_bytes(total // 8, 'big')


def build_message(edition, section2=None, descriptors=(1001, 1002), data=b'\x12\x34\x80', n_subsets=1,
                  compressed=False, category=0, year=None, pad3=False, declared_length=None, tail=b'7777',
                  layout_edition=None):
    """
    :return: (bytes, expected) where expected is a list of (section index, [(name, value), ...]) for
        sections 0..3 and the two leading fields of section 4
    """
    layout_edition = layout_edition or edition
    if year is None:
        year = 2021 if layout_edition == 4 else 21
    has2 = section2 is not None
    if layout_edition == 4:
        s1_fields = [('section_length', 24, 22), ('master_table_number', 8, 0), ('originating_centre', 16, 260),
                     ('originating_subcentre', 16, 513), ('update_sequence_number', 8, 3)]
        s1_tail = [('data_category', 8, category), ('data_i18n_subcategory', 8, 6), ('data_local_subcategory', 8, 7),
                   ('master_table_version', 8, 25), ('local_table_version', 8, 0), ('year', 16, year)]
    elif layout_edition == 3:
        s1_fields = [('section_length', 24, 18), ('master_table_number', 8, 0), ('originating_subcentre', 8, 9),
                     ('originating_centre', 8, 98), ('update_sequence_number', 8, 3)]
        s1_tail = [('data_category', 8, category), ('data_local_subcategory', 8, 7),
                   ('master_table_version', 8, 13), ('local_table_version', 8, 0), ('year', 8, year)]
    elif layout_edition == 2:
        s1_fields = [('section_length', 24, 18), ('master_table_number', 8, 0),
                     ('originating_centre', 16, 98), ('update_sequence_number', 8, 3)]
        s1_tail = [('data_category', 8, category), ('data_local_subcategory', 8, 7),
                   ('master_table_version', 8, 13), ('local_table_version', 8, 0), ('year', 8, year)]
    else:
        assert layout_edition == 1
        s1_fields = [('originating_centre', 16, 98), ('update_sequence_number', 8, 3)]
        s1_tail = [('data_category', 8, category), ('data_local_subcategory', 8, 7),
                   ('master_table_version', 8, 13), ('local_table_version', 8, 0), ('year', 8, year)]
    s1_all = s1_fields + [('is_section2_presents', 1, int(has2)), ('flag_bits', 7, 0b0101010)] + s1_tail + \
        [('month', 8, 11), ('day', 8, 30), ('hour', 8, 23), ('minute', 8, 59), ('second', 8, 58)]
    s1 = pack([(n, v) for _, n, v in s1_all])

    def as_value(name, nbits, v):
        if name == 'is_section2_presents':
            return bool(v)
        if name == 'flag_bits':
            return format(v, '0{}b'.format(nbits))
        return v

    expected1 = [(name, as_value(name, n, v)) for name, n, v in s1_all]

    s2 = b''
    if has2:
        s2 = pack([(24, 4 + len(section2)), (8, 0xA5)]) + section2
    n3 = 7 + 2 * len(descriptors) + (1 if pad3 else 0)
    flags3 = (0x80 | (0x40 if compressed else 0)) | 0b010011
    s3 = pack([(24, n3), (8, 0x81), (16, n_subsets), (8, flags3)]) + \
        b''.join(pack([(2, d // 100000), (6, d // 1000 % 100), (8, d % 1000)]) for d in descriptors) + \
        (b'\xee' if pad3 else b'')
    s4 = pack([(24, 4 + len(data)), (8, 0x0f)]) + data
    body = s1 + s2 + s3 + s4 + tail
    total = 8 + len(body)
    declared = total if declared_length is None else declared_length
    s0 = b'BUFR' + pack([(24, declared), (8, edition)])

    expected = [
        (0, [('start_signature', b'BUFR'), ('length', declared), ('edition', edition)]),
        (1, expected1),
    ]
    if has2:
        expected.append((2, [('section_length', 4 + len(section2)), ('reserved_bits', '10100101'),
                             ('local_bits', ''.join(format(c, '08b') for c in section2))]))
    expected.append((3, [('section_length', n3), ('reserved_bits', '10000001'), ('n_subsets', n_subsets),
                         ('is_observation', True), ('is_compressed', compressed), ('flag_bits', '010011'),
                         ('unexpanded_descriptors', list(descriptors))]))
    expected.append((4, [('section_length', 4 + len(data)), ('reserved_bits', '00001111')]))
    return s0 + body, expected


class RefBits(object):
    def __init__(self, b):
        self.b, self.pos = b, 0

    def uint(self, nbits):
        if self.pos + nbits > len(self.b) * 8:
            raise EOFError
        value = int.from_bytes(self.b, 'big') >> (len(self.b) * 8 - self.pos - nbits) & ((1 << nbits) - 1) if nbits else 0
        self.pos += nbits
        return value


def ref_parse(b):
    """Sections 0..3 and the leading fields of section 4 of the message at the start of b, from the JSON layouts"""
    bits = RefBits(b)
    result, edition, has2 = [], None, None
    for section_index in (0, 1, 2, 3, 4):
        if section_index == 2 and not has2:
            continue
        layout = ref_layout(section_index, edition)
        start, values = bits.pos, []
        for p in layout['parameters']:
            if p['type'] == 'template_data':
                break
            nbits = p['nbits']
            if p['type'] == 'unexpanded_descriptors':
                n = (dict(values)['section_length'] - (bits.pos - start) // 8) // 2
                value = []
                for _ in range(n):
                    f, x, y = bits.uint(2), bits.uint(6), bits.uint(8)
                    value.append(f * 100000 + x * 1000 + y)
            else:
                if nbits == 0:
                    nbits = dict(values)['section_length'] * 8 - (bits.pos - start)
                raw = bits.uint(nbits)
                value = {'uint': lambda: raw, 'bool': lambda: raw == 1, 'bin': lambda: format(raw, '0{}b'.format(nbits)) if nbits else '',
                         'bytes': lambda: raw.to_bytes(nbits // 8, 'big')}[p['type']]()
            values.append((p['name'], value))
        if section_index == 0:
            edition = dict(values)['edition']
        if section_index == 1:
            has2 = dict(values)['is_section2_presents']
        if 'section_length' in dict(values):
            bits.pos = start + dict(values)['section_length'] * 8
        result.append((section_index, values))
    return result, bits.pos // 8


def observed(bufr_message, upto=3):
    return [(s.get_metadata('index'), [(p.name, p.value) for p in s]) for s in bufr_message.sections
            if s.get_metadata('index') <= upto]


def check_message(decoder, b, expected, nbytes_to_end_of_4, label, full_ok=True):
    querent = MetadataQuerent(MetadataExprParser())
    for ignore in (False, True):
        info = decoder.process(b, info_only=True, ignore_value_expectation=ignore)
        check(observed(info, upto=4) == expected, 'info-only values {} (ignore={})'.format(label, ignore))
        check(info.sections[-1].get_metadata('index') == 4 and info.sections[-1].end_of_message is True,
              'info-only ends with the cut data section {}'.format(label))
        check([s.end_of_message for s in info.sections[:-1]] == [False] * (len(info.sections) - 1), 'and only there')
        check(info.serialized_bytes == b[:nbytes_to_end_of_4], 'info-only serialized bytes {}'.format(label))
        check(not hasattr(info, '_template_data'), 'no template data in info-only mode')
        check(all(p.expected is None for s in info.sections for p in s) if ignore else
              info.sections[0].start_signature.expected == b'BUFR', 'expectations (ignore={})'.format(ignore))
        # '%name': first section in order that has it; '%k.name': section k
        for k, values in expected:
            for name, value in values:
                check(querent.query(info, '%{}.{}'.format(k, name)) == value, '%{}.{} {}'.format(k, name, label))
                first = [v for _, vs in expected for n, v in vs if n == name][0]
                check(querent.query(info, '%' + name) == first, '%{} {}'.format(name, label))
        check(querent.query(info, '%5.stop_signature') is None and querent.query(info, '%template_data') is None,
              'nothing behind the cut')

        got = outcome(decoder.process, b, ignore_value_expectation=ignore)
        if full_ok is True or (full_ok == 'when expectations are ignored' and ignore):
            check(got[0] == 'ok', 'full decode works {}: {}'.format(label, got))
            full = got[1]
            check(observed(full) == expected[:-1], 'full decode agrees on sections 0-3 {}'.format(label))
            check([s.get_metadata('index') for s in full.sections][-2:] == [4, 5], 'full decode goes on to the end')
            check(observed(full, upto=4)[-1][1][:2] == expected[-1][1], 'same leading fields of section 4')
            check([s.end_of_message for s in full.sections] == [False] * (len(full.sections) - 1) + [True], 'ends at 5')
        else:
            check(got[0] == 'raise' and issubclass(got[1], PyBufrKitError), 'full decode fails {}: {}'.format(label, got[:2]))


def part_messages():
    decoder = Decoder()

    # 3a. packed by hand: editions x section 2
    for edition in (2, 3, 4):
        for section2 in (None, b'', b'\x01\x02\x03'):
            for pad3 in (False, True):
                b, expected = build_message(edition, section2=section2, pad3=pad3)
                label = 'edition {} section2 {!r} pad {}'.format(edition, section2, pad3)
                check_message(decoder, b, expected, len(b) - 4, label)
                check(ref_parse(b) == (expected, len(b) - 4), 'reference parser agrees with the construction ' + label)
                # leading junk is skipped, trailing junk is ignored
                info = decoder.process(b'\x00junk' + b + b'tail', info_only=True)
                check(observed(info, upto=4) == expected and info.serialized_bytes == b[:-4], 'junk around ' + label)

                # damaged data: far too many subsets for three octets / descriptor unknown / wrong end
                b, expected = build_message(edition, section2=section2, pad3=pad3, n_subsets=1000)
                check_message(decoder, b, expected, len(b) - 4, 'damaged (subsets) ' + label, full_ok=False)
                b, expected = build_message(edition, section2=section2, pad3=pad3, descriptors=(1001, 63255))
                check_message(decoder, b, expected, len(b) - 4, 'damaged (descriptor) ' + label, full_ok=False)
                b, expected = build_message(edition, section2=section2, pad3=pad3, tail=b'6666')
                check_message(decoder, b, expected, len(b) - 4, 'damaged (end) ' + label,
                              full_ok='when expectations are ignored')
                b, expected = build_message(edition, section2=section2, pad3=pad3, data=b'\xff' * 2)
                check_message(decoder, b, expected, len(b) - 4, 'damaged (short data) ' + label, full_ok=False)

    # editions without a layout of their own use the default one (edition 4)
    for edition in (0, 5, 200):
        b, expected = build_message(edition, layout_edition=4, section2=b'\x10')
        check_message(decoder, b, expected, len(b) - 4, 'edition {}'.format(edition))

    # edition 1: the flag of section 2 is not a property of the message there -> AttributeError from the
    # presence test, whatever the mode
    b, _ = build_message(1)
    for kwargs in ({}, {'info_only': True}, {'info_only': True, 'ignore_value_expectation': True}):
        got = outcome(decoder.process, b, **kwargs)
        check(got[0] == 'raise' and got[1] is AttributeError and '_is_section2_presents' in got[2], 'edition 1: {}'.format(got))

    # data section declared longer than what is there: the skip over it runs out of bits in both modes
    b, _ = build_message(4)
    for kwargs in ({}, {'info_only': True}):
        got = outcome(decoder.process, b[:-6], **kwargs)
        check(got[0] == 'raise' and got[1] is BitReadError, 'truncated: {}'.format(got[:2]))
    # wrong start signature: rejected unless told to ignore, in which case the rest is still read
    bad = b'BUFX' + b[4:]
    got = outcome(decoder.process, bad, start_signature=None, info_only=True)
    check(got[0] == 'raise' and got[1] is PyBufrKitError and 'not as expected' in got[2], 'signature expected')
    info = decoder.process(bad, start_signature=None, info_only=True, ignore_value_expectation=True)
    check(info.sections[0].start_signature.value == b'BUFX' and info.edition.value == 4, 'signature ignored')

    # 3b. the sample files (first message of each), expected values from the reference parser
    querent = MetadataQuerent(MetadataExprParser())
    for fname in sorted(glob.glob(os.path.join('tests', 'data', '*.bufr'))):
        with open(fname, 'rb') as ins:
            s = ins.read()
        s = s[s.find(b'BUFR'):]
        expected, nbytes = ref_parse(s)
        info = decoder.process(s, info_only=True)
        check(observed(info, upto=4) == expected, 'info-only values of {}'.format(fname))
        check(info.serialized_bytes == s[:nbytes], 'info-only bytes of {}'.format(fname))
        got = outcome(decoder.process, s)
        if got[0] == 'ok':
            check(observed(got[1]) == expected[:-1], 'full decode of {}'.format(fname))
        else:
            check(issubclass(got[1], PyBufrKitError), 'sample that does not decode: {}'.format(fname))
        # the stream scanned in metadata-only mode: declared lengths
        spans = []
        pos = 0
        for m in generate_bufr_message(decoder, s, info_only=True):
            pos = s.find(b'BUFR', pos)
            declared = int.from_bytes(s[pos + 4: pos + 7], 'big')
            spans.append(s[pos: pos + declared])
            pos += declared
            check(m.serialized_bytes == spans[-1], 'declared length span in {}'.format(fname))
            check(querent.query(m, '%length') == declared, 'declared length in {}'.format(fname))
        check(len(spans) >= 1, 'at least one message in {}'.format(fname))


if __name__ == '__main__':
    part_transformers()
    part_configure_section()
    part_messages()
    print('OK: {} checks passed'.format(N_CHECKS[0]))
