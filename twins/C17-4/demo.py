import os, sys; sys.path.insert(0, os.getcwd())
import glob
import json
import logging

import pybufrkit
assert os.path.dirname(os.path.abspath(pybufrkit.__file__)) == os.path.join(os.getcwd(), 'pybufrkit'), \
    'run from the worktree root'

from pybufrkit.errors import PyBufrKitError, MetadataExprParsingError
from pybufrkit.bufr import BufrMessage, BufrSection, SectionParameter, SectionConfigurer
from pybufrkit.decoder import Decoder, generate_bufr_message
from pybufrkit.encoder import Encoder
from pybufrkit.mdquery import MetadataExprParser, MetadataQuerent

DEFINITIONS_DIR = os.path.join('pybufrkit', 'definitions')
DATA_DIR = os.path.join('tests', 'data')


def build_message(edition, with_s2, n_subsets=2):
    """Encode a tiny message (descriptors 001001, 001002) of the given edition."""
    s0 = ['BUFR', 0, edition]
    head = [0, 0]  # section_length, master_table_number
    if edition == 2:
        centre = [98]
    elif edition == 3:
        centre = [7, 98]  # sub-centre, centre
    else:
        centre = [98, 7]  # centre, sub-centre
    category = [2, 1, 4] if edition == 4 else [2, 4]
    year = 2024 if edition == 4 else 24
    s1 = head + centre + [3, with_s2, '0000000'] + category + [13, 0, year, 5, 17, 11, 45, 9]
    sections = [s0, s1]
    if with_s2:
        sections.append([0, '00000000', '1010101111001101'])
    sections.append([0, '00000000', n_subsets, True, False, '000000', [1001, 1002]])
    sections.append([0, '00000000', [[(i + 5) % 100, 100 + i] for i in range(n_subsets)]])
    sections.append(['7777'])
    return Encoder().process(json.dumps(sections)).serialized_bytes


def read_data(name):
    with open(os.path.join(DATA_DIR, name), 'rb') as ins:
        return ins.read()


def all_message_bytes():
    """(label, bytes) for editions 2, 3, 4 with and without section 2 plus real samples."""
    out = []
    for edition in (2, 3, 4):
        for with_s2 in (False, True):
            out.append(('built-e{}-s2{}'.format(edition, int(with_s2)), build_message(edition, with_s2)))
    for name in ('jaso_214.bufr', '207003.bufr', 'contrived.bufr', 'uegabe.bufr'):
        out.append((name, read_data(name)))
    return out


def all_parameter_names():
    names = set()
    for path in glob.glob(os.path.join(DEFINITIONS_DIR, 'section*.json')):
        with open(path) as ins:
            for parameter in json.load(ins)['parameters']:
                names.add(parameter['name'])
    assert {'length', 'edition', 'section_length', 'originating_subcentre', 'data_i18n_subcategory',
            'local_bits', 'unexpanded_descriptors', 'template_data', 'stop_signature'} <= names
    return sorted(names)


def oracle(bufr_message, section_index, name):
    """The value the property demands, computed without the library's query code."""
    for section in bufr_message.sections:
        if section_index is not None and section.get_metadata('index') != section_index:
            continue
        if name in section:
            return getattr(section, name).value
    return None


def section_values(section):
    return [(p.name, p.type, p.nbits, p.value) for p in section]


def raises(exc_type, func, *args, **kwargs):
    try:
        func(*args, **kwargs)
    except Exception as e:  # noqa
        assert type(e) is exc_type, 'expected {} got {!r}'.format(exc_type.__name__, e)
        return e
    raise AssertionError('expected {} but nothing was raised'.format(exc_type.__name__))


# ---------------------------------------------------------------- demo 4: info_configuration, Decoder.process(info_only)
import copy
from pybufrkit.constants import PARAMETER_TYPE_TEMPLATE_DATA
from pybufrkit.errors import BitReadError

configurer = SectionConfigurer()

# 1. info_configuration on the bundled layouts: only the data section is changed
for section_index, by_edition in sorted(configurer.configurations.items()):
    for edition, config in sorted(by_edition.items()):
        before = copy.deepcopy(config)
        out = SectionConfigurer.info_configuration(config)
        assert config == before                         # the loaded table is never modified
        if section_index != 4:
            assert out is config                        # handed back as it is
            continue
        assert out is not config
        assert out['end_of_message'] is True and 'end_of_message' not in config
        assert [p['name'] for p in out['parameters']] == ['section_length', 'reserved_bits']
        assert {k: v for k, v in out.items() if k not in ('parameters', 'end_of_message')} == \
               {k: v for k, v in config.items() if k != 'parameters'}
        # the kept entries are the entries of the original table (not copies)
        assert all(a is b for a, b in zip(out['parameters'], config['parameters']))
        assert out['parameters'] is not config['parameters']
        # also reachable through an instance, as the decoder does
        assert configurer.info_configuration(config) == out


# 2. hand-made layouts
def P(name, type_):
    return {'name': name, 'nbits': 8, 'type': type_}


first = {'index': 7, 'parameters': [P('t', PARAMETER_TYPE_TEMPLATE_DATA), P('a', 'uint')], 'extra': {'k': [1]}}
out = SectionConfigurer.info_configuration(first)
assert out['parameters'] == [] and out['end_of_message'] is True and out['index'] == 7
assert out['extra'] == {'k': [1]} and out['extra'] is not first['extra']       # the rest is a deep copy
assert len(first['parameters']) == 2 and 'end_of_message' not in first

twice = {'index': 7, 'end_of_message': False,
         'parameters': [P('a', 'uint'), P('t1', PARAMETER_TYPE_TEMPLATE_DATA), P('b', 'uint'),
                        P('t2', PARAMETER_TYPE_TEMPLATE_DATA)]}
out = SectionConfigurer.info_configuration(twice)
assert [p['name'] for p in out['parameters']] == ['a'] and out['parameters'][0] is twice['parameters'][0]
assert out['end_of_message'] is True and twice['end_of_message'] is False

none = {'index': 7, 'parameters': []}
assert SectionConfigurer.info_configuration(none) is none
plain = {'index': 7, 'parameters': [P('a', 'uint'), P('b', 'bytes')]}
assert SectionConfigurer.info_configuration(plain) is plain

raises(KeyError, SectionConfigurer.info_configuration, {'index': 7})
# an entry without 'type' is an error wherever it stands, also behind the template data
raises(KeyError, SectionConfigurer.info_configuration,
       {'parameters': [P('t', PARAMETER_TYPE_TEMPLATE_DATA), {'name': 'a', 'nbits': 8}]})
raises(KeyError, SectionConfigurer.info_configuration, {'parameters': [{'name': 'a', 'nbits': 8}]})
raises(TypeError, SectionConfigurer.info_configuration, None)


# 3. metadata-only decode against the full decode
def data_section_offset(full):
    """Byte offset of section 4 in the message."""
    return sum(len(b'BUFR') + 4 if s.get_metadata('index') == 0 else s.section_length.value
               for s in full.sections if s.get_metadata('index') < 4)


decoder = Decoder()
messages = all_message_bytes()
n_full_failures = 0
for label, data in messages:
    full = decoder.process(data)
    info = decoder.process(data, info_only=True)
    assert type(info) is BufrMessage
    full_indices = [s.get_metadata('index') for s in full.sections]
    info_indices = [s.get_metadata('index') for s in info.sections]
    assert full_indices[-2:] == [4, 5] and info_indices == full_indices[:-1]
    for s_full, s_info in zip(full.sections, info.sections):
        index = s_full.get_metadata('index')
        if index <= 3:
            assert section_values(s_full) == section_values(s_info), (label, index)
            assert s_info.end_of_message is False
        for key in ('index', 'description', 'optional'):
            assert s_full.get_metadata(key) == s_info.get_metadata(key)
    last = info.sections[-1]
    assert last.end_of_message is True and full.sections[-2].end_of_message is False
    assert [p.name for p in last] == ['section_length', 'reserved_bits']
    assert last.section_length.value == full.sections[-2].section_length.value
    # the proxies of the message point at the parameters of its own sections
    assert info.length is info.sections[0].length and info.edition.value == full.edition.value
    assert info.n_subsets.value == full.n_subsets.value
    assert info.unexpanded_descriptors.value == full.unexpanded_descriptors.value
    assert not hasattr(info, '_template_data') and full.template_data.value._is_wired is True
    assert info.table_group_key is None and full.table_group_key is not None
    # bytes that were consumed: the body of section 4 is skipped over by its declared length, not parsed
    offset = data_section_offset(full)
    assert info.serialized_bytes == data[:offset + last.section_length.value] == data[:full.length.value - 4]
    assert full.serialized_bytes == data[:full.length.value]
    assert info.filename == '<string>' and decoder.process(data, 'f.bufr', info_only=True).filename == 'f.bufr'

    # wiring is only done for a full decode that asks for it
    unwired = decoder.process(data, wire_template_data=False)
    assert unwired.template_data.value._is_wired is False
    assert not hasattr(decoder.process(data, info_only=True, wire_template_data=True), '_template_data')

    # leading junk is skipped up to the signature, unless told there is none to look for
    junked = decoder.process(b'xx\r\n' + data, info_only=True)
    assert junked.serialized_bytes == info.serialized_bytes
    raises(PyBufrKitError, decoder.process, b'xx\r\n' + data, info_only=True, start_signature=None)
    e = raises(PyBufrKitError, decoder.process, data.replace(b'BUFR', b'RUFB'), info_only=True)
    assert e.message == "Cannot find start signature: b'BUFR'"
    # expected values: checked by default, waived on request, in both modes
    bad_start = b'BUFX' + data[4:]
    for info_only in (True, False):
        raises(PyBufrKitError, decoder.process, bad_start, info_only=info_only, start_signature=None)
        waived = decoder.process(bad_start, info_only=info_only, start_signature=None, ignore_value_expectation=True)
        assert waived.sections[0].start_signature.value == b'BUFX'
        assert [section_values(s) for s in waived.sections[1:] if s.get_metadata('index') <= 3] == \
               [section_values(s) for s in info.sections[1:-1]]
        assert len(waived.sections) == len(info.sections if info_only else full.sections)

    # damaged data section: the octets behind its 4 octet head are overwritten
    end = offset + last.section_length.value
    for filler in (b'\xff', b'\x00', b'\xa5'):
        damaged = data[:offset + 4] + filler * (end - offset - 4) + data[end:]
        assert len(damaged) == len(data)
        try:
            decoder.process(damaged)
        except Exception:
            n_full_failures += 1
        again = decoder.process(damaged, info_only=True)
        assert [section_values(s) for s in again.sections] == [section_values(s) for s in info.sections]
        assert again.serialized_bytes == damaged[:end]
    # damage in front of the data section, or a message that stops short, does reach the metadata-only decode
    raises(BitReadError, decoder.process, data[:offset + 3], info_only=True)
    raises(BitReadError, decoder.process, data[:6], info_only=True)
    raises(BitReadError, decoder.process, data[:end - 1], info_only=True)
assert n_full_failures > 0

# 4. scanning a stream in that mode: each message is cut at its declared length
stream = b''
expected = []
for i, (label, data) in enumerate(messages):
    full = decoder.process(data)
    one = data[:full.length.value]
    if i % 3 == 1:   # garble everything between the head of section 4 and the end section
        offset = data_section_offset(full)
        one = one[:offset + 4] + b'\xa5' * (len(one) - offset - 8) + one[-4:]
    expected.append(one)
    stream += (b'\r\n\x00junk' if i % 2 else b'') + one
got = list(generate_bufr_message(decoder, stream, info_only=True))
assert [m.serialized_bytes for m in got] == expected
assert [m.length.value for m in got] == [len(b) for b in expected]
for m, one in zip(got, expected):
    ref = decoder.process(one, info_only=True)
    assert [section_values(s) for s in m.sections] == [section_values(s) for s in ref.sections]
assert list(generate_bufr_message(decoder, b'no message here', info_only=True)) == []

print('demo 4 ok')
