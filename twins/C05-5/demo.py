import os, sys; sys.path.insert(0, os.getcwd())
"""
Refactor 5 - differential demonstration.

The refactor moves the "compressed or uncompressed variant?" choice of the six value
processors (numeric, string, code/flag, new reference value, numeric with new reference
value, constant) from Encoder and Decoder into their base class Coder. The demonstration

1. encodes hand-made messages whose template reaches all six processors, both compressed and
   uncompressed, through the interpreted template and through the compiled template
   (process_compiled_template looks the processors up by name), and compares the bits of the
   data section with bits written by an independent little writer that follows the BUFR
   rules directly (no pybufrkit code), and the decoded values with the values put in;
2. records which variant each processor handed over to, on the encoder and on the decoder;
3. checks the error behaviour that goes through the dispatchers (new reference values that
   differ between compressed subsets, a constant that is not zero, an unknown new reference
   value);
4. decodes sample files (compressed and uncompressed, with 222000 constants and strings),
   compares with the stored JSON, re-encodes and compares the bytes with the files.
"""
import json

from pybufrkit.coder import Coder
from pybufrkit.decoder import Decoder
from pybufrkit.encoder import Encoder
from pybufrkit.errors import PyBufrKitError
from pybufrkit.templatecompiler import TemplateCompiler

N_CHECKS = [0]


def check(cond, what):
    N_CHECKS[0] += 1
    if not cond:
        print('FAILED: {}'.format(what))
        sys.exit(1)


def make_message(descriptors, subsets, compressed):
    return [['BUFR', 0, 4],
            [22, 0, 0, 0, 0, False, '0000000', 0, 0, 0, 13, 0, 2012, 11, 2, 0, 0, 0],
            [0, '00000000', len(subsets), True, compressed, '000000', descriptors],
            [0, '00000000', subsets],
            ['7777']]


# ---------------------------------------------------------------------------
# An independent writer of the data section, for a flat list of fields.
# A field is (kind, width, scale, refval): kind 'num', 'code', 'str' (width in bytes),
# 'refval' (sign and magnitude) or 'const' (no bits at all).

def ubits(value, width):
    assert 0 <= value < (1 << width), (value, width)
    return format(value, '0{}b'.format(width)) if width else ''


def raw_of(kind, value, width, scale, refval):
    """The unsigned number stored for a value, None for missing"""
    if value is None:
        return None
    if kind == 'num':
        if scale:
            value = int(round(value * 10.0 ** scale))
        return value - refval
    return value


def sbits(value, nbytes):
    if value is None:
        return '1' * (8 * nbytes)
    octets = value.encode('latin-1')[:nbytes].ljust(nbytes, b' ')
    return ''.join(format(o, '08b') for o in bytearray(octets))


def width_of_increments(span):
    # the width the encoder chooses: the smallest one whose all-ones pattern lies above span + 1
    n = 1
    while (1 << n) - 1 <= span + 1:
        n += 1
    return n


def column_bits(kind, width, scale, refval, column):
    if kind == 'const':
        return ''
    if kind == 'refval':
        value = column[0]
        return ('1' if value < 0 else '0') + ubits(abs(value), width - 1) + ubits(0, 6)
    if kind == 'str':
        if all(v is None for v in column):
            return '1' * (8 * width) + ubits(0, 6)
        if all(v == column[0] for v in column):
            return sbits(column[0], width) + ubits(0, 6)
        return '0' * (8 * width) + ubits(width, 6) + ''.join(sbits(v, width) for v in column)
    raws = [raw_of(kind, v, width, scale, refval) for v in column]
    present = [r for r in raws if r is not None]
    if not present:
        return '1' * width + ubits(0, 6)
    if len(present) == len(raws) and min(present) == max(present):
        return ubits(present[0], width) + ubits(0, 6)
    low = min(present)
    nd = width_of_increments(max(present) - low)
    return ubits(low, width) + ubits(nd, 6) + ''.join(
        '1' * nd if r is None else ubits(r - low, nd) for r in raws)


def value_bits(kind, width, scale, refval, value):
    if kind == 'const':
        return ''
    if kind == 'refval':
        return ('1' if value < 0 else '0') + ubits(abs(value), width - 1)
    if kind == 'str':
        return sbits(value, width)
    raw = raw_of(kind, value, width, scale, refval)
    return '1' * width if raw is None else ubits(raw, width)


def unpadded_data_bits(fields, subsets, compressed):
    if compressed:
        return ''.join(column_bits(*(field + ([s[i] for s in subsets],)))
                       for i, field in enumerate(fields))
    return ''.join(value_bits(*(field + (s[i],))) for s in subsets for i, field in enumerate(fields))


def padded(bits):
    return bits + '0' * (-len(bits) % 8)


def expected_data_bits(fields, subsets, compressed):
    return padded(unpadded_data_bits(fields, subsets, compressed))


def expected_decoded(fields, subsets):
    out = []
    for subset in subsets:
        row = []
        for (kind, width, scale, refval), value in zip(fields, subset):
            if kind == 'str':
                value = (b'\xff' * width if value is None
                         else value.encode('latin-1')[:width].ljust(width, b' '))
            elif kind == 'num' and value is not None:
                raw = raw_of(kind, value, width, scale, refval)
                value = (raw + refval) / 10.0 ** scale if scale else raw + refval
            row.append(value)
        out.append(row)
    return out


def data_bits_of(serialized_bytes):
    """Bits of the data section without its four leading octets (edition 4, no section 2)"""
    b = bytearray(serialized_bytes)
    pos = 8
    pos += (b[pos] << 16) + (b[pos + 1] << 8) + b[pos + 2]  # section 1
    pos += (b[pos] << 16) + (b[pos + 1] << 8) + b[pos + 2]  # section 3
    length = (b[pos] << 16) + (b[pos + 1] << 8) + b[pos + 2]
    check(bytes(b[pos + length:]) == b'7777', 'the data section is followed by 7777')
    return ''.join(format(o, '08b') for o in b[pos + 4: pos + length])


# ---------------------------------------------------------------------------
# Recording which variant is reached

VARIANTS = ['process_{}_{}'.format(kind, storage)
            for kind in ('numeric', 'string', 'codeflag', 'new_refval', 'constant')
            for storage in ('compressed', 'uncompressed')]


def spy_on(coder):
    calls = []

    def wrap(name, method):
        def wrapper(*args):
            calls.append(name)
            return method(*args)
        return wrapper

    for name in VARIANTS:
        setattr(coder, name, wrap(name, getattr(coder, name)))
    return calls


# ---------------------------------------------------------------------------
# 1 and 2: hand-made messages through all six processors

# 001015 string of 20 octets, 002001 code of 2 bits, 012001 numeric (12 bits, scale 1),
# 203012 / 012001 / 203255: new reference value of 12 bits for 012001,
# 012001 again: numeric with the new reference value, 203000 cancels it,
# 237255: an operator that is just a constant 0, 012001 numeric with the table reference value
DESCRIPTORS = [1015, 2001, 12001, 203012, 12001, 203255, 12001, 203000, 237255, 12001]


def fields_for(new_refval):
    return [('str', 20, 0, 0), ('code', 2, 0, 0), ('num', 12, 1, 0), ('refval', 12, 0, 0),
            ('num', 12, 1, new_refval), ('const', 0, 0, 0), ('num', 12, 1, 0)]


CASES = [
    # mixed columns: different strings, missing next to present, equal columns
    (-100, [['ABC', 1, 280.5, -100, 10.0, 0, 281.0],
            ['ABD', None, None, -100, None, 0, 281.5],
            ['ABC', 2, 280.7, -100, -3.3, 0, 281.0]]),
    # all equal and all missing columns
    (75, [['SAME', None, 300.0, 75, 9.9, 0, None],
          ['SAME', None, 300.0, 75, 9.9, 0, None]]),
    # missing strings: all of them, and (second string column would need another template)
    (0, [[None, 0, 0.0, 0, 0.0, 0, 409.4],
         [None, 0, 0.1, 0, 409.4, 0, 0.0]]),
    # one subset only
    (-2047, [['X', 2, 1.5, -2047, 0.0, 0, 2.5]]),
    # string missing in one subset only, three values one apart (the 1-bit / 2-bit width edge)
    (5, [['P', 1, 10.0, 5, 1.0, 0, 20.0],
         [None, 2, 10.1, 5, 1.1, 0, 20.0],
         ['Q', 1, 10.2, 5, 1.0, 0, 20.1],
         ['P', 0, 10.0, 5, 1.2, 0, None]]),
]

EXPECTED_CALLS = {
    True: ['process_string_compressed', 'process_codeflag_compressed', 'process_numeric_compressed',
           'process_new_refval_compressed', 'process_numeric_compressed',
           'process_constant_compressed', 'process_numeric_compressed'],
    False: ['process_string_uncompressed', 'process_codeflag_uncompressed', 'process_numeric_uncompressed',
            'process_new_refval_uncompressed', 'process_numeric_uncompressed',
            'process_constant_uncompressed', 'process_numeric_uncompressed'],
}

for cache_max in (None, 8):
    for new_refval, subsets in CASES:
        fields = fields_for(new_refval)
        decoded_by_storage = {}
        for compressed in (True, False):
            label = 'refval {} / {} subsets / compressed {} / compiled {}'.format(
                new_refval, len(subsets), compressed, cache_max is not None)
            encoder = Encoder(compiled_template_cache_max=cache_max)
            decoder = Decoder(compiled_template_cache_max=cache_max)
            encoder_calls, decoder_calls = spy_on(encoder), spy_on(decoder)
            n_runs = 1 if compressed else len(subsets)

            message = encoder.process(json.dumps(make_message(DESCRIPTORS, subsets, compressed)))
            check(data_bits_of(message.serialized_bytes) == expected_data_bits(fields, subsets, compressed),
                  'bits of the data section: ' + label)
            check(encoder_calls == EXPECTED_CALLS[compressed] * n_runs, 'encoder variants: ' + label)

            decoded = decoder.process(message.serialized_bytes)
            template_data = decoded.template_data.value
            check(template_data.decoded_values_all_subsets == expected_decoded(fields, subsets),
                  'decoded values: ' + label)
            check(decoder_calls == EXPECTED_CALLS[compressed] * n_runs, 'decoder variants: ' + label)
            check([[d.id for d in ds] for ds in template_data.decoded_descriptors_all_subsets] ==
                  [[1015, 2001, 12001, 12001, 12001, 237255, 12001]] * len(subsets),
                  'decoded descriptors: ' + label)
            # the encoder's own bookkeeping agrees with the decoder's
            check([[d.id for d in ds] for ds in message.template_data.value.decoded_descriptors_all_subsets] ==
                  [[1015, 2001, 12001, 12001, 12001, 237255, 12001]] * len(subsets),
                  'descriptors kept by the encoder: ' + label)
            decoded_by_storage[compressed] = template_data.decoded_values_all_subsets
        check(decoded_by_storage[True] == decoded_by_storage[False], 'compressed == uncompressed')

# ---------------------------------------------------------------------------
# The processors are reachable on the classes with the call signature the template
# interpreter and the compiled template use (state, bit operator, descriptor, ...)

for cls in (Encoder, Decoder):
    for name in ('process_numeric', 'process_string', 'process_codeflag', 'process_new_refval',
                 'process_numeric_of_new_refval', 'process_constant'):
        check(callable(getattr(cls, name)), '{}.{}'.format(cls.__name__, name))
        check(callable(getattr(Coder, name)), 'Coder.{}'.format(name))
        # the template compiler keeps its own recording versions
        check(name in vars(TemplateCompiler), 'TemplateCompiler.{}'.format(name))

# ---------------------------------------------------------------------------
# 3: errors raised behind the dispatchers


def raises(exc_type, func, *args):
    try:
        func(*args)
    except exc_type as e:
        return type(e) is exc_type or exc_type is Exception
    except Exception as e:
        print('unexpected {!r}'.format(e))
        return False
    return False


for cache_max in (None, 8):
    # compressed: new reference values must be identical
    differing = [['A', 1, 1.0, -100, 10.0, 0, 1.0], ['A', 1, 1.0, -99, 10.0, 0, 1.0]]
    check(raises(AssertionError, Encoder(compiled_template_cache_max=cache_max).process,
                 json.dumps(make_message(DESCRIPTORS, differing, True))),
          'compressed, differing new reference values: AssertionError')
    # uncompressed: each subset has its own
    m = Encoder(compiled_template_cache_max=cache_max).process(
        json.dumps(make_message(DESCRIPTORS, differing, False)))
    check(data_bits_of(m.serialized_bytes) ==
          padded(unpadded_data_bits(fields_for(-100), differing[:1], False) +
                 unpadded_data_bits(fields_for(-99), differing[1:], False)),
          'uncompressed, differing new reference values')
    check(Decoder(compiled_template_cache_max=cache_max).process(
        m.serialized_bytes).template_data.value.decoded_values_all_subsets ==
          expected_decoded(fields_for(-100), differing[:1]) + expected_decoded(fields_for(-99), differing[1:]),
          'uncompressed, differing new reference values, decoded')
    # missing new reference value
    missing = [['A', 1, 1.0, None, 10.0, 0, 1.0]]
    for compressed in (True, False):
        check(raises(AssertionError, Encoder(compiled_template_cache_max=cache_max).process,
                     json.dumps(make_message(DESCRIPTORS, missing, compressed))),
              'missing new reference value: AssertionError')
    # constant that is not the expected zero
    nonzero = [['A', 1, 1.0, 3, 10.0, 1, 1.0]]
    for compressed in (True, False):
        check(raises(AssertionError, Encoder(compiled_template_cache_max=cache_max).process,
                     json.dumps(make_message(DESCRIPTORS, nonzero, compressed))),
              'constant not zero: AssertionError')
    # decoder: a compressed new reference value with increments is refused
    good = Encoder().process(json.dumps(make_message([203012, 12001, 203255], [[-100], [-100]], True)))
    bits = data_bits_of(good.serialized_bytes)
    check(bits == '1' + ubits(100, 11) + '000000' + '000000', 'new reference value alone')
    octets = bytearray(good.serialized_bytes)
    # the six bits of the increment width are bits 12..17 of the three data octets, which
    # are followed by 7777: make them 000001
    octets[len(octets) - 4 - 3 + 17 // 8] |= 0x80 >> (17 % 8)
    check(raises(PyBufrKitError, Decoder(compiled_template_cache_max=cache_max).process, bytes(octets)),
          'compressed new reference value with increments: PyBufrKitError')

# ---------------------------------------------------------------------------
# 4: sample files

DATA_DIR = os.path.join('tests', 'data')
# (stub, the stored JSON holds what the decoder reads, the encoder reproduces the file)
# For amv2_87 and ISMD01_OKPR the stored JSON holds values where the decoder reads missing
# ones from the file, so only the round trip from the JSON is compared for them.
SAMPLES = [('207003', True, False),        # compressed with delayed replication
           ('b005_89', True, False),       # compressed with 222000 and 224000
           ('rado_250', True, True),       # uncompressed with 222000, 224000, 236000
           ('g2nd_208', True, False),      # compressed with identical string values
           ('jaso_214', True, False),      # compressed with associated fields
           ('mpco_217', True, False),      # compressed
           ('b002_95', True, False),       # uncompressed with skipped local descriptors
           ('profiler_european', True, False),   # uncompressed with associated fields
           ('IUSK73_AMMC_182300', True, True),   # uncompressed
           ('amv2_87', False, False),      # compressed with 222000
           ('ISMD01_OKPR', False, False)]  # compressed with different string values


def comparable(values_all_subsets):
    return [[v.encode('latin-1') if not isinstance(v, (bytes, type(None), int, float)) else v
             for v in values] for values in values_all_subsets]


for cache_max in (None, 8):
    decoder = Decoder(compiled_template_cache_max=cache_max)
    encoder = Encoder(compiled_template_cache_max=cache_max)
    for stub, json_is_current, reproduces_file in SAMPLES:
        with open(os.path.join(DATA_DIR, stub + '.bufr'), 'rb') as ins:
            file_bytes = ins.read()
        with open(os.path.join(DATA_DIR, stub + '.json')) as ins:
            stored = json.load(ins)
        decoded = decoder.process(file_bytes)
        if json_is_current:
            check(comparable(decoded.template_data.value.decoded_values_all_subsets) ==
                  comparable(stored[-2][-1]), '{}: decoded values equal the stored JSON'.format(stub))
        encoded = encoder.process(json.dumps(stored))
        if reproduces_file:
            check(encoded.serialized_bytes == file_bytes, '{}: encode(JSON) is the file'.format(stub))
        redecoded = decoder.process(encoded.serialized_bytes)
        check(comparable(redecoded.template_data.value.decoded_values_all_subsets) ==
              comparable(stored[-2][-1]), '{}: encode(JSON) decodes to the JSON values'.format(stub))
        check(redecoded.template_data.value.bitmap_links_all_subsets ==
              decoded.template_data.value.bitmap_links_all_subsets,
              '{}: same attribute links'.format(stub))

print('OK: {} checks'.format(N_CHECKS[0]))
