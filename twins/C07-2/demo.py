import os, sys; sys.path.insert(0, os.getcwd())

import itertools
import json

from pybufrkit.encoder import Encoder
from pybufrkit.decoder import Decoder
from pybufrkit.errors import PyBufrKitError
from pybufrkit.renderer import NestedJsonRenderer

# --------------------------------------------------------------------------
# Harness: build a message from descriptor ids and values, encode it, decode it
# both by walking the template and through the compiled template, and check
# that the three of them agree on the bitmap links.
ENCODER = Encoder(ignore_declared_length=True)
DECODERS = [Decoder(), Decoder(compiled_template_cache_max=16)]
RENDERER = NestedJsonRenderer()


def make_json(ids, subsets, compressed):
    return [["BUFR", 0, 3],
            [18, 0, 0, 98, 0, False, "0000000", 21, 202, 15, 0, 12, 11, 2, 0, 0, 0],
            [10, "00000000", len(subsets), True, compressed, "000000", list(ids)],
            [0, "00000000", [list(s) for s in subsets]],
            ["7777"]]


def run(ids, subsets, compressed=False):
    """Return (links of all subsets, the decoded message)."""
    if not isinstance(subsets[0], (list, tuple)):
        subsets = [subsets]
    encoded = ENCODER.process(json.dumps(make_json(ids, subsets, compressed)))
    decoded = [d.process(encoded.serialized_bytes) for d in DECODERS]
    links = [m.template_data.value.bitmap_links_all_subsets for m in [encoded] + decoded]
    assert links[0] == links[1] == links[2], links
    values = [m.template_data.value.decoded_values_all_subsets for m in decoded]
    assert values[0] == values[1]
    assert RENDERER.render(decoded[0]) == RENDERER.render(decoded[1])
    assert len(links[1]) == len(subsets)
    return [dict(x) for x in links[1]], decoded[0]


def error_of(ids, subsets, compressed=False):
    """Name of the exception raised for the message, None if there is none."""
    try:
        run(ids, subsets, compressed)
    except Exception as e:
        return type(e).__name__
    return None


def owners(message, idx_subset=0):
    """
    From the hierarchical view: [(owner id, owner value, [attribute, ...]), ...]
    for every element (not marker) node with attributes, in document order, where each attribute is
    (id, description, value, meaning) and meaning is (id, value) or None.
    """
    found = []

    def attr(a):
        meaning = None
        if 'attributes' in a:
            assert len(a['attributes']) == 1
            meaning = (a['attributes'][0]['id'], a['attributes'][0]['value'])
        return a['id'], a['description'], a['value'], meaning

    def walk(nodes):
        for n in nodes:
            if isinstance(n, list):
                walk(n)
                continue
            if 'factor' in n:
                walk([n['factor']])
            if 'attributes' in n and n['id'].isdigit():
                found.append((n['id'], n['value'], [attr(a) for a in n['attributes']]))
            if 'members' in n:
                walk(n['members'])

    walk(RENDERER.render(message)[3][2]['value'][idx_subset])
    return found


def flat(message, idx_subset=0):
    return [str(d) for d in message.template_data.value.decoded_descriptors_all_subsets[idx_subset]]


# --------------------------------------------------------------------------
# Part A: CoderState.build_bitmapped_descriptors / recall_bitmap on their own
from pybufrkit.coder import CoderState
from pybufrkit.descriptors import (ElementDescriptor, MarkerDescriptor, AssociatedDescriptor,
                                   OperatorDescriptor, SkippedLocalDescriptor)


def element(id_):
    return ElementDescriptor(id_, 'E{}'.format(id_), 'K', 1, 0, 12, 'C', 1, 3)


E = [element(i) for i in (12001, 10004, 11001, 11002, 31031, 33007)]
MIXED = [
    E[0],                                                 # 0  element
    OperatorDescriptor(201130),                           # 1  not an element
    E[1],                                                 # 2  element
    AssociatedDescriptor(11001, 8),                       # 3  not an element
    E[2],                                                 # 4  element
    MarkerDescriptor.from_element_descriptor(E[2], 224255),  # 5  subclass only, NOT an exact element
    SkippedLocalDescriptor(12192, 9),                     # 6  not an element
    E[3],                                                 # 7  element
    E[4],                                                 # 8  element beyond the boundary below
]
ELEMENT_POSITIONS = [0, 2, 4, 7]


def fresh(boundary=8):
    state = CoderState(False, 1)
    state.decoded_descriptors.extend(MIXED)
    state.back_reference_boundary = boundary
    return state


def drain(state):
    out = []
    while True:
        try:
            out.append(state.next_bitmapped_descriptor())
        except StopIteration:
            return out


# every length 0 < L <= 4 and every pattern, also with a missing (None) bit which
# is not a zero bit
for L in range(1, 5):
    for bits in itertools.product((0, 1, None), repeat=L):
        state = fresh()
        assert state.build_bitmapped_descriptors(list(bits)) is None
        referenced = ELEMENT_POSITIONS[4 - L:]
        assert state.back_referenced_descriptors == [(i, MIXED[i]) for i in referenced]
        assert all(type(x) is tuple for x in state.back_referenced_descriptors)
        expected = [(i, MIXED[i]) for i, b in zip(referenced, bits) if b == 0]
        assert state.bitmapped_descriptors == expected
        assert all(d is MIXED[i] for i, d in state.bitmapped_descriptors)
        assert drain(state) == expected
        assert drain(state) == []  # exhausted stays exhausted
        # recall: the same descriptors are handed out again from the first one,
        # the return value is the bitmap kept for reuse
        # (rebased: since "fix: 237000 recalls the bitmap defined for reuse" a recall with no bitmap
        # kept is refused and a recall rebuilds the bitmapped descriptors from the kept bitmap)
        try:
            state.recall_bitmap()
        except PyBufrKitError:
            assert drain(state) == []
        else:
            raise AssertionError('expected PyBufrKitError')
        state.bitmap = kept = list(bits)
        assert state.recall_bitmap() is kept
        assert drain(state) == expected
        assert state.recall_bitmap() is kept
        # recall in the middle of a run starts over
        if len(expected) > 1:
            assert state.next_bitmapped_descriptor() == expected[0]
            state.recall_bitmap()
            assert state.next_bitmapped_descriptor() == expected[0]
            assert state.next_bitmapped_descriptor() == expected[1]

# the boundary is respected: nothing at or after it is referred to
state = fresh(boundary=5)
state.build_bitmapped_descriptors([0, 0, 0])
assert [i for i, _ in state.bitmapped_descriptors] == [0, 2, 4]
state = fresh(boundary=9)
state.build_bitmapped_descriptors([0, 1])
assert [i for i, _ in state.back_referenced_descriptors] == [7, 8]
assert [i for i, _ in state.bitmapped_descriptors] == [7]

# existing back references are kept (no new count back) until they are cancelled
state = fresh()
state.build_bitmapped_descriptors([1, 0])
first = state.back_referenced_descriptors
assert [i for i, _ in first] == [4, 7]
state.decoded_descriptors.append(element(12004))
state.mark_back_reference_boundary()
state.build_bitmapped_descriptors([0, 1])
assert state.back_referenced_descriptors is first
assert [i for i, _ in state.bitmapped_descriptors] == [4]
try:
    state.build_bitmapped_descriptors([0, 1, 1])
except PyBufrKitError:
    assert state.back_referenced_descriptors is first
    assert [i for i, _ in state.bitmapped_descriptors] == [4]  # untouched by the failure
else:
    raise AssertionError('expected PyBufrKitError')
state.cancel_all_back_references()
assert state.back_referenced_descriptors is None and state.bitmapped_descriptors is None and state.bitmap is None
try:
    state.recall_bitmap()
except PyBufrKitError:  # rebased: was a TypeError before the fix
    assert state.next_bitmapped_descriptor is not None  # the old one is left in place
else:
    raise AssertionError('expected PyBufrKitError')
state.build_bitmapped_descriptors([0, 1, 1])
assert [i for i, _ in state.back_referenced_descriptors] == [7, 8, 9]
assert [i for i, _ in state.bitmapped_descriptors] == [7]

# more bits than elements: error, with the elements found left behind in order
state = fresh()
try:
    state.build_bitmapped_descriptors([0] * 5)
except PyBufrKitError as e:
    assert 'Back referenced descriptors not matching defined Bitmap' in str(e)
    assert [i for i, _ in state.back_referenced_descriptors] == ELEMENT_POSITIONS
    assert state.bitmapped_descriptors is None and state.next_bitmapped_descriptor is None
else:
    raise AssertionError('expected PyBufrKitError')

# empty bitmap: fine when there is nothing to refer to, an error otherwise
state = fresh(boundary=0)
state.build_bitmapped_descriptors([])
assert state.back_referenced_descriptors == [] and state.bitmapped_descriptors == [] and drain(state) == []
state = fresh(boundary=-3)
state.build_bitmapped_descriptors([])
assert state.back_referenced_descriptors == []
state = fresh()
try:
    state.build_bitmapped_descriptors([])
except PyBufrKitError:
    assert [i for i, _ in state.back_referenced_descriptors] == ELEMENT_POSITIONS
else:
    raise AssertionError('expected PyBufrKitError')

# a boundary beyond the decoded descriptors is an IndexError, a bitmap without
# a length is a TypeError
state = fresh(boundary=20)
try:
    state.build_bitmapped_descriptors([0])
except IndexError:
    assert state.back_referenced_descriptors == []
else:
    raise AssertionError('expected IndexError')
for boundary in (8, 0):
    state = fresh(boundary=boundary)
    try:
        state.build_bitmapped_descriptors(iter([0]))
    except TypeError:
        assert state.back_referenced_descriptors == [(7, MIXED[7])][:boundary]
    else:
        raise AssertionError('expected TypeError')

# --------------------------------------------------------------------------
# Part B: whole messages

# sequence and fixed replication before the operator, a bitmap that skips
# elements inside the replication. Flat: 004001 004002 004003 (012001 010004)x2
ids = [301011, 102002, 12001, 10004, 222000, 101005, 31031]
base_vals = [2020, 1, 2, 280.0, 100000.0, 281.0, 100100.0]
for bits in itertools.product((0, 1), repeat=5):
    zeros = [i for i, b in enumerate(bits) if b == 0]
    vals = base_vals + [0] + list(bits) + [10 + z for z in zeros]
    expected = dict((13 + k, 2 + z) for k, z in enumerate(zeros))
    for compressed, n in ((False, 1), (False, 2), (True, 1), (True, 3)):
        links, msg = run(ids + [33007] * len(zeros), [vals] * n, compressed)
        assert links == [expected] * n, (bits, links)
        assert flat(msg)[:7] == ['004001', '004002', '004003', '012001', '010004', '012001', '010004']
        assert [(o[0], o[1], o[2][0][2]) for o in owners(msg, n - 1)] == \
            [(flat(msg)[2 + z], base_vals[2 + z], 10 + z) for z in zeros]

# different bitmaps in the subsets of an uncompressed message
ids = [12001, 10004, 11001, 222000, 101003, 31031, 33007]
links, msg = run(ids, [[280.5, 101000.0, 120, 0, 0, 1, 1, 50],
                       [281.5, 101100.0, 130, 0, 1, 0, 1, 60],
                       [282.5, 101200.0, 140, 0, 1, 1, 0, 70]])
assert links == [{7: 0}, {7: 1}, {7: 2}], links
assert [owners(msg, i) for i in range(3)] == [
    [('012001', 280.5, [('033007', 'PER CENT CONFIDENCE', 50, None)])],
    [('010004', 101100.0, [('033007', 'PER CENT CONFIDENCE', 60, None)])],
    [('011001', 140, [('033007', 'PER CENT CONFIDENCE', 70, None)])]]

# the replication factor of a delayed replication is an element that can be referred to
links, msg = run([101000, 31001, 12001, 222000, 101003, 31031, 33007, 33007],
                 [2, 280.0, 281.0, 0, 0, 1, 0, 11, 22])
assert links == [{7: 0, 8: 2}]
assert owners(msg) == [('031001', 2, [('033007', 'PER CENT CONFIDENCE', 11, None)]),
                       ('012001', 281.0, [('033007', 'PER CENT CONFIDENCE', 22, None)])]

# operators and associated fields before the operator are not counted as elements;
# the associated field belongs to the element it precedes
links, msg = run([204008, 31021, 12001, 204000, 201130, 10004, 201000,
                  222000, 101003, 31031, 33007, 33007, 33007],
                 [1, 5, 280.0, 100000.0, 0, 0, 0, 0, 11, 22, 33])
assert flat(msg)[:4] == ['031021', 'A12001', '012001', '010004']
assert links == [{8: 0, 9: 2, 10: 3}]
assert owners(msg) == [
    ('031021', 1, [('033007', 'PER CENT CONFIDENCE', 11, None)]),
    ('012001', 280.0, [('A12001', 'AssociatedField', 5, ('031021', 1)),
                       ('033007', 'PER CENT CONFIDENCE', 22, None)]),
    ('010004', 100000.0, [('033007', 'PER CENT CONFIDENCE', 33, None)])]

# 235000 cancels the back references: the next operator counts back afresh, from its own position
ids = [12001, 10004, 222000, 101002, 31031, 33007,
       235000, 11001, 11002,
       224000, 236000, 101002, 31031, 8023, 224255,
       225000, 237000, 8024, 225255]
vals = [280.5, 101000.0, 0, 1, 0, 44,
        120, 5.5,
        0, 0, 0, 1, 4, 118,
        0, 0, 2, -3]
for compressed, n in ((False, 1), (False, 2), (True, 2)):
    links, msg = run(ids, [vals] * n, compressed)
    assert links == [{5: 1, 13: 6, 17: 6}] * n, links
    assert owners(msg, n - 1) == [
        ('010004', 101000.0, [('033007', 'PER CENT CONFIDENCE', 44, None)]),
        ('011001', 120, [('F11001', '224255', 118, ('008023', 4)),
                         ('D11001', '225255', -3, ('008024', 2))])], owners(msg, n - 1)

# errors
assert error_of([12001, 222000, 101002, 31031, 33007], [280.5, 0, 0, 0, 50, 60]) == 'PyBufrKitError'
assert error_of([12001, 222000, 101002, 31031, 33007], [[280.5, 0, 0, 0, 50, 60]] * 2, True) == 'PyBufrKitError'
# more values than zero bits
assert error_of([12001, 10004, 224000, 101002, 31031, 8023, 224255, 224255],
                [280.5, 101000.0, 0, 1, 0, 4, 100000.0, 100000.0]) == 'StopIteration'
# recall after 235000
assert error_of([12001, 224000, 236000, 101001, 31031, 8023, 224255, 235000, 224000, 237000, 8023, 224255],
                [280.5, 0, 0, 0, 4, 281.0, 0, 0, 4, 281.0]) == 'PyBufrKitError'  # rebased: was 'TypeError'

print('demo 2 OK')
