import os, sys; sys.path.insert(0, os.getcwd())
"""
Differential demonstration for refactor 6 (BitStringBitWriter: one _append sink for every
write, the width fitting of write_bytes as a helper with early returns, bitstring.Bits kept
on the instance instead of two function-local imports).  Expectations come from a model made
of '0'/'1' strings and from the sample files on disk, never from bitops.
Exits 0 when everything agrees, 1 otherwise.
"""
import copy
import random

from pybufrkit import bitops
from pybufrkit.bitops import get_bit_reader, get_bit_writer
from pybufrkit.errors import BitReadError

assert os.path.dirname(os.path.abspath(bitops.__file__)) == os.path.join(os.getcwd(), 'pybufrkit'), \
    'run me from the worktree root'

FAILURES = []
N_CHECKS = [0]


def check(cond, what):
    N_CHECKS[0] += 1
    if not cond:
        FAILURES.append(what)
        print('FAIL', what)


def outcome(f):
    """('ok', result) or ('exc', exact exception class)"""
    try:
        return 'ok', f()
    except Exception as e:
        return 'exc', type(e)


def bits_of_uint(value, nbits):
    s = bin(value)[2:]
    assert len(s) <= nbits
    return '0' * (nbits - len(s)) + s


def bits_of_bytes(value):
    return ''.join(bits_of_uint(b, 8) for b in bytearray(value))


def to_bytes(bits):
    assert len(bits) % 8 == 0
    return bytes(bytearray(int(bits[i:i + 8], 2) for i in range(0, len(bits), 8)))


def stream_bits(w):
    """The content of the writer as a '0'/'1' string, whatever its length, without disturbing it"""
    w = copy.deepcopy(w)
    n = w.get_pos()
    w.write_bin('0' * (-n % 8))
    return bits_of_bytes(w.to_bytes())[:n]


def writer_at(offset_bits):
    w = get_bit_writer()
    if offset_bits:
        w.write_bin(offset_bits)
    return w


def unchanged_by(w, f, exc):
    """f() raises exactly exc and leaves the writer as it was"""
    before, pos = stream_bits(w), w.get_pos()
    res = outcome(f)
    return res == ('exc', exc) and stream_bits(w) == before and w.get_pos() == pos


OFFSETS = ['', '1', '10', '101', '1011', '10110', '101101', '1011010']  # bit offsets 0..7

# ---------------------------------------------------------------------------
# 1. skip: zero bits, both formats (multiple of 8 or not), at every offset; its errors
# ---------------------------------------------------------------------------
for off in OFFSETS:
    for n in list(range(1, 66)) + [72, 80, 255, 256, 1000]:
        w = writer_at(off)
        check(w.skip(n) is None, 'skip %d@%d returns None' % (n, len(off)))
        check(w.get_pos() == len(off) + n, 'skip %d@%d position' % (n, len(off)))
        check(stream_bits(w) == off + '0' * n, 'skip %d@%d bits' % (n, len(off)))
    w = writer_at(off)
    check(unchanged_by(w, lambda: w.skip(0), ValueError), 'skip 0 refused')
    check(unchanged_by(w, lambda: w.skip(-1), ValueError), 'skip -1 refused')
    check(unchanged_by(w, lambda: w.skip(-8), ValueError), 'skip -8 refused')
    check(unchanged_by(w, lambda: w.skip(None), TypeError), 'skip None refused')

# ---------------------------------------------------------------------------
# 2. write_bytes: every branch of the width fitting
# ---------------------------------------------------------------------------
def fitted(value, nbytes):
    """space-padded or truncated, written without if/elif: pad generously, then cut"""
    if nbytes is None:
        return value
    return (value + b' ' * max(nbytes, 0))[:nbytes] if len(value) < nbytes else value[:nbytes]


VALUES = [b'', b'a', b'abc', b'abc ', b'  abc  ', b'\x00\xff\x80', b'0123456789abcdef', bytes(bytearray(range(256)))]
for off in OFFSETS:
    for value in VALUES:
        for nbytes in [None, 0, 1, 2, 3, 4, 7, 8, 16, 17, 255, 256, 300, -1, -2, -300]:
            exp = fitted(value, nbytes)
            for as_text in (False, True):
                arg = value.decode('latin-1') if as_text else value
                w = writer_at(off)
                ret = w.write_bytes(arg) if nbytes is None and as_text else w.write_bytes(arg, nbytes)
                what = 'write_bytes(%r, %r)@%d' % (arg[:8], nbytes, len(off))
                check(ret == exp and type(ret) is bytes, what + ' returns %r' % (ret[:8],))
                check(w.get_pos() == len(off) + 8 * len(exp), what + ' position')
                check(stream_bits(w) == off + bits_of_bytes(exp), what + ' bits')
                if nbytes is not None and nbytes >= 0:
                    check(len(ret) == nbytes, what + ' width')
                # and back, when aligned reading is possible at all (any offset is)
                r = get_bit_reader(to_bytes(stream_bits(w) + '0' * (-w.get_pos() % 8)))
                if off:
                    r.read_bin(len(off))
                check(r.read_bytes(len(exp)) == exp and r.get_pos() == w.get_pos(), what + ' read back')

# default argument and keyword
w = get_bit_writer()
check(w.write_bytes(b'xy') == b'xy' and w.write_bytes(value=b'xyz', nbytes=2) == b'xy' and
      w.write_bytes(b'x', nbytes=3) == b'x  ' and w.to_bytes() == b'xyxyx  ', 'write_bytes default and keywords')
# whitespace is kept (the reason for not using a 'bytes:n=...' token)
w = get_bit_writer()
w.write_bytes(b' \t\n ', 6)
check(w.to_bytes() == b' \t\n   ', 'write_bytes keeps white space')

# mutable arguments: padding happens with += (in place, the object comes back), cutting makes a new object
for off in ('', '101'):
    ba = bytearray(b'ab')
    w = writer_at(off)
    ret = w.write_bytes(ba, 4)
    check(ret is ba and ba == bytearray(b'ab  ') and stream_bits(w) == off + bits_of_bytes(b'ab  '), 'bytearray padded in place')
    ba = bytearray(b'abcd')
    w = writer_at(off)
    ret = w.write_bytes(ba, 2)
    check(ret is not ba and ret == bytearray(b'ab') and ba == bytearray(b'abcd') and
          stream_bits(w) == off + bits_of_bytes(b'ab'), 'bytearray cut into a new object')
    for nbytes in (None, 4):
        ba = bytearray(b'abcd')
        w = writer_at(off)
        ret = w.write_bytes(ba, nbytes)
        check(ret is ba and ba == bytearray(b'abcd') and stream_bits(w) == off + bits_of_bytes(b'abcd'),
              'bytearray of the right width handed through (%r)' % nbytes)
    b = b'abcd'
    w = writer_at(off)
    check(w.write_bytes(b, 4) is b and w.write_bytes(b) is b, 'bytes of the right width handed through')
    lst = [65, 66]
    w = writer_at(off)
    ret = w.write_bytes(lst, 4)
    check(ret is lst and lst == [65, 66, 32, 32] and stream_bits(w) == off + bits_of_bytes(b'AB  '), 'list padded in place')

# errors of write_bytes: same types, nothing written
for off in ('', '1011'):
    w = writer_at(off)
    check(unchanged_by(w, lambda: w.write_bytes(u'€', 3), UnicodeEncodeError), 'not latin-1')
    check(unchanged_by(w, lambda: w.write_bytes(u'€'), UnicodeEncodeError), 'not latin-1, no width')
    check(unchanged_by(w, lambda: w.write_bytes(None, 2), TypeError), 'None has no len()')
    check(unchanged_by(w, lambda: w.write_bytes(None), TypeError), 'None has no len(), no width')
    check(unchanged_by(w, lambda: w.write_bytes(5), TypeError), 'int has no len(), no width')
    check(unchanged_by(w, lambda: w.write_bytes(b'abc', 'x'), TypeError), 'width that does not compare')
    check(unchanged_by(w, lambda: w.write_bytes(b'abc', 2.5), TypeError), 'longer than a float width: slice refuses')
    check(unchanged_by(w, lambda: w.write_bytes(b'abc', 3.5), TypeError), 'shorter than a float width: repeat refuses')
    check(unchanged_by(w, lambda: w.write_bytes((1, 2), 3), TypeError), 'tuple cannot be padded with bytes')
    check(outcome(lambda: w.write_bytes(b'abc', 3.0)) == ('ok', b'abc'), 'float width equal to the length: taken as is')

# ---------------------------------------------------------------------------
# 3. write_uint / write_int / write_bool / write_bin at every width and offset
# ---------------------------------------------------------------------------
for n in range(1, 65):
    values = sorted({0, 1, 2 ** (n - 1), max(2 ** n - 2, 0), 2 ** n - 1})
    for off in OFFSETS:
        for v in values:
            w = writer_at(off)
            ret = w.write_uint(v, n)
            what = 'write_uint(%d, %d)@%d' % (v, n, len(off))
            check(ret == v and w.get_pos() == len(off) + n, what + ' returns / position')
            check(stream_bits(w) == off + bits_of_uint(v, n), what + ' bits')
            r = get_bit_reader(to_bytes(stream_bits(w) + '0' * (-w.get_pos() % 8)))
            if off:
                r.read_bin(len(off))
            check(r.read_uint(n) == v and r.get_pos() == w.get_pos(), what + ' read back')
            r = get_bit_reader(to_bytes(stream_bits(w) + '0' * (-w.get_pos() % 8)))
            if off:
                r.read_bin(len(off))
            check(r.read_uint_or_none(n) == (None if n > 1 and v == 2 ** n - 1 else v), what + ' missing or not')
        w = writer_at(off)
        check(unchanged_by(w, lambda: w.write_uint(2 ** n, n), ValueError), 'write_uint 2^%d refused' % n)
        check(unchanged_by(w, lambda: w.write_uint(-1, n), ValueError), 'write_uint -1 refused (%d)' % n)
        if n >= 2:
            for m in sorted({0, 1, 2 ** (n - 1) - 1}):
                for v in (m, -m):
                    w = writer_at(off)
                    ret = w.write_int(v, n)
                    what = 'write_int(%d, %d)@%d' % (v, n, len(off))
                    check(ret == v and w.get_pos() == len(off) + n, what + ' returns / position')
                    check(stream_bits(w) == off + ('1' if v < 0 else '0') + bits_of_uint(abs(v), n - 1), what + ' bits')
                    r = get_bit_reader(to_bytes(stream_bits(w) + '0' * (-w.get_pos() % 8)))
                    if off:
                        r.read_bin(len(off))
                    check(r.read_int(n) == v and r.get_pos() == w.get_pos(), what + ' read back')
            # the magnitude does not fit: refused (the sign bit is already in, as before)
            w = writer_at(off)
            check(outcome(lambda: w.write_int(2 ** (n - 1), n)) == ('exc', ValueError) and
                  stream_bits(w) == off + '0', 'write_int magnitude 2^%d refused' % (n - 1))
            w = writer_at(off)
            check(outcome(lambda: w.write_int(-2 ** (n - 1), n)) == ('exc', ValueError) and
                  stream_bits(w) == off + '1', 'write_int magnitude -2^%d refused' % (n - 1))

w = get_bit_writer()
check(w.write_uint('7', 3) == 7 and w.write_uint(3.7, 3) == 3 and w.write_uint(True, 2) == 1 and
      stream_bits(w) == '111' + '011' + '01', 'write_uint converts with int()')
check(unchanged_by(w, lambda: w.write_uint(None, 3), TypeError), 'write_uint None')
check(unchanged_by(w, lambda: w.write_uint('x', 3), ValueError), 'write_uint junk')
check(unchanged_by(w, lambda: w.write_uint(1, 0), ValueError), 'write_uint width 0')
check(unchanged_by(w, lambda: w.write_uint(1, None), TypeError), 'write_uint width None')
check(unchanged_by(w, lambda: w.write_int(None, 3), TypeError), 'write_int None')

for off in OFFSETS:
    for v, bit in ((True, '1'), (False, '0'), (1, '1'), (0, '0')):
        w = writer_at(off)
        ret = w.write_bool(v)
        check(ret is v and w.get_pos() == len(off) + 1 and stream_bits(w) == off + bit, 'write_bool(%r)@%d' % (v, len(off)))
    w = writer_at(off)
    for junk in ('maybe', None, 2, -1, 1.0, ''):
        check(unchanged_by(w, lambda: w.write_bool(junk), ValueError), 'write_bool(%r) refused' % (junk,))
    for n in list(range(0, 70)) + [255, 1000]:
        rng = random.Random(n)
        v = ''.join(rng.choice('01') for _ in range(n))
        w = writer_at(off)
        ret = w.write_bin(v)
        check(ret is v and w.get_pos() == len(off) + n and stream_bits(w) == off + v, 'write_bin %d@%d' % (n, len(off)))
    w = writer_at(off)
    check(unchanged_by(w, lambda: w.write_bin('12'), ValueError), 'write_bin junk refused')
    check(unchanged_by(w, lambda: w.write_bin(b'101'), ValueError), 'write_bin bytes refused')
    check(unchanged_by(w, lambda: w.write_bin(None), TypeError), 'write_bin None')
    check(unchanged_by(w, lambda: w.write_bin(5), TypeError), 'write_bin int')

# ---------------------------------------------------------------------------
# 4. set_uint: exactly those bits, nothing else, same total length
# ---------------------------------------------------------------------------
rng = random.Random(19006)
for n in range(1, 65):
    values = sorted({0, 1, 2 ** (n - 1), max(2 ** n - 2, 0), 2 ** n - 1})
    for offset in range(8):
        for v in values:
            head = ''.join(rng.choice('01') for _ in range(8 * rng.randint(0, 2) + offset))
            old = ''.join(rng.choice('01') for _ in range(n))
            tail = ''.join(rng.choice('01') for _ in range(rng.randint(0, 40)))
            w = get_bit_writer()
            w.write_bin(head + old + tail)
            check(w.set_uint(v, n, len(head)) is None, 'set_uint returns None')
            check(w.get_pos() == len(head) + n + len(tail), 'set_uint(%d, %d, %d) keeps the length' % (v, n, len(head)))
            check(stream_bits(w) == head + bits_of_uint(v, n) + tail, 'set_uint(%d, %d, %d) bits' % (v, n, len(head)))
            # the writer goes on at the end
            w.write_bool(True)
            check(stream_bits(w) == head + bits_of_uint(v, n) + tail + '1', 'append after set_uint')
        w = get_bit_writer()
        w.write_bin('1' * offset + '0' * n + '1' * 5)
        check(unchanged_by(w, lambda: w.set_uint(2 ** n, n, offset), ValueError), 'set_uint 2^%d refused' % n)
        check(unchanged_by(w, lambda: w.set_uint(-1, n, offset), ValueError), 'set_uint -1 refused')
w = get_bit_writer()
w.write_bin('10101010')
check(unchanged_by(w, lambda: w.set_uint(1, 0, 0), ValueError), 'set_uint width 0')
check(unchanged_by(w, lambda: w.set_uint(1, None, 0), TypeError), 'set_uint width None')
check(unchanged_by(w, lambda: w.set_uint(None, 3, 0), TypeError), 'set_uint value None')
# no int() in set_uint, but bitstring itself takes a numeric string
check(outcome(lambda: w.set_uint('6', 4, 1)) == ('ok', None) and stream_bits(w) == '1' + '0110' + '010',
      'set_uint value as a numeric string')
check(unchanged_by(w, lambda: w.set_uint('x', 4, 1), ValueError), 'set_uint value junk')

# the pattern of the encoder: skip the length field, write on, come back and fill it in
w = get_bit_writer()
w.write_bytes(b'BUFR')
w.skip(24)
w.write_uint(4, 8)
w.write_bytes(b'7777')
w.set_uint(w.get_pos() // 8, 24, 32)
check(w.to_bytes() == b'BUFR\x00\x00\x0c\x047777', 'skip, write, set_uint')

# ---------------------------------------------------------------------------
# 5. random sequences of direct calls, two writers never sharing anything, deepcopy independent
# ---------------------------------------------------------------------------
for trial in range(200):
    rng = random.Random(trial)
    w, other = get_bit_writer(), get_bit_writer()
    model = ''
    fields = []
    for _ in range(rng.randint(1, 200 if trial % 10 == 0 else 50)):
        kind = rng.choice(('uint', 'int', 'bool', 'bin', 'bytes', 'skip', 'set'))
        if kind == 'uint':
            n = rng.randint(1, 64)
            v = rng.randrange(2 ** n)
            w.write_uint(v, n)
            model += bits_of_uint(v, n)
            fields.append(('uint', n, v))
        elif kind == 'int':
            n = rng.randint(2, 64)
            v = rng.randrange(2 ** (n - 1)) * rng.choice((1, -1))
            w.write_int(v, n)
            model += ('1' if v < 0 else '0') + bits_of_uint(abs(v), n - 1)
            fields.append(('int', n, v))
        elif kind == 'bool':
            v = rng.choice((True, False))
            w.write_bool(v)
            model += '1' if v else '0'
            fields.append(('bool', 1, v))
        elif kind == 'bin':
            n = rng.randint(0, 40)
            v = ''.join(rng.choice('01') for _ in range(n))
            w.write_bin(v)
            model += v
            fields.append(('bin', n, v))
        elif kind == 'bytes':
            v = bytes(bytearray(rng.randrange(256) for _ in range(rng.randint(0, 10))))
            nbytes = rng.choice((None, rng.randint(0, 12)))
            ret = w.write_bytes(v, nbytes)
            exp = fitted(v, nbytes)
            check(ret == exp, 'trial %d: write_bytes returns' % trial)
            model += bits_of_bytes(exp)
            fields.append(('bytes', len(exp), exp))
        elif kind == 'skip':
            n = rng.randint(1, 40)
            w.skip(n)
            model += '0' * n
            fields.append(('bin', n, '0' * n))
        elif fields:
            # overwrite one of the earlier unsigned fields in place
            uints = [i for i, f in enumerate(fields) if f[0] == 'uint']
            if uints:
                i = rng.choice(uints)
                n = fields[i][1]
                start = sum({'bytes': 8 * f[1]}.get(f[0], f[1]) for f in fields[:i])
                v = rng.randrange(2 ** n)
                w.set_uint(v, n, start)
                model = model[:start] + bits_of_uint(v, n) + model[start + n:]
                fields[i] = ('uint', n, v)
        check(w.get_pos() == len(model), 'trial %d: position' % trial)
    check(other.get_pos() == 0 and other.to_bytes() == b'', 'trial %d: the other writer is untouched' % trial)
    clone = copy.deepcopy(w)
    clone.write_uint(5, 3)
    clone.write_bytes(b'zz', 3)
    check(stream_bits(w) == model, 'trial %d: bits (and the deep copy is independent)' % trial)
    check(stream_bits(clone) == model + '101' + bits_of_bytes(b'zz '), 'trial %d: the deep copy writes on' % trial)
    w.write_bin('0' * (-len(model) % 8))
    data = w.to_bytes()
    check(data == to_bytes(model + '0' * (-len(model) % 8)), 'trial %d: bytes' % trial)
    r = get_bit_reader(data)
    pos = 0
    for t, n, v in fields:
        got = {'uint': r.read_uint, 'int': r.read_int, 'bin': r.read_bin, 'bytes': r.read_bytes,
               'bool': lambda _: r.read_bool()}[t](n)
        pos += 8 * n if t == 'bytes' else n
        check(got == v and type(got) is type(v) and r.get_pos() == pos, 'trial %d: %s %d read back' % (trial, t, n))
    check(outcome(lambda: r.read_uint(len(data) * 8 - pos + 1)) == ('exc', BitReadError), 'trial %d: past the end' % trial)

# ---------------------------------------------------------------------------
# 6. whole messages: the encoder uses skip + set_uint for every length field, write_bytes for
#    the signatures and strings, write_bin / write_bool for the flags
# ---------------------------------------------------------------------------
from pybufrkit.encoder import Encoder

DATA = os.path.join('tests', 'data')
for stub in ('IUSK73_AMMC_182300', 'rado_250'):
    # these two JSON files encode to exactly the bytes of the sample file
    with open(os.path.join(DATA, stub + '.bufr'), 'rb') as ins:
        raw = ins.read()
    with open(os.path.join(DATA, stub + '.json')) as ins:
        encoded = Encoder().process(ins.read())
    check(encoded.serialized_bytes == raw, stub + ': JSON encodes to the bytes of the sample file')

print('%d checks, %d failures' % (N_CHECKS[0], len(FAILURES)))
sys.exit(1 if FAILURES else 0)
