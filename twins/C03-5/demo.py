import os, sys; sys.path.insert(0, os.getcwd())
"""
Differential demonstration for refactor 5 (compressed/uncompressed dispatchers
and process_numeric_of_new_refval pulled up from Encoder and Decoder into Coder).

Messages are assembled bit by bit by a small independent FM-94 writer below
(no pybufrkit code involved) and compared with what the Encoder writes and what
the Decoder reads, for the plain and the compiled-template paths, compressed and
uncompressed, through every one of the six methods that moved.
"""
import json

import bitstring

from pybufrkit.coder import Coder
from pybufrkit.decoder import Decoder
from pybufrkit.encoder import Encoder
from pybufrkit.templatecompiler import TemplateCompiler

# --------------------------------------------------------------------------- independent writer
# kind, nbits, scale, refval of the elements used (WMO table B, version 18)
NUM, STR, CODE = 'num', 'str', 'code'
TEMPLATE = [1001, 5001, 12101, 1015, 2001,
            203012, 12101, 203255, 207001, 12101, 207000, 203000,
            222000, 236000, 101001, 31031, 33007]
# One slot per value of a subset: (kind, nbits, scale, refval)
NEW_REFVAL = 'newref'
CONST = 'const'


def slots(new_refval):
    return [
        (NUM, 7, 0, 0),  # 001001
        (NUM, 25, 5, -9000000),  # 005001
        (NUM, 16, 2, 0),  # 012101
        (STR, 160, 0, 0),  # 001015
        (CODE, 2, 0, 0),  # 002001
        (NEW_REFVAL, 12, 0, 0),  # 012101 under 203012
        (NUM, 16 + 4, 2 + 1, new_refval * 10),  # 012101 under 203 (new refval) and 207001
        (CONST, 0, 0, 0),  # 222000
        (CONST, 0, 0, 0),  # 236000
        (CODE, 1, 0, 0),  # 031031
        (NUM, 7, 0, 0),  # 033007
    ]


def ubits(value, nbits):
    assert 0 <= value < (1 << nbits), (value, nbits)
    return format(value, '0{}b'.format(nbits)) if nbits else ''


def sbits(value, nbits):  # sign and magnitude, as 203 YYY wants
    return ('1' if value < 0 else '0') + ubits(abs(value), nbits - 1)


def strbits(value, nbytes):
    if value is None:
        raw = b'\xff' * nbytes
    else:
        raw = value.encode('latin-1')[:nbytes].ljust(nbytes, b' ')
    return ''.join(ubits(c, 8) for c in bytearray(raw))


def raw_of(kind, nbits, scale, refval, value):
    if value is None:
        return None
    if kind == NUM:
        # round half to even like the builtin, on the scaled value
        return int(round(value * 10.0 ** scale)) - refval
    return value


def incr_width(span):
    n = 0
    while not ((1 << n) - 1 > span + 1):
        n += 1
    return n


def data_bits_uncompressed(subsets):
    out = []
    for values in subsets:
        new_refval = values[5]
        for (kind, nbits, scale, refval), v in zip(slots(new_refval), values):
            if kind == CONST:
                continue
            if kind == STR:
                out.append(strbits(v, nbits // 8))
            elif kind == NEW_REFVAL:
                out.append(sbits(v, nbits))
            else:
                raw = raw_of(kind, nbits, scale, refval, v)
                out.append(ubits((1 << nbits) - 1 if raw is None else raw, nbits))
    return ''.join(out)


def data_bits_compressed(subsets):
    out = []
    new_refval = subsets[0][5]
    for idx, (kind, nbits, scale, refval) in enumerate(slots(new_refval)):
        column = [values[idx] for values in subsets]
        if kind == CONST:
            continue
        if kind == STR:
            nbytes = nbits // 8
            if all(v == column[0] for v in column):
                out.append(strbits(column[0], nbytes) + ubits(0, 6))
            else:
                out.append(ubits(0, nbits) + ubits(nbytes, 6))
                out.extend(strbits(v, nbytes) for v in column)
        elif kind == NEW_REFVAL:
            out.append(sbits(column[0], nbits) + ubits(0, 6))
        else:
            raws = [raw_of(kind, nbits, scale, refval, v) for v in column]
            present = [r for r in raws if r is not None]
            if not present:
                out.append(ubits((1 << nbits) - 1, nbits) + ubits(0, 6))
            elif len(present) == len(raws) and min(present) == max(present):
                out.append(ubits(present[0], nbits) + ubits(0, 6))
            else:
                low = min(present)
                width = incr_width(max(present) - low)
                out.append(ubits(low, nbits) + ubits(width, 6))
                out.extend(ubits((1 << width) - 1 if r is None else r - low, width) for r in raws)
    return ''.join(out)


def to_bytes(bits):
    bits += '0' * (-len(bits) % 8)
    return bytes(bytearray(int(bits[i:i + 8], 2) for i in range(0, len(bits), 8)))


def message_bytes(subsets, compressed):
    sec1 = to_bytes(ubits(22, 24) + ubits(0, 8) + ubits(1, 16) + ubits(0, 16) + ubits(0, 8) + '0' + '0000000' +
                    ubits(2, 8) + ubits(4, 8) + ubits(0, 8) + ubits(18, 8) + ubits(0, 8) +
                    ubits(2016, 16) + ''.join(ubits(x, 8) for x in (2, 18, 23, 0, 0)))
    sec3 = to_bytes(ubits(7 + 2 * len(TEMPLATE), 24) + ubits(0, 8) + ubits(len(subsets), 16) +
                    '1' + ('1' if compressed else '0') + '000000' +
                    ''.join(ubits(d // 100000, 2) + ubits(d // 1000 % 100, 6) + ubits(d % 1000, 8)
                            for d in TEMPLATE))
    data = to_bytes((data_bits_compressed if compressed else data_bits_uncompressed)(subsets))
    sec4 = to_bytes(ubits(4 + len(data), 24) + ubits(0, 8)) + data
    body = sec1 + sec3 + sec4 + b'7777'
    return b'BUFR' + to_bytes(ubits(8 + len(body), 24) + ubits(4, 8)) + body


def message_json(subsets, compressed):
    return json.dumps([
        ['BUFR', 0, 4],
        [22, 0, 1, 0, 0, False, '0000000', 2, 4, 0, 18, 0, 2016, 2, 18, 23, 0, 0],
        [0, '00000000', len(subsets), True, compressed, '000000', TEMPLATE],
        [0, '00000000', subsets],
        ['7777'],
    ])


# --------------------------------------------------------------------------- the cases
# Values on the quantisation grid, so that they read back exactly.
UNCOMPRESSED = [
    [94, -25.03410, 273.15, 'ALPHA', 1, -123, 150.125, 0, 0, 0, 70],
    [None, 89.99999, None, None, None, 45, 0.463, 0, 0, 0, None],
]
COMPRESSED = [
    # all equal / differing / differing with one missing / equal strings / all missing codes
    [94, -25.03410, 273.15, 'SAME', None, -7, 1.5, 0, 0, 0, 70],
    [94, 12.5, None, 'SAME', None, -7, 1.75, 0, 0, 0, 70],
    [94, 12.50003, 250.0, 'SAME', None, -7, 2.0, 0, 0, 0, 1],
]
COMPRESSED_STRINGS = [
    [1, 0.0, 1.0, 'ONE', 0, 5, 3.0, 0, 0, 0, 10],
    [1, 0.0, 1.0, None, 2, 5, 3.0, 0, 0, 0, 10],
]


def padded(values):
    # what the bits say: a string comes back as the 20 octets of its field (all ones when missing)
    values = [(v.encode('latin-1')[:20].ljust(20, b' ') if isinstance(v, str) else v) for v in values]
    if values[3] is None:
        values[3] = b'\xff' * 20
    return values


def check(label, ok):
    print(('ok   ' if ok else 'FAIL ') + label)
    if not ok:
        check.failed = True


check.failed = False


def same_values(decoded, subsets):
    got = decoded.template_data.value.decoded_values_all_subsets
    if len(got) != len(subsets):
        return False
    for g, e in zip(got, subsets):
        e = padded(e)
        if len(g) != len(e):
            return False
        for a, b in zip(g, e):
            if a is None or b is None or isinstance(b, bytes):
                if a != b:
                    return False
            elif abs(a - b) > 1e-9:
                return False
    return True


for label, subsets, compressed in (('uncompressed', UNCOMPRESSED, False),
                                   ('compressed', COMPRESSED, True),
                                   ('compressed strings', COMPRESSED_STRINGS, True)):
    expected = message_bytes(subsets, compressed)
    for how, kwargs in (('plain', {}), ('compiled', {'compiled_template_cache_max': 10})):
        encoded = Encoder(**kwargs).process(message_json(subsets, compressed))
        check('{} / {}: encoder writes the hand-assembled bytes'.format(label, how),
              encoded.serialized_bytes == expected)
        decoded = Decoder(**kwargs).process(expected)
        check('{} / {}: decoder reads the hand-chosen values'.format(label, how),
              same_values(decoded, subsets))
        check('{} / {}: bitmap link of 033007 recorded'.format(label, how),
              all(links == {10: 6}  # 033007 (11th descriptor) qualifies the second 012101 (7th)
                  for links in decoded.template_data.value.bitmap_links_all_subsets))


# --------------------------------------------------------------------------- errors go through unchanged
def raises(exc_type, func, *args):
    try:
        func(*args)
    except exc_type:
        return True
    except Exception as e:
        print('   unexpected {!r}'.format(e))
        return False
    return False


too_big = [list(UNCOMPRESSED[0])]
too_big[0][0] = 128  # 7 bits hold 0..127
check('uncompressed numeric beyond the field is refused by the bit writer',
      raises(bitstring.CreationError, Encoder().process, message_json(too_big, False)))
negative = [list(UNCOMPRESSED[0])]
negative[0][2] = -0.01
check('uncompressed numeric below the reference value is refused by the bit writer',
      raises(bitstring.CreationError, Encoder().process, message_json(negative, False)))
bad_code = [list(UNCOMPRESSED[0])]
bad_code[0][4] = 4  # 2 bits
check('code value beyond the field is refused',
      raises(bitstring.CreationError, Encoder().process, message_json(bad_code, False)))
no_refval = [list(UNCOMPRESSED[0])]
no_refval[0][5] = None
check('missing new reference value: AssertionError (uncompressed)',
      raises(AssertionError, Encoder().process, message_json(no_refval, False)))
differing_refval = [list(v) for v in COMPRESSED]
differing_refval[1][5] = -8
check('differing new reference values: AssertionError (compressed)',
      raises(AssertionError, Encoder().process, message_json(differing_refval, True)))
bad_const = [list(UNCOMPRESSED[0])]
bad_const[0][7] = 1
check('non-zero value for 222000: AssertionError (uncompressed)',
      raises(AssertionError, Encoder().process, message_json(bad_const, False)))
bad_const_c = [list(v) for v in COMPRESSED]
bad_const_c[2][8] = 1
check('non-zero value for 236000: AssertionError (compressed)',
      raises(AssertionError, Encoder().process, message_json(bad_const_c, True)))


# --------------------------------------------------------------------------- the dispatch itself
class FakeState(object):
    def __init__(self, is_compressed):
        self.is_compressed = is_compressed
        self.new_refvals = {12101: -123}


class FakeDescriptor(object):
    id = 12101


def spy_on(base):
    calls = []

    class Spy(base):
        def __init__(self):  # no tables, no definitions: only the dispatch is looked at
            pass

    def recorder(name):
        def method(self, *args):
            calls.append((name, args))
            return 'ignored'
        return method

    for kind in ('numeric', 'string', 'codeflag', 'new_refval', 'constant'):
        for suffix in ('compressed', 'uncompressed'):
            name = 'process_{}_{}'.format(kind, suffix)
            setattr(Spy, name, recorder(name))
    return Spy(), calls


ARGS = {
    'numeric': (16, 100.0, -5),
    'string': (20,),
    'codeflag': (2,),
    'new_refval': (12,),
    'constant': (0,),
}
for base in (Encoder, Decoder):
    for is_compressed in (False, True):
        spy, calls = spy_on(base)
        state, bit_operator, descriptor = FakeState(is_compressed), object(), FakeDescriptor()
        suffix = 'compressed' if is_compressed else 'uncompressed'
        ok = True
        for kind, args in sorted(ARGS.items()):
            del calls[:]
            result = getattr(spy, 'process_' + kind)(state, bit_operator, descriptor, *args)
            ok = ok and result is None and calls == [
                ('process_{}_{}'.format(kind, suffix), (state, bit_operator, descriptor) + args)]
        del calls[:]
        result = spy.process_numeric_of_new_refval(state, bit_operator, descriptor, 20, 1000.0, 10)
        ok = ok and result is None and calls == [
            ('process_numeric_' + suffix, (state, bit_operator, descriptor, 20, 1000.0, -1230))]
        check('{}: dispatch on is_compressed={} reaches the overridable *_{} methods with the same arguments'
              .format(base.__name__, is_compressed, suffix), ok)
    check('{}: unknown descriptor id in new_refvals is a KeyError'.format(base.__name__),
          raises(KeyError, spy.process_numeric_of_new_refval,
                 FakeState(False), None, type('D', (), {'id': 1})(), 1, 1.0, 1))

for name in ('process_numeric', 'process_string', 'process_codeflag', 'process_new_refval',
             'process_numeric_of_new_refval', 'process_constant'):
    check('{} callable on Encoder, Decoder; still overridden by TemplateCompiler'.format(name),
          callable(getattr(Encoder, name)) and callable(getattr(Decoder, name)) and
          name in vars(TemplateCompiler) and issubclass(TemplateCompiler, Coder))

sys.exit(1 if check.failed else 0)
