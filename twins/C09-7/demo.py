import os, sys; sys.path.insert(0, os.getcwd())
"""
Differential demonstration for refactor 7 (commands.command_decode).

Everything command_decode prints is compared with what is computed here without
command_decode: the input is read and cut into messages by this script, decoded
with a Decoder of its own, rendered by calling the renderer classes directly.
What is printed is then converted back to the flat form, and encoded through
command_encode from all four formats (same bytes).
"""
import argparse
import contextlib
import glob
import io
import json
import shutil
import struct
import tempfile

import pybufrkit
assert os.path.dirname(os.path.abspath(pybufrkit.__file__)) == os.path.join(os.getcwd(), 'pybufrkit'), pybufrkit.__file__

from pybufrkit import commands
from pybufrkit.commands import command_decode, command_encode
from pybufrkit.decoder import Decoder, generate_bufr_message
from pybufrkit.encoder import Encoder
from pybufrkit.errors import PyBufrKitError
from pybufrkit.renderer import FlatTextRenderer, NestedTextRenderer, FlatJsonRenderer, NestedJsonRenderer
from pybufrkit.utils import (JSON_DUMPS_KWARGS, nested_json_to_flat_json, flat_text_to_flat_json,
                             nested_text_to_flat_json)

DATA_DIR = os.path.join('tests', 'data')
BENCHMARK_DIR = os.path.join('tests', 'benchmark_data')
TMP_DIR = tempfile.mkdtemp(prefix='c09_r7_')
N_CHECKS = [0]


def check(cond, *what):
    N_CHECKS[0] += 1
    if not cond:
        print('FAILED:', *what)
        shutil.rmtree(TMP_DIR, ignore_errors=True)
        sys.exit(1)


# ---------------------------------------------------------------------------
# Messages built by hand (shapes the sample files do not have, or not together)
# ---------------------------------------------------------------------------
def build(descriptors, subsets, compressed=False):
    data = [["BUFR", 0, 4],
            [22, 0, 1, 0, 0, False, "0000000", 2, 4, 0, 18, 0, 2016, 2, 18, 23, 0, 0],
            [0, "00000000", len(subsets), True, compressed, "000000", descriptors],
            [0, "00000000", subsets],
            ["7777"]]
    return Encoder().process(data, wire_template_data=False).serialized_bytes


HAND_BUILT = {
    # associated fields on plain elements inside / outside a delayed replication
    'assoc': ([204008, 31021, 12001, 101000, 31001, 12001, 204000, 12001],
              [[1, 3, 280.5, 2, 1, 270.0, 0, 271.0, 299.0]], False),
    # strings with quotes, spaces, 8-bit characters; 205YYY, 206YYY, 201YYY; flag table
    'strings': ([1015, 205008, 1015, 8042, 206008, 63250, 201130, 12001, 201000],
                [[b"it's \"q\" \xe9 x", b"ab 'c\" d", b"O'Neil", 5, 17, 250.0]], False),
    # zero-count replication, the rest of the template being inside it
    'zero': ([1001, 113000, 31001, 1002, 301011, 102002, 2001, 2002, 8042], [[5, 0]], False),
    # quality information on a replication factor (and on plain elements)
    'factorattr': ([12001, 101000, 31001, 12002, 222000, 101003, 31031, 101003, 33007],
                   [[280.0, 1, 281.0, 0, 0, 0, 0, 70, 80, 90]], False),
    # bitmap defined for reuse, chained attributes, first order statistics markers
    'bitmap': ([12001, 12002, 10004, 222000, 236000, 101003, 31031, 1031, 1032, 101002, 33007,
                224000, 237000, 1031, 1032, 8023, 101002, 224255],
               [[280.0, 281.0, 100000.0, 0, 0, 0, 1, 0, 7, 8, 70, 80, 0, 0, 7, 8, 4, 1.0, 2.0]], False),
    # two subsets, compressed, strings with quotes
    'comp': ([1001, 1015, 20003, 103000, 31001, 12001, 1002, 8042],
             [[5, b"a'b", 3, 1, 280.0, 7, 4], [6, b'c"d', 3, 1, 281.0, 7, 4]], True),
}
HAND_BUILT_FILES = {}
for name_, (descriptors_, subsets_, compressed_) in HAND_BUILT.items():
    path_ = os.path.join(TMP_DIR, name_ + '.bufr')
    with open(path_, 'wb') as outs_:
        outs_.write(build(descriptors_, subsets_, compressed_))
    HAND_BUILT_FILES[name_] = path_


# ---------------------------------------------------------------------------
# The reference: what decode has to print, computed without command_decode
# ---------------------------------------------------------------------------
def split_messages(s):
    """Cut the content into messages by the declared lengths (edition >= 2)."""
    pieces, start = [], 0
    while True:
        start = s.find(b'BUFR', start)
        if start < 0:
            return pieces
        length, = struct.unpack('>I', b'\0' + s[start + 4: start + 7])
        pieces.append(s[start: start + length])
        start += length


def reference_text_of(message, attributed, as_json):
    if attributed:
        message.wire()
    renderer = {(False, False): FlatTextRenderer, (False, True): FlatJsonRenderer,
                (True, False): NestedTextRenderer, (True, True): NestedJsonRenderer}[(attributed, as_json)]()
    rendered = renderer.render(message)
    return (json.dumps(rendered, **JSON_DUMPS_KWARGS) if as_json else rendered) + '\n'


DECODED = {}


def decoded_once(piece, filename):
    # decoded by this script's own decoder, once for the four formats (wiring does not change the flat view)
    key = (piece, filename)
    if key not in DECODED:
        DECODED[key] = Decoder().process(piece, file_path=filename, wire_template_data=False)
    return DECODED[key]


def reference_output(contents, attributed, as_json, multiple, filenames):
    out = []
    for s, filename in zip(contents, filenames):
        for piece in (split_messages(s) if multiple else [s]):
            out.append(reference_text_of(decoded_once(piece, filename), attributed, as_json))
    return ''.join(out)


def make_ns(filenames, attributed=False, as_json=False, multiple=False, **kwargs):
    ns = argparse.Namespace(
        definitions_directory=None, tables_root_directory=None, compiled_template_cache_max=None,
        filenames=list(filenames), attributed=attributed, json=as_json, multiple_messages=multiple,
        ignore_value_expectation=False, continue_on_error=False, filter=None,
    )
    for k, v in kwargs.items():
        setattr(ns, k, v)
    return ns


class FakeStdin(object):
    def __init__(self, content):
        self.content, self.n_reads = content, 0

    def read(self):
        self.n_reads += 1
        return self.content


def run_decode(ns, stdin=None):
    """-> (what was printed, the exception that ended it or None)"""
    buf = io.StringIO()
    saved_stdin = sys.stdin
    if stdin is not None:
        sys.stdin = stdin
    try:
        with contextlib.redirect_stdout(buf):
            try:
                command_decode(ns)
            except Exception as e:
                return buf.getvalue(), e
    finally:
        sys.stdin = saved_stdin
    return buf.getvalue(), None


def read_file(path):
    with open(path, 'rb') as ins:
        return ins.read()


FORMATS = [(attributed, as_json) for attributed in (False, True) for as_json in (False, True)]
TO_FLAT = {
    (False, False): flat_text_to_flat_json,
    (False, True): json.loads,
    (True, False): nested_text_to_flat_json,
    (True, True): lambda text: nested_json_to_flat_json(json.loads(text)),
}


def flat_json_as_loaded(message):
    return json.loads(json.dumps(FlatJsonRenderer().render(message), **JSON_DUMPS_KWARGS))


def jsonable(flat):
    return json.loads(json.dumps(flat, **JSON_DUMPS_KWARGS))


# ---------------------------------------------------------------------------
# 1. single message per file: every format x (one file per call, all files in one call)
# ---------------------------------------------------------------------------
sample_files = [os.path.join(DATA_DIR, f) for f in (
    '207003.bufr', 'amv2_87.bufr', 'asr3_190.bufr', 'b002_95.bufr', 'b005_89.bufr', 'contrived.bufr',
    'g2nd_208.bufr', 'ISMD01_OKPR.bufr', 'IUSK73_AMMC_040000.bufr', 'IUSK73_AMMC_182300.bufr',
    'jaso_214.bufr', 'mpco_217.bufr', 'profiler_european.bufr', 'rado_250.bufr', 'uegabe.bufr')]
benchmark_files = [os.path.join(BENCHMARK_DIR, f) for f in (
    'syno_1.bufr', 'temp_101.bufr', 'sato_84.bufr', 'ship_11.bufr', 'ocea_131.bufr', 'pilo_91.bufr',
    'rada_250.bufr', 'soil_7.bufr')]
single_files = sample_files + benchmark_files + sorted(HAND_BUILT_FILES.values())

def split_output(out, as_json):
    """What was printed, cut into what was printed for each message."""
    if as_json:
        return out.splitlines(True)
    chunks = []
    for line in out.splitlines(True):
        if line.startswith('TableGroupKey('):
            chunks.append([])
        chunks[-1].append(line)
    return [''.join(chunk) for chunk in chunks]


for path in single_files:
    content = read_file(path)
    # the big files only the plain way (the time it takes)
    for multiple in ((False, True) if len(content) < 3000 or path.endswith('asr3_190.bufr') else (False,)):
        flats = [flat_json_as_loaded(decoded_once(piece, path))
                 for piece in (split_messages(content) if multiple else [content])]
        for attributed, as_json in FORMATS:
            out, exc = run_decode(make_ns([path], attributed, as_json, multiple))
            check(exc is None, path, attributed, as_json, multiple, repr(exc))
            expected = reference_output([content], attributed, as_json, multiple, [path])
            check(out == expected, 'printed text differs', path, attributed, as_json, multiple)
            # what is printed for each message converts back to the flat form
            chunks = split_output(out, as_json)
            check(len(chunks) == len(flats), 'number of messages', path, multiple)
            for chunk, flat in zip(chunks, flats):
                check(jsonable(TO_FLAT[(attributed, as_json)](chunk)) == flat,
                      'does not convert back', path, attributed, as_json, multiple)

# several file names in one call, in the order given
for attributed, as_json in FORMATS:
    paths = [sample_files[5], HAND_BUILT_FILES['strings'], sample_files[3], HAND_BUILT_FILES['zero']]
    out, exc = run_decode(make_ns(paths, attributed, as_json))
    check(exc is None, 'several files', repr(exc))
    check(out == reference_output([read_file(p) for p in paths], attributed, as_json, False, paths),
          'several files', attributed, as_json)

# ---------------------------------------------------------------------------
# 2. several messages in one file (with leading / separating garbage), -m and not -m
# ---------------------------------------------------------------------------
multi_path = os.path.join(TMP_DIR, 'multi.bin')
multi_content = (b'ZCZC 123\r\r\n' + read_file(HAND_BUILT_FILES['assoc']) + b'\r\r\nNNNN'
                 + read_file(sample_files[3]) + read_file(HAND_BUILT_FILES['comp']) + b'\n\n'
                 + read_file(HAND_BUILT_FILES['factorattr']))
with open(multi_path, 'wb') as outs:
    outs.write(multi_content)
check(len(split_messages(multi_content)) == 4, 'splitter')
for attributed, as_json in FORMATS:
    out, exc = run_decode(make_ns([multi_path, sample_files[5]], attributed, as_json, True))
    check(exc is None, 'multi', repr(exc))
    expected = reference_output([multi_content, read_file(sample_files[5])], attributed, as_json, True,
                                [multi_path, sample_files[5]])
    check(out == expected, 'multi', attributed, as_json)
    check(out.count('\n') == (5 if as_json else out.count('\n')), 'one line per message in JSON')
    # without -m only the first message of the file is shown
    out, exc = run_decode(make_ns([multi_path], attributed, as_json, False))
    check(exc is None, 'multi as single', repr(exc))
    message = Decoder().process(multi_content, file_path=multi_path, wire_template_data=False)
    check(out == reference_text_of(message, attributed, as_json), 'multi as single', attributed, as_json)

# a filter expression, continue on error (reference: the library generator, which the refactor does not touch)
invalid_path = os.path.join(DATA_DIR, 'multi_invalid_messages.bufr')
invalid_content = read_file(invalid_path)
for attributed, as_json in FORMATS:
    for continue_on_error in (True, False):
        for filter_expr in (None, '${%n_subsets} > 1', '${%data_category} == 2'):
            for path, content in ((invalid_path, invalid_content), (multi_path, multi_content)):
                expected, expected_exc = [], None
                try:
                    for message in generate_bufr_message(Decoder(), content, continue_on_error=continue_on_error,
                                                         file_path=path, wire_template_data=False,
                                                         ignore_value_expectation=False, filter_expr=filter_expr):
                        expected.append(reference_text_of(message, attributed, as_json))
                except Exception as e:
                    expected_exc = e
                out, exc = run_decode(make_ns([path], attributed, as_json, True,
                                              continue_on_error=continue_on_error, filter=filter_expr))
                check(out == ''.join(expected), 'filter / continue', path, attributed, as_json, continue_on_error,
                      filter_expr)
                check(type(exc) is type(expected_exc) and str(exc) == str(expected_exc),
                      'filter / continue: exception', repr(exc), repr(expected_exc))

# ---------------------------------------------------------------------------
# 3. the standard input ("-"), alone and between file names; it is read once per "-"
# ---------------------------------------------------------------------------
stdin_content = read_file(HAND_BUILT_FILES['bitmap'])
for attributed, as_json in FORMATS:
    for multiple in (False, True):
        stdin = FakeStdin(stdin_content)
        out, exc = run_decode(make_ns(['-'], attributed, as_json, multiple), stdin)
        check(exc is None, 'stdin', repr(exc))
        check(stdin.n_reads == 1, 'stdin read once')
        check(out == reference_output([stdin_content], attributed, as_json, multiple, ['-']), 'stdin', attributed,
              as_json, multiple)

        paths = [sample_files[5], '-', HAND_BUILT_FILES['zero'], '-']
        stdin = FakeStdin(multi_content if multiple else stdin_content)
        out, exc = run_decode(make_ns(paths, attributed, as_json, multiple), stdin)
        check(exc is None, 'stdin among files', repr(exc))
        check(stdin.n_reads == 2, 'stdin read per dash')
        contents = [stdin.content if p == '-' else read_file(p) for p in paths]
        check(out == reference_output(contents, attributed, as_json, multiple, paths), 'stdin among files')

# text from the standard input (what Python 3 gives for a real terminal): whatever the decoder does with it
for multiple in (False, True):
    text = stdin_content.decode('latin-1')
    try:
        if multiple:
            list(generate_bufr_message(Decoder(), text, continue_on_error=False, file_path='-',
                                       wire_template_data=False, ignore_value_expectation=False, filter_expr=None))
        else:
            Decoder().process(text, file_path='-', wire_template_data=False, ignore_value_expectation=False)
        expected_exc = None
    except Exception as e:
        expected_exc = e
    out, exc = run_decode(make_ns(['-'], True, True, multiple), FakeStdin(text))
    check(type(exc) is type(expected_exc), 'text on stdin', repr(exc), repr(expected_exc))
    check(expected_exc is not None or out != '', 'text on stdin: output')

# ---------------------------------------------------------------------------
# 4. errors: same exception, raised after the same output
# ---------------------------------------------------------------------------
missing = os.path.join(TMP_DIR, 'no_such_file.bufr')
garbage = os.path.join(TMP_DIR, 'garbage.bin')
with open(garbage, 'wb') as outs:
    outs.write(b'this is not a message at all')
truncated = os.path.join(TMP_DIR, 'truncated.bufr')
with open(truncated, 'wb') as outs:
    outs.write(read_file(sample_files[3])[:60])

for attributed, as_json in FORMATS:
    for multiple in (False, True):
        good = sample_files[5]
        good_text = reference_output([read_file(good)], attributed, as_json, multiple, [good])

        out, exc = run_decode(make_ns([good, missing, good], attributed, as_json, multiple))
        check(type(exc) is FileNotFoundError and exc.filename == missing, 'missing file', repr(exc))
        check(out == good_text, 'missing file: output before the error')

        for bad in (garbage, truncated):
            bad_content = read_file(bad)
            try:
                if multiple:
                    n = len(list(generate_bufr_message(Decoder(), bad_content, continue_on_error=False,
                                                       file_path=bad, wire_template_data=False,
                                                       ignore_value_expectation=False, filter_expr=None)))
                    check(n == 0, 'nothing decodable')
                else:
                    Decoder().process(bad_content, file_path=bad, wire_template_data=False,
                                      ignore_value_expectation=False)
                expected_exc = None
            except Exception as e:
                expected_exc = e
            out, exc = run_decode(make_ns([good, bad, good], attributed, as_json, multiple))
            check(type(exc) is type(expected_exc) and str(exc) == str(expected_exc), 'bad content', bad, multiple,
                  repr(exc), repr(expected_exc))
            check(out == (good_text if expected_exc is not None else good_text * 2), 'bad content: output', bad,
                  multiple)

# a value outside what the template allows for: ignore_value_expectation is passed on in both modes
b002 = read_file(sample_files[3])
for multiple in (False, True):
    for ignore in (False, True):
        out, exc = run_decode(make_ns([sample_files[3]], False, True, multiple, ignore_value_expectation=ignore))
        check(exc is None and jsonable(json.loads(out)) == flat_json_as_loaded(Decoder().process(b002)),
              'ignore_value_expectation', multiple, ignore)


# ---------------------------------------------------------------------------
# 5. which options are looked at, and in which order (an object that records it)
# ---------------------------------------------------------------------------
class RecordingNS(object):
    def __init__(self, **kwargs):
        self.__dict__['_values'] = kwargs
        self.__dict__['_trace'] = []

    def __getattr__(self, name):
        self.__dict__['_trace'].append(name)
        try:
            return self.__dict__['_values'][name]
        except KeyError:
            raise AttributeError(name)


HEAD = ['definitions_directory', 'tables_root_directory', 'compiled_template_cache_max', 'filenames']
base = dict(definitions_directory=None, tables_root_directory=None, compiled_template_cache_max=None,
            ignore_value_expectation=False)
for attributed, as_json in FORMATS:
    per_message = ['attributed', 'json']
    # single: neither continue_on_error nor filter is needed (nor looked at)
    ns = RecordingNS(filenames=[sample_files[5], sample_files[3]], attributed=attributed, json=as_json,
                     multiple_messages=False, **base)
    out, exc = run_decode(ns)
    check(exc is None, 'recording, single', repr(exc))
    check(ns._trace == HEAD + (['multiple_messages', 'ignore_value_expectation'] + per_message) * 2,
          'options looked at, single', ns._trace)
    # multiple: the options of the generator once per file, the format once per message
    ns = RecordingNS(filenames=[multi_path, sample_files[5]], attributed=attributed, json=as_json,
                     multiple_messages=True, continue_on_error=False, filter=None, **base)
    out, exc = run_decode(ns)
    check(exc is None, 'recording, multiple', repr(exc))
    per_file = ['multiple_messages', 'continue_on_error', 'ignore_value_expectation', 'filter']
    check(ns._trace == HEAD + per_file + per_message * 4 + per_file + per_message,
          'options looked at, multiple', ns._trace)
    # multiple without a filter option: AttributeError before anything is decoded or printed
    ns = RecordingNS(filenames=[multi_path], attributed=attributed, json=as_json,
                     multiple_messages=True, continue_on_error=False, **base)
    out, exc = run_decode(ns)
    check(type(exc) is AttributeError and out == '', 'no filter option', repr(exc))
    check(ns._trace == HEAD + per_file, 'options looked at, no filter', ns._trace)
    # no json option: the message is decoded (and wired when attributed), then AttributeError
    ns = RecordingNS(filenames=[sample_files[5]], attributed=attributed, multiple_messages=False, **base)
    out, exc = run_decode(ns)
    check(type(exc) is AttributeError and out == '', 'no json option', repr(exc))
    check(ns._trace == HEAD + ['multiple_messages', 'ignore_value_expectation'] + per_message, ns._trace)

# the renderer classes are taken from the module when a message is shown (they can be replaced)
class LoudNestedText(NestedTextRenderer):
    def render(self, obj):
        return 'LOUD ' + NestedTextRenderer.render(self, obj)


saved = commands.NestedTextRenderer
commands.NestedTextRenderer = LoudNestedText
try:
    out, exc = run_decode(make_ns([sample_files[5]], True, False))
    check(exc is None and out == 'LOUD ' + reference_output([read_file(sample_files[5])], True, False, False,
                                                           [sample_files[5]]), 'replaced renderer')
    out, exc = run_decode(make_ns([sample_files[5]], False, False))
    check(exc is None and out == reference_output([read_file(sample_files[5])], False, False, False,
                                                  [sample_files[5]]), 'replaced renderer not used')
finally:
    commands.NestedTextRenderer = saved

# the message is wired exactly when the attributed option is on
import pybufrkit.bufr
n_wired = [0]
original_wire = pybufrkit.bufr.BufrMessage.wire


def counting_wire(self):
    n_wired[0] += 1
    return original_wire(self)


pybufrkit.bufr.BufrMessage.wire = counting_wire
try:
    for attributed, as_json in FORMATS:
        n_wired[0] = 0
        out, exc = run_decode(make_ns([multi_path], attributed, as_json, True))
        check(exc is None and n_wired[0] == (4 if attributed else 0), 'wired', attributed, as_json, n_wired[0])
finally:
    pybufrkit.bufr.BufrMessage.wire = original_wire

# ---------------------------------------------------------------------------
# 6. decode | encode through the command line functions: the same bytes from all four formats
# ---------------------------------------------------------------------------
for path in [sample_files[3], sample_files[5], sample_files[9], sample_files[14]] + sorted(HAND_BUILT_FILES.values()):
    encoded = []
    for attributed, as_json in FORMATS:
        out, exc = run_decode(make_ns([path], attributed, as_json))
        check(exc is None, 'decode for encode', repr(exc))
        text_path = os.path.join(TMP_DIR, 'decoded.txt')
        with open(text_path, 'w') as outs:
            outs.write(out)
        bufr_path = os.path.join(TMP_DIR, 'encoded.bufr')
        command_encode(argparse.Namespace(
            definitions_directory=None, tables_root_directory=None, compiled_template_cache_max=None,
            master_table_version=None, filename=text_path, output_filename=bufr_path, append=False,
            preamble=None, json=as_json, attributed=attributed))
        encoded.append(read_file(bufr_path))
    check(all(e == encoded[0] for e in encoded), 'bytes differ between the formats', path)
    # ... which are the bytes the encoder makes of the flat JSON the library renders
    flat = jsonable(FlatJsonRenderer().render(Decoder().process(read_file(path))))
    check(encoded[0] == Encoder().process(flat, wire_template_data=False).serialized_bytes,
          'other bytes than from the flat JSON', path)

shutil.rmtree(TMP_DIR, ignore_errors=True)
print('refactor 7 demo: {} checks passed'.format(N_CHECKS[0]))
