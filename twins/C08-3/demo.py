import os, sys; sys.path.insert(0, os.getcwd())
import json
import itertools

from pybufrkit.encoder import Encoder
from pybufrkit.decoder import Decoder


def make_message(ids, subsets, compressed=False, version=29):
    """A BUFR edition 4 message in the JSON form the Encoder accepts."""
    return [["BUFR", 0, 4],
            [22, 0, 0, 0, 0, False, "0000000", 0, 0, 0, version, 0, 2020, 1, 1, 0, 0, 0],
            [0, "00000000", len(subsets), True, compressed, "000000", list(ids)],
            [0, "00000000", [list(s) for s in subsets]],
            ["7777"]]


def outcome(func, *args):
    try:
        return ('ok', func(*args))
    except Exception as e:  # the property demands "the same error"
        return ('error', type(e).__name__, str(e))


def describe(template_data):
    return (
        [[(type(d).__name__, d.id, str(d)) for d in ds] for ds in template_data.decoded_descriptors_all_subsets],
        [list(vs) for vs in template_data.decoded_values_all_subsets],
        [sorted(links.items()) for links in template_data.bitmap_links_all_subsets],
    )


def encode(encoder, message):
    m = encoder.process(json.dumps(message))
    return (m.serialized_bytes,) + describe(m.template_data.value)


def decode(decoder, data):
    m = decoder.process(data)
    return describe(m.template_data.value)


def rep(factor, *values):
    """factor followed by `factor` copies of values"""
    return [factor] + list(values) * factor


# (name, descriptor ids, function(factors...) -> values of one subset, number of factors)
PROGRAMS = [
    ('plain', [1001, 1002, 12001], lambda: [5, 100, 280.5], 0),
    ('delayed', [1001, 101000, 31001, 12001, 1002],
     lambda a: [5] + rep(a, 281.5) + [7], 1),
    ('nested', [104000, 31001, 1001, 101000, 31001, 12001],
     lambda a, b: [a] + ([3] + rep(b, 270.2)) * a, 2),
    ('fixed-in-delayed', [104000, 31001, 1001, 102002, 12001, 1002],
     lambda a: [a] + [3, 270.2, 9, 271.2, 8] * a, 1),
    ('201-202', [201130, 12001, 201000, 201132, 202129, 12001, 202000, 201000, 12001],
     lambda: [280.5, 280.55, 280.5], 0),
    ('207-208', [207001, 12001, 207000, 12001, 208002, 1015, 208000, 1015],
     lambda: [280.55, 280.5, 'AB', 'ABCDEFGHIJKLMNOPQRST'], 0),
    ('operators-in-loop', [106000, 31001, 201130, 207001, 12001, 207000, 201000, 12001],
     lambda a: [a] + [280.55, 280.5] * a, 1),
    ('203', [203012, 12001, 203255, 12001, 203000, 12001],
     lambda: [-100, 10.5, 280.5], 0),
    ('204', [204004, 31021, 12001, 1001, 204000, 12001],
     lambda: [1, 3, 280.5, 2, 5, 281.5], 0),
    ('205-206-221', [205003, 206008, 1001, 221002, 12001, 1002, 12001],
     lambda: ['abc', 17, 9, 280.5], 0),
]


def qa_bitmap_case(n, bits):
    """n temperatures, then a bitmap over (001001, n x 012001), QA values for the zero bits"""
    assert len(bits) == n + 1
    ids = [1001, 101000, 31001, 12001, 222000, 236000, 101000 + (n + 1), 31031, 1031, 1032]
    nzero = bits.count(0)
    if nzero:
        ids += [101000 + nzero, 33007]
    values = [5] + rep(n, 280.5) + [0, 0] + list(bits) + [7, 0] + [50] * nzero
    return ids, values


def marker_case(bits):
    """223/224/225/232 markers mixed with 201, 202, 207 and 208 and 203"""
    nzero = bits.count(0)
    ids = [12001, 1015, 10004,
           223000, 236000, 101003, 31031]
    values = [280.5, 'STATION', 101300, 0, 0] + list(bits)
    # substituted values with changed width/scale, string with changed width
    per_marker = {
        0: (280.55, 280.5),
        1: ('SUBST', 'SUBSTITUTE'),
        2: (101300.0, 101300),
    }
    zero_idx = [i for i, b in enumerate(bits) if b == 0]
    ids += [207001, 208005] + [223255] * nzero + [207000, 208000]
    values += [per_marker[i][0] for i in zero_idx]
    ids += [224000, 237000, 8023] + [224255] * nzero
    values += [0, 0, 4] + ['SUBSTITUTE' if i == 1 else (280.5 if i == 0 else 101300) for i in zero_idx]
    ids += [225000, 237000, 8024, 201129] + [225255] * nzero + [201000]
    values += [0, 0, 2] + ['SUBSTITUTE' if i == 1 else (-1.5 if i == 0 else -20) for i in zero_idx]
    ids += [232000, 237000, 201132, 202129] + [232255] * nzero + [202000, 201000, 237255, 235000, 12001]
    values += [0, 0] + ['SUBSTITUTE' if i == 1 else (280.55 if i == 0 else 101300.0) for i in zero_idx]
    values += [0, 270.5]
    return ids, values


# (name, descriptor ids, subsets, compressed): the encoder must fail (or not) identically on both paths
ERROR_CASES = [
    ('repetition-31011', [101000, 31011, 1001], [[1, 5]], False),
    ('operator-241', [1001, 241000, 1002], [[5, 7]], False),
    ('marker-without-bitmap', [12001, 223255], [[280.5, 280.5]], False),
    ('bitmap-too-long', [12001, 222000, 101003, 31031, 33007], [[280.5, 0, 0, 0, 0, 50]], False),
    ('factor-missing', [1001, 101000, 31001, 1002], [[5, None]], False),
    ('factor-differs-compressed', [101000, 31001, 1002], [[1, 5], [2, 5, 5]], True),
    ('too-few-values', [1001, 1002, 12001], [[5, 7]], False),
    ('204-cancel-without-open', [1001, 204000, 1002], [[5, 7]], False),
    ('203-on-string', [203012, 1015, 203255], [['X']], False),
    ('undefined-descriptor', [1001, 63255], [[5, 7]], False),
    ('recall-without-bitmap', [12001, 224000, 237000, 224255], [[280.5, 0, 0, 280.5]], False),
    ('value-too-large', [1001], [[100000]], False),
    ('string-for-number', [12001], [['warm']], False),
]


def corrupt_factor(data, new_factor):
    """
    `data` encodes template 001001 101000 031001 012001 (one subset, not
    compressed). Overwrite the 8 bits of the replication factor.
    """
    start_of_section4 = data.index(b'\x41\x00\x1f\x01\x0c\x01') + 6  # end of section 3
    assert data[start_of_section4 + 3:start_of_section4 + 4] == b'\x00'
    pos = (start_of_section4 + 4) * 8 + 7  # after 7 bits of 001001
    n = int.from_bytes(data, 'big')
    total = len(data) * 8
    shift = total - pos - 8
    n = (n & ~(0xff << shift)) | (new_factor << shift)
    return n.to_bytes(len(data), 'big')


def run_battery(make_encoder, make_decoder, label, skip=()):
    """
    Every program x data content x compression: the coder from make_encoder /
    make_decoder must agree with the plain (not compiling) one.
    Returns the number of comparisons.
    """
    plain_encoder = Encoder(ignore_declared_length=True)
    plain_decoder = Decoder()
    encoder = make_encoder()
    decoder = make_decoder()
    n = 0

    def check(name, ids, subsets, compressed, expect=None):
        message = make_message(ids, subsets, compressed)
        expected = outcome(encode, plain_encoder, message)
        got = outcome(encode, encoder, message)
        assert got == expected, (label, 'encode', name, compressed, expected, got)
        if expect is not None:
            assert expected[0] == expect, (label, name, expected)
        if expected[0] == 'ok':
            data = expected[1][0]
            expected_decoded = outcome(decode, plain_decoder, data)
            got_decoded = outcome(decode, decoder, data)
            assert expected_decoded[0] == 'ok', (label, name, expected_decoded)
            assert got_decoded == expected_decoded, (label, 'decode', name, compressed, expected_decoded, got_decoded)
            # labels and links seen by the encoder are those seen by the decoder
            assert expected_decoded[1][0] == expected[1][1], (label, name)
            assert expected_decoded[1][2] == expected[1][3], (label, name)
        return expected

    for name, ids, values_of, n_factors in PROGRAMS:
        if name in skip:
            continue
        for factors in itertools.product(range(4), repeat=n_factors):
            for compressed in (False, True):
                subsets = [values_of(*factors), values_of(*factors)]
                check('{}{}'.format(name, factors), ids, subsets, compressed, expect='ok')
                n += 1
        if n_factors:
            # different factors in the subsets of one (uncompressed) message
            subsets = [values_of(*([k % 4] * n_factors)) for k in (3, 0, 1, 2)]
            check(name + '-mixed', ids, subsets, False, expect='ok')
            r = check(name + '-mixed', ids, subsets, True, expect='error')
            assert r[1] == 'PyBufrKitError', r
            n += 2

    for n_temperatures in range(3):
        for bits in itertools.product((0, 1), repeat=n_temperatures + 1):
            ids, values = qa_bitmap_case(n_temperatures, list(bits))
            for compressed in (False, True):
                check('qa{}'.format(bits), ids, [values, values], compressed, expect='ok')
                n += 1

    for bits in itertools.product((0, 1), repeat=3):
        ids, values = marker_case(list(bits))
        for compressed in (False, True):
            check('markers{}'.format(bits), ids, [values, values, values], compressed, expect='ok')
            n += 1

    for name, ids, subsets, compressed in ERROR_CASES:
        r = check(name, ids, subsets, compressed)
        assert name == 'repetition-31011' or r[0] == 'error', (name, r)
        n += 1

    good = encode(plain_encoder, make_message([1001, 101000, 31001, 12001], [[5, 1, 280.5]]))[0]
    for factor, expect in ((0, 'ok'), (1, 'ok'), (2, 'PyBufrKitError'), (3, 'PyBufrKitError'),
                           (200, 'BitReadError'), (255, 'PyBufrKitError')):
        data = corrupt_factor(good, factor)
        expected = outcome(decode, plain_decoder, data)
        got = outcome(decode, decoder, data)
        assert got == expected, (label, 'corrupt', factor, expected, got)
        assert expected[0] == expect or expected[1] == expect, (factor, expected)
        n += 1

    return n


def sample_files():
    base = os.path.join(os.getcwd(), 'tests', 'data')
    names = ['207003', 'ISMD01_OKPR', 'IUSK73_AMMC_182300', 'amv2_87', 'asr3_190', 'b002_95', 'b005_89',
             'g2nd_208', 'jaso_214', 'mpco_217', 'profiler_european', 'rado_250', 'uegabe']
    return [os.path.join(base, name) for name in names]


def run_samples(make_encoder, make_decoder, label, skip=()):
    """The sample files: decode, and encode from their JSON form."""
    plain_encoder = Encoder(ignore_declared_length=True)
    plain_decoder = Decoder()
    encoder = make_encoder()
    decoder = make_decoder()
    n = 0
    for stub in sample_files():
        if os.path.basename(stub) in skip:
            continue
        n += 1
        with open(stub + '.bufr', 'rb') as ins:
            data = ins.read()
        expected = outcome(decode, plain_decoder, data)
        assert expected[0] == 'ok', (stub, expected)
        assert outcome(decode, decoder, data) == expected, (label, 'decode', stub)
        with open(stub + '.json') as ins:
            message = json.load(ins)
        expected = outcome(encode, plain_encoder, message)
        assert expected[0] == 'ok', (stub, expected)
        assert outcome(encode, encoder, message) == expected, (label, 'encode', stub)
    return n


###########################################################################
# Part 1: a compiled template that went through JSON behaves like the template
from pybufrkit.coder import BSRModifier
from pybufrkit.descriptors import ElementDescriptor, OperatorDescriptor
from pybufrkit.tables import TableGroupCacheManager
from pybufrkit.templatecompiler import (
    TemplateCompiler, CompiledTemplateManager, CompiledTemplate, loads_compiled_template,
    load_method_call_from_dict, load_coder_method_call_from_dict, load_state_method_call_from_dict,
    load_loop_from_dict, MethodCall, CoderMethodCall, StateMethodCall, Loop)

N_RELOADED = [0]


class ReloadingManager(CompiledTemplateManager):
    """Hands out what comes back from JSON in place of what was compiled"""

    def get_or_compile(self, template, table_group):
        compiled = super(ReloadingManager, self).get_or_compile(template, table_group)
        s = json.dumps(compiled.to_dict())
        loaded = loads_compiled_template(s)
        assert loaded is not compiled and type(loaded) is CompiledTemplate
        assert json.dumps(loaded.to_dict()) == s  # saving again gives the same text
        assert loaded.table_group_key == compiled.table_group_key
        assert loaded.template.original_descriptor_ids == compiled.template.original_descriptor_ids
        N_RELOADED[0] += 1
        return loaded


def reloading_encoder(cache_max):
    encoder = Encoder(ignore_declared_length=True, compiled_template_cache_max=cache_max)
    encoder.compiled_template_manager = ReloadingManager(cache_max)
    return encoder


def reloading_decoder(cache_max):
    decoder = Decoder(compiled_template_cache_max=cache_max)
    decoder.compiled_template_manager = ReloadingManager(cache_max)
    return decoder


# NOTE: the saved form keeps only the ID of a descriptor, so the labels of associated
# fields (204 YYY) and of skipped local descriptors (206 YYY) are not the same after a
# reload, with and without the refactoring. Those programs are looked at separately below.
SKIP_PROGRAMS = ('204', '205-206-221')
SKIP_SAMPLES = ('profiler_european', 'jaso_214', 'uegabe', 'b002_95')
n = run_battery(lambda: reloading_encoder(3), lambda: reloading_decoder(3), 'reloaded', skip=SKIP_PROGRAMS)
n += run_samples(lambda: reloading_encoder(0), lambda: reloading_decoder(0), 'reloaded samples', skip=SKIP_SAMPLES)

# for the skipped ones: bytes and values, if not the labels, are the same
plain_encoder, encoder = Encoder(ignore_declared_length=True), reloading_encoder(1)
plain_decoder, decoder = Decoder(), reloading_decoder(1)
for name, ids, values_of, n_factors in PROGRAMS:
    if name in SKIP_PROGRAMS:
        for compressed in (False, True):
            message = make_message(ids, [values_of(), values_of()], compressed)
            expected, got = encode(plain_encoder, message), encode(encoder, message)
            assert got[0] == expected[0] and got[2:] == expected[2:]
            expected, got = decode(plain_decoder, expected[0]), decode(decoder, expected[0])
            assert got[1:] == expected[1:]
            assert [[d[1] for d in ds] for ds in got[0]] == [[d[1] for d in ds] for ds in expected[0]]
            n += 1
for stub in sample_files():
    if os.path.basename(stub) in SKIP_SAMPLES:
        with open(stub + '.bufr', 'rb') as ins:
            data = ins.read()
        expected, got = decode(plain_decoder, data), decode(decoder, data)
        assert got[1:] == expected[1:]
        assert [[d[1] for d in ds] for ds in got[0]] == [[d[1] for d in ds] for ds in expected[0]]
        n += 1
assert N_RELOADED[0] > 200, N_RELOADED

###########################################################################
# Part 2: the saved form of method calls
group = TableGroupCacheManager.get_table_group(master_table_version=29)
d12001 = group.lookup(12001)
op = group.lookup(223255)
assert type(d12001) is ElementDescriptor and type(op) is OperatorDescriptor

call = CoderMethodCall('process_numeric', (d12001, 12, 10.0, 0))
assert json.dumps(call.to_dict()) == (
    '{"type": "CoderMethodCall", "method_name": "process_numeric", "args": [12001, 12, 10.0, 0], '
    '"state_properties": null, "with_descriptor": true}')
assert call.to_dict()['args'] == (12001, 12, 10.0, 0) and type(call.to_dict()['args']) is tuple
assert call.args == (d12001, 12, 10.0, 0)  # saving does not touch the call

properties = {'new_nbytes': 5, 'nbits_offset': 0, 'scale_offset': -1, 'bsr_modifier': BSRModifier(4, 1, 10)}
call = CoderMethodCall('process_bitmapped_descriptor', (op,), state_properties=properties)
assert json.dumps(call.to_dict()) == (
    '{"type": "CoderMethodCall", "method_name": "process_bitmapped_descriptor", "args": [223255], '
    '"state_properties": {"new_nbytes": 5, "nbits_offset": 0, "scale_offset": -1, "bsr_modifier": [4, 1, 10]}, '
    '"with_descriptor": true}')
assert call.to_dict()['state_properties'] is properties

call = CoderMethodCall('define_bitmap', (True,))
assert json.dumps(call.to_dict()) == (
    '{"type": "CoderMethodCall", "method_name": "define_bitmap", "args": [true], '
    '"state_properties": null, "with_descriptor": false}')
assert call.to_dict()['args'] is call.args

for call in (StateMethodCall('recall_bitmap'), MethodCall('x', ()), MethodCall('x', [])):
    d = call.to_dict()
    assert list(d) == ['type', 'method_name', 'args', 'state_properties', 'with_descriptor']
    assert d['type'] == type(call).__name__ and d['args'] is call.args and d['with_descriptor'] is False
    assert d['state_properties'] is None
assert MethodCall('x', [1, d12001]).to_dict()['with_descriptor'] is False  # only the first argument counts
assert MethodCall('x', (12001,)).to_dict()['with_descriptor'] is False
assert MethodCall('x', 'abc').to_dict()['args'] == 'abc'

# arguments of a kind that cannot be saved
assert outcome(MethodCall('x', [d12001, 1]).to_dict)[:2] == ('error', 'TypeError')  # tuple + list
assert outcome(MethodCall('x', None).to_dict)[:2] == ('error', 'TypeError')
assert outcome(MethodCall('x', 5).to_dict)[:2] == ('error', 'TypeError')
assert outcome(MethodCall('x', iter(())).to_dict)[:2] == ('error', 'TypeError')
broken = MethodCall('x', None)
del broken.method_name
assert outcome(broken.to_dict)[:2] == ('error', 'AttributeError')  # the name is looked at first

###########################################################################
# Part 3: loading method calls
d = {'type': 'CoderMethodCall', 'method_name': 'process_numeric', 'args': [12001, 12, 10.0, 0],
     'state_properties': None, 'with_descriptor': True}
before = json.dumps(d)
call = load_coder_method_call_from_dict(group, d)
assert type(call) is CoderMethodCall and call.method_name == 'process_numeric'
assert type(call.args) is tuple and len(call.args) == 4 and call.args[1:] == (12, 10.0, 0)
assert type(call.args[0]) is ElementDescriptor and call.args[0].id == 12001
assert (call.args[0].nbits, call.args[0].scale, call.args[0].refval) == (d12001.nbits, d12001.scale, d12001.refval)
assert call.state_properties is None
assert json.dumps(d) == before  # loading does not touch the dictionary
assert call.to_dict() == dict(d, args=(12001, 12, 10.0, 0))

call = load_state_method_call_from_dict(group, {'type': 'StateMethodCall', 'method_name': 'recall_bitmap', 'args': []})
assert type(call) is StateMethodCall and call.args == () and call.state_properties is None
call = load_method_call_from_dict(MethodCall, group, {'method_name': 'm', 'args': (1, 2), 'with_descriptor': 0})
assert type(call) is MethodCall and call.args == (1, 2)
call = load_method_call_from_dict(MethodCall, group, {'method_name': 'm', 'args': 'ab'})
assert call.args == ('a', 'b')

# the state properties
saved = {'new_nbytes': 5, 'nbits_offset': 0, 'scale_offset': -1, 'bsr_modifier': [4, 1, 10]}
d = {'method_name': 'process_bitmapped_descriptor', 'args': [223255], 'with_descriptor': True,
     'state_properties': saved}
call = load_method_call_from_dict(CoderMethodCall, group, d)
assert type(call.args[0]) is OperatorDescriptor and call.args[0].id == 223255 and len(call.args) == 1
assert call.state_properties == properties and list(call.state_properties) == list(properties)
assert type(call.state_properties['bsr_modifier']) is BSRModifier
assert call.state_properties is not saved and saved['bsr_modifier'] == [4, 1, 10] and type(saved['bsr_modifier']) is list
for untouched in ({'nbits_offset': 3}, {}, [], ['nbits_offset'], 'abc', ''):
    call = load_method_call_from_dict(CoderMethodCall, group, dict(d, state_properties=untouched))
    assert call.state_properties is untouched
for bad, error in (({'bsr_modifier': [1, 2]}, 'TypeError'), ({'bsr_modifier': [1, 2, 3, 4]}, 'TypeError'),
                   ({'bsr_modifier': None}, 'TypeError'), (5, 'TypeError'), (['bsr_modifier'], 'TypeError'),
                   ('with bsr_modifier in it', 'TypeError')):
    r = outcome(load_method_call_from_dict, CoderMethodCall, group, dict(d, state_properties=bad))
    assert r[:2] == ('error', error), (bad, r)
call = load_method_call_from_dict(CoderMethodCall, group, dict(d, state_properties={'bsr_modifier': 'abc'}))
assert call.state_properties == {'bsr_modifier': BSRModifier('a', 'b', 'c')}

# what the method type is called with
seen = []
result = load_method_call_from_dict(lambda **kwargs: seen.append(kwargs) or 'made', group, d)
assert result == 'made' and len(seen) == 1 and sorted(seen[0]) == ['args', 'method_name', 'state_properties']

# broken dictionaries: which error, also when more than one thing is wrong
good = {'method_name': 'm', 'args': [12001, 1], 'with_descriptor': True, 'state_properties': None}


def without(key, **changes):
    d = dict(good, **changes)
    del d[key]
    return d


for bad, error in (
        (dict(good, args=[]), 'IndexError'),
        (dict(good, args=(12001, 1)), 'TypeError'),  # list + tuple
        (dict(good, args=None), 'TypeError'),
        (dict(good, args=5, with_descriptor=False), 'TypeError'),
        (dict(good, args={'a': 1}), 'KeyError'),
        (without('args'), 'KeyError'),
        (without('args', with_descriptor=False), 'KeyError'),
        (without('method_name'), 'KeyError'),
        (without('method_name', args=5, with_descriptor=False), 'TypeError'),  # the arguments come first
        (without('method_name', state_properties={'bsr_modifier': [1]}), 'TypeError'),  # then the properties
        (without('method_name', args=[]), 'IndexError'),
        (without('args', state_properties=5), 'KeyError'),
        ([], 'AttributeError'),
        (None, 'AttributeError'),
        ('text', 'AttributeError')):
    r = outcome(load_method_call_from_dict, CoderMethodCall, group, bad)
    assert r[:2] == ('error', error), (bad, r)
assert outcome(load_method_call_from_dict, CoderMethodCall, None, good)[:2] == ('error', 'AttributeError')
assert load_method_call_from_dict(CoderMethodCall, None, dict(good, with_descriptor=False)).args == (12001, 1)
r1 = outcome(load_method_call_from_dict, CoderMethodCall, group, dict(good, args=['abc']))
r2 = outcome(group.lookup, 'abc')
assert r1[0] == r2[0] and (r1[0] == 'ok' or r1 == r2), (r1, r2)
assert outcome(load_coder_method_call_from_dict, group, dict(good, type='StateMethodCall'))[:2] == \
    ('error', 'AssertionError')
assert outcome(load_state_method_call_from_dict, group, dict(good, type='CoderMethodCall'))[:2] == \
    ('error', 'AssertionError')
assert outcome(load_coder_method_call_from_dict, group, good)[:2] == ('error', 'KeyError')  # no type

###########################################################################
# Part 4: a whole template, text in and out
ids = [12001, 1015, 223000, 101002, 31031, 207001, 208005, 223255, 223255, 208000, 207000, 101000, 31001, 12001]
template = group.template_from_ids(*ids)
compiled = TemplateCompiler().process(template, group)
saved = compiled.to_dict()
assert list(saved) == ['type', 'statements', 'table_group_key', 'template_ids']
calls = [s for s in saved['statements'] if s.get('method_name') == 'process_bitmapped_descriptor']
assert len(calls) == 2
for c in calls:
    assert c['args'] == (223255,) and c['with_descriptor'] is True
    assert c['state_properties'] == {'new_nbytes': 5, 'nbits_offset': 0, 'scale_offset': 0,
                                     'bsr_modifier': BSRModifier(4, 1, 10)}
text = json.dumps(saved)
loaded = loads_compiled_template(text)
assert json.dumps(loaded.to_dict()) == text
assert str(loaded) == str(compiled)
loaded_calls = [s for s in loaded.statements
                if isinstance(s, CoderMethodCall) and s.method_name == 'process_bitmapped_descriptor']
assert len(loaded_calls) == 2
for c in loaded_calls:
    assert type(c.state_properties['bsr_modifier']) is BSRModifier
    assert type(c.args) is tuple and type(c.args[0]) is OperatorDescriptor
loop = loaded.statements[-1]
assert type(loop) is Loop and type(loop.repeat) is CoderMethodCall and loop.repeat.args == ()
assert loop.repeat.method_name == 'get_value_for_delayed_replication_factor'
assert loop.repeat.to_dict()['with_descriptor'] is False

for bad_text, error in (('not json', 'JSONDecodeError'),
                        (text.replace('"CompiledTemplate"', '"Loop"'), 'AssertionError'),
                        (text.replace('"CoderMethodCall"', '"MethodCall"', 1), 'KeyError'),
                        (text.replace('"method_name"', '"name"', 1), 'KeyError'),
                        (text.replace('"args": [12001', '"args": [[12001]', 1), 'TypeError')):
    assert bad_text != text
    r = outcome(loads_compiled_template, bad_text)
    assert r[:2] == ('error', error), (error, r)

print('demo 3: {} comparisons with templates that went through JSON, all agree; save/load ok'.format(n))
