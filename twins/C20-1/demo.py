import os, sys; sys.path.insert(0, os.getcwd())

# ---------------------------------------------------------------------------
# Independent, hand-written BUFR edition 4 stream builder and reference
# expander (does not use any pybufrkit code, so it is a genuine oracle).
# ---------------------------------------------------------------------------
import math
import random

DEFINITION_TEMPLATE = [103000, 31001, 1, 2, 3,
                       101000, 31001, 300004,
                       105000, 31001, 300003, 205064, 101000, 31001, 30]

# The few standard (table file) elements used by the demos: id -> (unit, scale, ref, width)
STANDARD_B = {
    '001001': ('Numeric', 0, 0, 7),
    '012001': ('K', 1, 0, 12),
    '031001': ('Numeric', 0, 0, 8),
    '031002': ('Numeric', 0, 0, 16),
    '031000': ('Numeric', 0, 0, 1),
}


class Bits(object):
    def __init__(self):
        self.bits = []

    def uint(self, value, nbits):
        assert 0 <= value < (1 << nbits) or nbits == 0, (value, nbits)
        self.bits.extend((value >> i) & 1 for i in range(nbits - 1, -1, -1))

    def text(self, s, nbytes):
        raw = s.encode('ascii') if isinstance(s, str) else s
        raw = raw.ljust(nbytes, b' ')
        assert len(raw) == nbytes, (s, nbytes)
        for ch in raw:
            self.uint(ch, 8)

    def to_bytes(self):
        bits = self.bits + [0] * (-len(self.bits) % 8)
        return bytes(int(''.join(map(str, bits[i:i + 8])), 2) for i in range(0, len(bits), 8))


def make_message(data_category, descriptor_ids, payload, n_subsets=1, compressed=False,
                 master_table_version=33):
    sec1 = (b'\x00\x00\x16' + bytes([0]) + (7).to_bytes(2, 'big') + (0).to_bytes(2, 'big') +
            bytes([0, 0, data_category, 0, 0, master_table_version, 0]) +
            (2024).to_bytes(2, 'big') + bytes([1, 2, 3, 4, 5]))
    assert len(sec1) == 22
    flags = 0x80 | (0x40 if compressed else 0)
    body3 = bytes([0]) + n_subsets.to_bytes(2, 'big') + bytes([flags])
    for id_ in descriptor_ids:
        id_ = int(id_)
        f, x, y = id_ // 100000, (id_ // 1000) % 100, id_ % 1000
        body3 += bytes([(f << 6) | x, y])
    sec3 = (len(body3) + 3).to_bytes(3, 'big') + body3
    sec4 = (len(payload) + 4).to_bytes(3, 'big') + b'\x00' + payload
    total = 8 + len(sec1) + len(sec3) + len(sec4) + 4
    return b'BUFR' + total.to_bytes(3, 'big') + b'\x04' + sec1 + sec3 + sec4 + b'7777'


def make_definition_message(b_defs, d_defs, a_defs=(('200', 'DEMO', ''),), n_subsets=1):
    """
    b_defs: list of (id6, name, unit, scale, ref, width); d_defs: list of (id6, name, [member id6...])
    A member count given explicitly as (id6, name, members, count) overrides len(members).
    """
    w = Bits()
    w.uint(len(a_defs), 8)
    for entry, line1, line2 in a_defs:
        w.text(entry, 3), w.text(line1, 32), w.text(line2, 32)
    w.uint(len(b_defs), 8)
    for id6, name, unit, scale, ref, width in b_defs:
        w.text(id6[0], 1), w.text(id6[1:3], 2), w.text(id6[3:], 3)
        w.text(name[:32], 32), w.text(name[32:], 32)
        w.text(unit, 24)
        for number, nchars in ((scale, 3), (ref, 10)):
            if isinstance(number, tuple):  # raw (sign text, magnitude text), for malformed definitions
                w.text(number[0], 1), w.text(number[1], nchars)
            else:
                w.text('+' if number >= 0 else '-', 1), w.text(str(abs(number)), nchars)
        w.text(str(width), 3)
    w.uint(len(d_defs), 8)
    for d_def in d_defs:
        id6, name, members = d_def[:3]
        w.text(id6[0], 1), w.text(id6[1:3], 2), w.text(id6[3:], 3)
        w.text(name, 64)
        w.uint(d_def[3] if len(d_def) > 3 else len(members), 8)
        for member in members:
            w.text(member, 6)
    return make_message(11, DEFINITION_TEMPLATE, w.to_bytes() * n_subsets, n_subsets=n_subsets)


def is_replication_only(members):
    if not members or members[0][0] != '1' or int(members[0][1:3]) != 1:
        return False
    return len(members) == (2 if members[0][3:] == '000' else 1)


def expand(ids, b_table, d_table, rng, out):
    """
    Reference expansion of a descriptor list into a flat list of
    (kind, width, raw, expected) fields, choosing raw values with rng.
    Handles elements, fixed / delayed replication, sequences and the NCEP
    replication-only sequences (the replicated descriptor follows the sequence).
    """
    queue = list(ids)
    while queue:
        id6 = queue.pop(0)
        if id6[0] == '3':
            members = d_table[id6]
            if is_replication_only(members):
                queue[0:0] = members
            else:
                expand(members, b_table, d_table, rng, out)
        elif id6[0] == '1':
            n_items, count = int(id6[1:3]), int(id6[3:])
            if count == 0:
                factor = queue.pop(0)
                width = b_table[factor][3]
                count = rng.randint(0, min(3, (1 << width) - 1))
                out.append(('num', width, count, count))
            group = [queue.pop(0) for _ in range(n_items)]
            for _ in range(count):
                expand(group, b_table, d_table, rng, out)
        else:
            unit, scale, ref, width = b_table[id6]
            if unit == 'CCITT IA5':
                raw = bytes(rng.choice(b'ABCDEFGHIJKLMNOPQRSTUVWXYZ0123456789') for _ in range(width // 8))
                out.append(('str', width, raw, raw))
            else:
                top = (1 << width) - 1
                raw = top if (width > 1 and rng.random() < 0.15) else rng.randint(0, max(top - 1, 0) if width > 1 else 1)
                if width > 1 and raw == top:
                    expected = None
                elif unit in ('CODE TABLE', 'FLAG TABLE'):
                    expected = raw
                else:
                    expected = raw + ref
                    if scale != 0:
                        expected = expected / 10.0 ** scale
                out.append(('num', width, raw, expected))
    return out


def make_data_message(ids, b_table, d_table, rng, data_category=0):
    fields = expand(ids, b_table, d_table, rng, [])
    w = Bits()
    for kind, width, raw, _ in fields:
        if kind == 'str':
            w.text(raw, width // 8)
        else:
            w.uint(raw, width)
    return make_message(data_category, ids, w.to_bytes()), [f[3] for f in fields]


def make_compressed_data_message(ids, b_table, d_table, rng, n_subsets=3, data_category=0):
    """No delayed replication here, so that all subsets share one structure."""
    subsets = [expand(ids, b_table, d_table, rng, []) for _ in range(n_subsets)]
    w = Bits()
    for column in zip(*subsets):
        kind, width = column[0][0], column[0][1]
        raws = [f[2] for f in column]
        if kind == 'str':
            w.text(b'\x00' * (width // 8), width // 8)
            w.uint(width // 8, 6)
            for raw in raws:
                w.text(raw, width // 8)
        else:
            top = (1 << width) - 1
            present = [r for r in raws if not (width > 1 and r == top)]
            if not present:
                w.uint(top, width), w.uint(0, 6)
                continue
            low = min(present)
            nbits_diff = max((max(present) - low + 1).bit_length(), 2)
            w.uint(low, width), w.uint(nbits_diff, 6)
            for raw in raws:
                w.uint((1 << nbits_diff) - 1 if (width > 1 and raw == top) else raw - low, nbits_diff)
    return (make_message(data_category, ids, w.to_bytes(), n_subsets=n_subsets, compressed=True),
            [[f[3] for f in subset] for subset in subsets])


def tables_of(b_defs, d_defs, base_b=None, base_d=None):
    b_table = dict(STANDARD_B if base_b is None else base_b)
    d_table = dict({} if base_d is None else base_d)
    for id6, _, unit, scale, ref, width in b_defs:
        b_table[id6] = (unit, scale, ref, width)
    for d_def in d_defs:
        d_table[d_def[0]] = list(d_def[2])
    return b_table, d_table


def same_values(got, expected):
    if len(got) != len(expected):
        return False
    for g, e in zip(got, expected):
        if e is None or isinstance(e, (bytes, int)):
            if g != e or type(g) is not type(e):
                return False
        elif not (isinstance(g, float) and math.isclose(g, e, rel_tol=1e-12, abs_tol=0.0)):
            return False
    return True
# ---------------------------------------------------------------------------


from pybufrkit.decoder import Decoder, generate_bufr_message
from pybufrkit.dataprocessor import BufrTableDefinitionProcessor
from pybufrkit.errors import PyBufrKitError
from pybufrkit.tables import TableGroupCacheManager


def expected_b_entries(b_defs):
    return dict((id6, [name[:32].rstrip() + name[32:].rstrip(), unit, scale, ref, width, '', 0, 0])
                for id6, name, unit, scale, ref, width in b_defs)


def expected_d_entries(d_defs):
    return dict((d[0], [d[1].rstrip(), list(d[2])]) for d in d_defs)


def extract(definition_bytes):
    message = Decoder().process(definition_bytes)
    return BufrTableDefinitionProcessor().process(message)


def raises(exc_type, fn, *args):
    try:
        fn(*args)
    except exc_type as e:
        return type(e) is exc_type
    except BaseException as e:
        print('expected', exc_type, 'got', repr(e))
        return False
    return False


# --- 1. extraction: every field of every entry, for many random definition sets -----------------
UNITS = ['M', 'K', 'PA', 'NUMERIC', 'CODE TABLE', 'FLAG TABLE', 'CCITT IA5', 'DEGREES TRUE', 'M S-1']
rng = random.Random(2001)
for trial in range(12):
    n_b = rng.randint(1, 9)
    b_defs = []
    for i in range(n_b):
        unit = rng.choice(UNITS)
        width = 8 * rng.randint(1, 8) if unit == 'CCITT IA5' else rng.randint(1, 31)
        name = ('ELEMENT %d OF TRIAL %d ' % (i, trial)) + 'X' * rng.choice([0, 0, 9, 20, 30])
        b_defs.append(('0%02d%03d' % (rng.randint(48, 63), i + 1), name.strip(), unit,
                       rng.randint(-9, 9) * rng.choice([0, 1]), rng.randint(-99999, 99999) * rng.choice([0, 1]),
                       width))
    ids = [b[0] for b in b_defs]
    d_defs = []
    for j in range(rng.randint(0, 5)):
        members = [rng.choice(ids + ['101000', '031001', '102003', '360%03d' % max(j, 1)])
                   for _ in range(rng.randint(0, 7))]
        d_defs.append(('3%02d%03d' % (rng.randint(48, 63), j + 1), 'SEQUENCE %d' % j, members))
    a_entries, b_entries, d_entries = extract(make_definition_message(b_defs, d_defs))
    assert a_entries == []
    assert b_entries == expected_b_entries(b_defs), (b_entries, b_defs)
    assert d_entries == expected_d_entries(d_defs), (d_entries, d_defs)
    # order of the entries is the order of definition; exact types of the numeric fields
    assert list(b_entries) == list(expected_b_entries(b_defs))
    assert list(d_entries) == list(expected_d_entries(d_defs))
    for fields in b_entries.values():
        assert [type(f) for f in fields] == [str, str, int, int, int, str, int, int], fields
    for name, member_ids in d_entries.values():
        assert type(name) is str and type(member_ids) is list and all(type(m) is str for m in member_ids)

# --- 2. edge cases ------------------------------------------------------------------------------
# no B, no D entries at all; no table A entries either
assert extract(make_definition_message([], [], a_defs=())) == [[], {}, {}]
# a sequence without members; name that fills both lines completely; extreme numbers
long_name = 'N' * 64
b_defs = [('063255', long_name, 'NUMERIC', -999, -999999999, 255),
          ('048000', '', '', 0, 0, 0),
          ('048001', 'A', 'K', 127, 2147483647, 32)]
d_defs = [('363255', 'EMPTY', []), ('348001', 'D' * 64, ['048001'] * 20)]
_, b_entries, d_entries = extract(make_definition_message(b_defs, d_defs))
assert b_entries == expected_b_entries(b_defs) and d_entries == expected_d_entries(d_defs)
assert b_entries['063255'] == ['N' * 64, 'NUMERIC', -999, -999999999, 255, '', 0, 0]
assert b_entries['048000'] == ['', '', 0, 0, 0, '', 0, 0]
# the same id defined twice in one message: the later definition wins, position of the first
b_defs = [('048001', 'FIRST', 'M', 1, 10, 10), ('048002', 'OTHER', 'K', 0, 0, 8), ('048001', 'SECOND', 'PA', -1, -20, 12)]
d_defs = [('348001', 'S1', ['048001']), ('348001', 'S2', ['048002', '048001'])]
_, b_entries, d_entries = extract(make_definition_message(b_defs, d_defs))
assert list(b_entries) == ['048001', '048002']
assert b_entries['048001'] == ['SECOND', 'PA', -1, -20, 12, '', 0, 0]
assert d_entries == {'348001': ['S2', ['048002', '048001']]}
# every call returns fresh containers
first = extract(make_definition_message(b_defs, d_defs))
second = extract(make_definition_message(b_defs, d_defs))
assert first == second and first[1] is not second[1] and first[1]['048001'] is not second[1]['048001']

# --- 3. error cases -----------------------------------------------------------------------------
# scale / reference / width that are not numbers
assert raises(ValueError, extract, make_definition_message([('048001', 'BAD SCALE', 'M', ('+', 'abc'), 0, 8)], []))
assert raises(ValueError, extract, make_definition_message([('048001', 'BAD REF', 'M', 0, ('-', '1.5'), 8)], []))
assert raises(ValueError, extract, make_definition_message([('048001', 'NO SCALE', 'M', ('+', ''), 0, 8)], []))
# the first malformed entry decides, whatever follows
assert raises(ValueError, extract, make_definition_message(
    [('048001', 'OK', 'M', 0, 0, 8), ('048002', 'BAD', 'M', ('+', 'x'), ('+', 'y'), 8), ('048003', 'OK', 'M', 0, 0, 8)], []))
# two subsets in a definition message
# (rebased: since "fix: a message of data category 11 that is not laid out as a table definition message
# no longer aborts the scan with AssertionError" these refusals are PyBufrKitError, not AssertionError)
two_subsets = make_definition_message([('048001', 'E', 'M', 0, 0, 8)], [], n_subsets=2)
assert raises(PyBufrKitError, extract, two_subsets)
# a message that is not a table definition at all (three top level nodes are demanded)
b_table, d_table = tables_of([], [])
plain, _ = make_data_message(['001001', '012001'], b_table, d_table, random.Random(5))
assert raises(PyBufrKitError, extract, plain)
plain3, _ = make_data_message(['001001', '012001', '001001'], b_table, d_table, random.Random(5))
assert raises(PyBufrKitError, extract, plain3)

# --- 4. the real NCEP file ------------------------------------------------------------------------
with open(os.path.join('tests', 'data', 'prepbufr.bufr'), 'rb') as ins:
    prepbufr = ins.read()
_, b_entries, d_entries = extract(prepbufr)
assert len(b_entries) == 35 and len(d_entries) == 9
assert b_entries['063000'] == ['BYTCNT', 'BYTES', 0, 0, 16, '', 0, 0]
assert b_entries['031000'] == ['DRF1BIT', 'NUMERIC', 0, 0, 1, '', 0, 0]
assert d_entries['360001'] == ['DRP16BIT', ['101000', '031002']]
assert d_entries['360243'] == ['GFSCLS1  TABLE A ENTRY - GFSMODEL MESSAGES',
                               ['362001', '360002', '362002', '362003', '362004']]
assert all(isinstance(v[2], int) and isinstance(v[3], int) and isinstance(v[4], int) for v in b_entries.values())

# --- 5. end to end: the extracted definitions govern the messages that follow ---------------------
rng = random.Random(77)
B = [('048001', 'HEIGHT', 'M', 2, -500, 14), ('050002', 'STATION', 'CCITT IA5', 0, 0, 48),
     ('063003', 'QUALITY', 'CODE TABLE', 0, 0, 5), ('055004', 'PRESSURE', 'PA', -2, 7, 9),
     ('048005', 'FLAG', 'NUMERIC', 0, 0, 1), ('012001', 'REDEFINED TEMPERATURE', 'K', 2, -27315, 16)]
D = [('360001', 'DRP8BIT', ['101000', '031001']),
     ('361001', 'SEQ A', ['048001', '102002', '050002', '063003', '001001']),
     ('361002', 'SEQ B', ['361001', '360001', '361003', '012001']),
     ('361003', 'SEQ C', ['055004', '101000', '031001', '048005'])]
b_table, d_table = tables_of(B, D)
stream, expectations = make_definition_message(B, D), []
for i in range(6):
    if i % 3 == 2:
        message, expected = make_compressed_data_message(['361001', '055004', '012001'], b_table, d_table, rng)
    else:
        message, expected = make_data_message(['361002', '001001', '048001'], b_table, d_table, rng)
        expected = [expected]
    stream += message
    expectations.append(expected)
messages = list(generate_bufr_message(Decoder(), stream))
assert len(messages) == 7 and messages[0].data_category.value == 11
for message, expected in zip(messages[1:], expectations):
    got = message.template_data.value.decoded_values_all_subsets
    assert len(got) == len(expected)
    for g, e in zip(got, expected):
        assert same_values(g, e), (g, e)
assert TableGroupCacheManager.has_extra_entries()

print('demo 1 OK')
