import os, sys; sys.path.insert(0, os.getcwd())
"""
Refactor 6 - differential demonstration.

The refactor rewrites control flow only: the character loop of
NodePathParser.parse (while + manual increment -> for/enumerate, the '@' branch
as a guard clause, the "ordinary character" branch with a single append) and
handle_separator (four branches merged pairwise into two).  Branches reached:

  * parse(): whitespace, '@' at the start / anywhere else, ordinary character
    in each of the five token states, as the first character (implicit '>'),
    and in the three states that do not take one; the value of self.pos after
    the loop (it enters the messages produced at end of input),
  * handle_separator(): no subset selector (explicit '/' and '>', implicit
    '>'), after a subset selector ('/', '>', and '.' which is refused), after
    an ID (empty or not), after a slice, in the five states that do not take a
    separator, and the "more than three indices" error surfacing from either
    merged branch.  The combination "first separator is '.'" cannot be reached
    through parse() (the first-character check comes first), so the handler is
    also driven directly.

Expected results come from an independent reference (a regular expression over
the whitespace-free string plus a separate slice builder), from literal error
messages, and from digests of the complete outcome table and of the parser
state left behind, recorded on the unpatched code.
"""
import hashlib
import itertools
import random
import re
import string

import pybufrkit.dataquery as dq
from pybufrkit.dataquery import NodePathParser, PathComponent
from pybufrkit.errors import PathExprParsingError

assert os.path.dirname(os.path.abspath(dq.__file__)) == os.path.join(os.getcwd(), 'pybufrkit'), dq.__file__

# ---------------------------------------------------------------- reference
SPECIAL = '@[]:/.>'
FIRST_OK = '@/>0123456789ABCDEFGHIJKLMNOPQRSTUVWXYZ'
TOK = r'[^@\[\]:/.>]'
BODY = r'(?:%s*)(?::%s*)*' % (TOK, TOK)
COMP = r'(?:[/.>](?:%s+)(?:\[%s\])?)' % (TOK, BODY)
RX_WITH_SUBSET = re.compile(r'^@\[(%s)\]((?:[/>])%s+(?:\[%s\])?%s*)$' % (BODY, TOK, BODY, COMP))
RX_NO_SUBSET = re.compile(r'^(%s+)$' % COMP)
RX_COMP = re.compile(r'([/.>])(%s+)(?:\[(%s)\])?' % (TOK, BODY))


class Reject(Exception):
    pass


def ref_slice(body, bare_all):
    """body is None (no brackets) or the text between the brackets."""
    if body is None:
        return slice(None, None, None) if bare_all else 0
    parts = body.split(':')
    if len(parts) > 3:
        raise Reject()
    elements = []
    for p in parts:
        if p == '':
            elements.append(None)
        else:
            try:
                elements.append(int(p))
            except ValueError:
                raise Reject()
    if len(elements) == 1:
        v = elements[0]
        if v is None:
            raise Reject()
        if v >= 0:
            return v
        return slice(v, None if v == -1 else v + 1, None)
    return slice(*elements)


def reference(s, bare_all=True):
    """Return (subset_slice, [(sep, id, slice), ...]) or raise Reject."""
    stripped = s.strip()
    if stripped == '' or stripped[0] not in FIRST_OK:
        raise Reject()
    w = ''.join(c for c in s if c not in string.whitespace)
    if w.startswith('@'):
        m = RX_WITH_SUBSET.match(w)
        if not m:
            raise Reject()
        subset_body, rest = m.group(1), m.group(2)
    else:
        if w[0] not in '/>':
            w = '>' + w
        m = RX_NO_SUBSET.match(w)
        if not m:
            raise Reject()
        subset_body, rest = None, w
    # slices are built left to right, as the text is read
    subset = ref_slice(subset_body, bare_all)
    pos, out = 0, []
    while pos < len(rest):
        m = RX_COMP.match(rest, pos)  # group 3 is None when there are no brackets
        out.append((m.group(1), m.group(2), ref_slice(m.group(3), bare_all)))
        pos = m.end()
    return subset, out


# ---------------------------------------------------------------- observation
def observe(parser, s):
    try:
        p = parser.parse(s)
    except PathExprParsingError as e:
        assert type(e) is PathExprParsingError
        return ('ERR', e.message)
    except Exception as e:  # any other exception is a failure of the property
        return ('OTHER', type(e).__name__, str(e))
    return ('OK', p.subset_slice, [tuple(c) for c in p.components], str(p))


def state_of(parser):
    return (parser.pos, parser.current_state, parser.current_token, parser.current_id,
            parser.current_separator, list(parser.current_slice_elements))


def check_against_reference(parser, s, bare_all):
    got = observe(parser, s)
    assert got[0] != 'OTHER', (s, got)
    try:
        exp = reference(s, bare_all)
    except Reject:
        assert got[0] == 'ERR', (s, got)
        return got
    assert got[0] == 'OK', (s, got)
    assert (got[1], got[2]) == exp, (s, got, exp)
    assert all(isinstance(c, PathComponent) for c in parser.node_path.components)
    # printing and parsing the printout gives the same path
    again = observe(parser, got[3])
    assert again[0] == 'OK' and again[1:] == got[1:], (s, got, again)
    return got


# ---------------------------------------------------------------- 1. literal cases
P = NodePathParser()
P0 = NodePathParser(bare_id_matches_all=False)

LITERAL = [
    # token growth in every token state; whitespace inside tokens is ignored
    ('001001', ('OK', slice(None), [('>', '001001', slice(None))], '@[::]>001001[::]')),
    (' 0 01\t0\n01 ', ('OK', slice(None), [('>', '001001', slice(None))], '@[::]>001001[::]')),
    ('@[1 2]/A[ 3 : 4 5 : 6 ]', ('OK', 12, [('/', 'A', slice(3, 45, 6))], '@[12]/A[3:45:6]')),
    ('@[1:2 0:3]>A[-2]', ('OK', slice(1, 20, 3), [('>', 'A', slice(-2, -1, None))], '@[1:20:3]>A[-2:-1:]')),
    ('@[-1]/A[-1]', ('OK', slice(-1, None, None), [('/', 'A', slice(-1, None, None))], '@[-1::]/A[-1::]')),
    ('/a-b.c>d[0]', ('OK', slice(None), [('/', 'a-b', slice(None)), ('.', 'c', slice(None)), ('>', 'd', 0)],
                     '@[::]/a-b[::].c[::]>d[0]')),
    ('A[:]', ('OK', slice(None), [('>', 'A', slice(None, None, None))], '@[::]>A[::]')),
    ('A[::]', ('OK', slice(None), [('>', 'A', slice(None, None, None))], '@[::]>A[::]')),
    ('A[1_0]', ('OK', slice(None), [('>', 'A', 10)], '@[::]>A[10]')),
    ('A[+3]', ('OK', slice(None), [('>', 'A', 3)], '@[::]>A[3]')),
    # convert_id: empty ID at a separator, at a bracket, at the end
    ('//', ('ERR', 'empty ID at position 1')),
    ('/[', ('ERR', 'empty ID at position 1')),
    ('/', ('ERR', 'empty ID at position 1')),
    ('A/ ', ('ERR', 'empty ID at position 3')),
    ('@[0]>', ('ERR', 'empty ID at position 5')),
    # handle_colon_and_right_bracket: empty token before ']' in a *_SLICE_0 state, allowed in *_SLICE_X
    ('A[]', ('ERR', "unexpected char: ']' at position 2")),
    ('@[]/A', ('ERR', "unexpected char: ']' at position 2")),
    ('A[ ]', ('ERR', "unexpected char: ']' at position 3")),
    ('A[1:]', ('OK', slice(None), [('>', 'A', slice(1, None, None))], '@[::]>A[1::]')),
    ('@[:]/A', ('OK', slice(None, None, None), [('/', 'A', slice(None))], '@[::]/A[::]')),
    # convert_slice_element: the message quotes the whole token read so far
    ('A[1x]', ('ERR', "invalid slice syntax: '1x' at position 4")),
    ('A[ 1 - 2 :3]', ('ERR', "invalid slice syntax: '1-2' at position 9")),
    ('@[a b:]/A', ('ERR', "invalid slice syntax: 'ab' at position 5")),
    ('A[--1]', ('ERR', "invalid slice syntax: '--1' at position 5")),
    ('A[1:2:3:4]', ('ERR', 'slice can have at most three indices')),
    # end of input with a token left over: the position is that of the token minus its length
    ('A[12', ('ERR', "unexpected char: '1' at position 2")),
    ('A[1:23', ('ERR', "unexpected char: '2' at position 4")),
    ('@[7', ('ERR', "unexpected char: '7' at position 2")),
    ('@[1:x y', ('ERR', "unexpected char: 'x' at position 5")),
    ('A[1 2 ', ('ERR', "unexpected char: '1' at position 4")),
    # end of input without a token
    ('A[', ('ERR', 'unexpected end of path expression')),
    ('A[1:', ('ERR', 'unexpected end of path expression')),
    ('@', ('ERR', 'unexpected end of path expression')),
    ('@[', ('ERR', 'unexpected end of path expression')),
    ('@[1]', ('ERR', 'unexpected end of path expression')),
    # a character that may not extend a token in the current state
    ('A[1]B', ('ERR', "unexpected char: 'B' at position 4")),
    ('@A', ('ERR', "unexpected char: 'A' at position 1")),
    ('@[1]A', ('ERR', "unexpected char: 'A' at position 4")),
    ('', ('ERR', 'Empty path expression')),
    ('  ', ('ERR', 'Empty path expression')),
    (' a', ('ERR', "unexpected char: 'a' at position 1")),
]
for s, exp in LITERAL:
    got = observe(P, s)
    assert got == exp, (s, got, exp)
    check_against_reference(P, s, True)
    check_against_reference(P0, s, False)

# bare IDs with bare_id_matches_all=False
assert observe(P0, '@[2]/A>B[1]') == ('OK', 2, [('/', 'A', 0), ('>', 'B', 1)], '@[2]/A[0]>B[1]')
assert observe(P0, 'A') == ('OK', 0, [('>', 'A', 0)], '@[0]>A[0]')

# the parser is reusable after a failure and after a success (token cleared by reset / conversion)
for a, b in [('A[12', 'B'), ('A[1x]', 'B[2]'), ('A', 'B'), ('/', '/C')]:
    observe(P, a)
    assert observe(P, b) == observe(NodePathParser(), b), (a, b)

# the error raised for a bad slice element is chained to the ValueError of int()
try:
    P.parse('A[1x]')
except PathExprParsingError as e:
    assert isinstance(e.__context__, ValueError), repr(e.__context__)
else:
    raise AssertionError('accepted')

# ---------------------------------------------------------------- 1b. branches of this refactor
LITERAL6 = [
    # handle_separator, no subset selector: explicit and implicit first separator
    ('/A', ('OK', slice(None), [('/', 'A', slice(None))], '@[::]/A[::]')),
    ('>A', ('OK', slice(None), [('>', 'A', slice(None))], '@[::]>A[::]')),
    ('A', ('OK', slice(None), [('>', 'A', slice(None))], '@[::]>A[::]')),
    (' \t/ A', ('OK', slice(None), [('/', 'A', slice(None))], '@[::]/A[::]')),
    # after a subset selector
    ('@[3]/A', ('OK', 3, [('/', 'A', slice(None))], '@[3]/A[::]')),
    ('@[-3]>A', ('OK', slice(-3, -2, None), [('>', 'A', slice(None))], '@[-3:-2:]>A[::]')),
    ('@[3].A', ('ERR', "unexpected char: '.' at position 4")),
    ('@[1:2:3:4]/A', ('ERR', 'slice can have at most three indices')),
    # after an ID, after a slice
    ('A/B.C>D', ('OK', slice(None), [('>', 'A', slice(None)), ('/', 'B', slice(None)), ('.', 'C', slice(None)),
                                     ('>', 'D', slice(None))], '@[::]>A[::]/B[::].C[::]>D[::]')),
    ('A[1]/B[2:3].C[-1]>D', ('OK', slice(None), [('>', 'A', 1), ('/', 'B', slice(2, 3, None)),
                                                 ('.', 'C', slice(-1, None, None)), ('>', 'D', slice(None))],
                             '@[::]>A[1]/B[2:3:].C[-1::]>D[::]')),
    ('A//B', ('ERR', 'empty ID at position 2')),
    ('A.>B', ('ERR', 'empty ID at position 2')),
    ('A[1:2:3:4]/B', ('ERR', 'slice can have at most three indices')),
    ('A/B[1:2:3:4].C', ('ERR', 'slice can have at most three indices')),
    # states that do not take a separator
    ('@/A', ('ERR', "unexpected char: '/' at position 1")),
    ('@[/A', ('ERR', "unexpected char: '/' at position 2")),
    ('@[1:>A', ('ERR', "unexpected char: '>' at position 4")),
    ('A[.', ('ERR', "unexpected char: '.' at position 2")),
    ('A[1:/', ('ERR', "unexpected char: '/' at position 4")),
    # '@' anywhere but at the start
    ('@@', ('ERR', "unexpected char: '@' at position 1")),
    ('A@', ('ERR', "unexpected char: '@' at position 1")),
    ('@[1]@', ('ERR', "unexpected char: '@' at position 4")),
    ('A[@', ('ERR', "unexpected char: '@' at position 2")),
    ('A[1] @', ('ERR', "unexpected char: '@' at position 5")),
    # ordinary character in the states that do not take one
    ('@x', ('ERR', "unexpected char: 'x' at position 1")),
    ('@[1] x', ('ERR', "unexpected char: 'x' at position 5")),
    ('A[1]x', ('ERR', "unexpected char: 'x' at position 4")),
    # self.pos after the loop
    ('A/B/', ('ERR', 'empty ID at position 4')),
    ('A/B/  ', ('ERR', 'empty ID at position 6')),
    ('A[123', ('ERR', "unexpected char: '1' at position 2")),
    ('A[1 2 3  ', ('ERR', "unexpected char: '1' at position 6")),
]
for s, exp in LITERAL6:
    got = observe(P, s)
    assert got == exp, (s, got, exp)
    check_against_reference(P, s, True)
    check_against_reference(P0, s, False)

for s in ['A', 'A/B[1]', '@[1]/A', ' A ', 'A[1] ']:
    P.parse(s)
    assert P.pos == len(s), (s, P.pos)
    assert P.current_state == (dq.STATE_STOP_SLICE if s.strip().endswith(']') else dq.STATE_START_ID)


# handle_separator driven directly, for the combinations parse() cannot produce or to look at the state it leaves
def fresh(state, token='', elements=(), sep=None, id_=None, pos=7, bare_all=True):
    q = NodePathParser(bare_id_matches_all=bare_all)
    q.reset()
    q.node_path = dq.NodePath('x')
    q.current_state, q.current_token, q.pos = state, token, pos
    q.current_slice_elements = list(elements)
    q.current_separator, q.current_id = sep, id_
    return q


def drive(q, c):
    try:
        q.handle_separator(c)
    except PathExprParsingError as e:
        out = ('ERR', e.message)
    else:
        out = ('OK',)
    return out + (q.node_path.subset_slice, [tuple(x) for x in q.node_path.components], state_of(q))


S = dq
assert drive(fresh(S.STATE_START_PARSING), '.') == \
    ('ERR', "unexpected char: '.' at position 7", None, [], (7, '', '', None, None, []))
for c in '/>':
    assert drive(fresh(S.STATE_START_PARSING), c) == ('OK', slice(None), [], (7, 'i', '', None, c, []))
    assert drive(fresh(S.STATE_START_PARSING, bare_all=False), c) == ('OK', 0, [], (7, 'i', '', None, c, []))
    assert drive(fresh(S.STATE_STOP_SUBSET_SLICE, elements=[-5]), c) == \
        ('OK', slice(-5, -4, None), [], (7, 'i', '', None, c, []))
    assert drive(fresh(S.STATE_STOP_SUBSET_SLICE, elements=[1, 2, 3, 4]), c) == \
        ('ERR', 'slice can have at most three indices', None, [], (7, '@]', '', None, None, [1, 2, 3, 4]))
assert drive(fresh(S.STATE_STOP_SUBSET_SLICE, elements=[2]), '.') == \
    ('ERR', "unexpected char: '.' at position 7", None, [], (7, '@]', '', None, None, [2]))
for c in '/.>':
    assert drive(fresh(S.STATE_START_ID, token='AB', sep='/'), c) == \
        ('OK', None, [('/', 'AB', slice(None))], (7, 'i', '', 'AB', c, []))
    assert drive(fresh(S.STATE_START_ID, token='AB', sep='/', bare_all=False), c) == \
        ('OK', None, [('/', 'AB', 0)], (7, 'i', '', 'AB', c, []))
    assert drive(fresh(S.STATE_START_ID, token='', sep='/', id_='old'), c) == \
        ('ERR', 'empty ID at position 7', None, [], (7, 'i', '', 'old', '/', []))
    assert drive(fresh(S.STATE_STOP_SLICE, sep='.', id_='Q', elements=[None, 4]), c) == \
        ('OK', None, [('.', 'Q', slice(None, 4))], (7, 'i', '', 'Q', c, []))
    assert drive(fresh(S.STATE_STOP_SLICE, sep='.', id_='Q', elements=[1, 2, 3, 4]), c) == \
        ('ERR', 'slice can have at most three indices', None, [], (7, ']', '', 'Q', '.', [1, 2, 3, 4]))
    for st in (S.STATE_START_SUBSET, S.STATE_START_SUBSET_SLICE_0, S.STATE_START_SUBSET_SLICE_X,
               S.STATE_START_SLICE_0, S.STATE_START_SLICE_X, None):
        assert drive(fresh(st, token='1', elements=[1]), c) == \
            ('ERR', 'unexpected char: %r at position 7' % c, None, [], (7, st, '1', None, None, [1]))

# ---------------------------------------------------------------- 2. exhaustive enumeration
ALPHABET = '@[]:/.>-01A '
MAXLEN = 5
digest = hashlib.sha256()
n = n_ok = 0
for length in range(0, MAXLEN + 1):
    for tup in itertools.product(ALPHABET, repeat=length):
        s = ''.join(tup)
        got = check_against_reference(P, s, True) if length <= 4 else observe(P, s)
        if length > 4:
            # reference comparison without the round trip, to keep the run short
            try:
                exp = reference(s, True)
            except Reject:
                assert got[0] == 'ERR', (s, got)
            else:
                assert got[0] == 'OK' and (got[1], got[2]) == exp, (s, got, exp)
        n += 1
        n_ok += got[0] == 'OK'
        digest.update(repr((s, got)).encode())
print('exhaustive: %d strings, %d accepted, digest %s' % (n, n_ok, digest.hexdigest()))
EXPECTED_DIGEST = '5de6c924b68181dd3271a1eed93b7216607018169f4aa1ea624c4df279e17936'
assert digest.hexdigest() == EXPECTED_DIGEST, digest.hexdigest()

# parser state left behind (other than the token), on the strings up to length 4
digest = hashlib.sha256()
for length in range(0, 5):
    for tup in itertools.product(ALPHABET, repeat=length):
        s = ''.join(tup)
        q = NodePathParser()
        q.reset()
        out = observe(q, s)
        digest.update(repr((s, out[0], state_of(q))).encode())
print('state digest %s' % digest.hexdigest())
EXPECTED_STATE_DIGEST = '3e053c1bed7a6959c1231cc712264942f77703d19df39cdf300d0bf258690d1c'
assert digest.hexdigest() == EXPECTED_STATE_DIGEST, digest.hexdigest()

# ---------------------------------------------------------------- 3. random long expressions and mutations
rnd = random.Random(15)
ID_CHARS = '0123456789ABCXYZabz-_+'


def rnd_int():
    return rnd.choice(['', '0', '1', '-1', '-2', '7', '12', '-30', '+4', '1_0', ' 5', '6 '])


def rnd_slice():
    k = rnd.choice([1, 1, 2, 3])
    if k == 1:
        return '[%s]' % rnd.choice(['0', '1', '-1', '-2', '-17', '25', ' 3 ', '1 1'])
    return '[%s]' % ':'.join(rnd_int() for _ in range(k))


def rnd_expr():
    s = ''
    if rnd.random() < 0.5:
        s += '@' + rnd_slice() + rnd.choice('/>')
    elif rnd.random() < 0.6:
        s += rnd.choice('/>')
    first = True
    for i in range(rnd.randint(1, 6)):
        if not first:
            s += rnd.choice('/.>')
        ident = ''.join(rnd.choice(ID_CHARS) for _ in range(rnd.randint(1, 6)))
        if first and not s:
            ident = rnd.choice('0123456789ABCXYZ') + ident
        first = False
        s += ident
        if rnd.random() < 0.5:
            s += rnd_slice()
    # sprinkle whitespace
    out = ''
    for c in s:
        out += c
        if rnd.random() < 0.1:
            out += rnd.choice(' \t\n')
    return out


MUT = ALPHABET + 'x9_+'
n_acc = n_rej = 0
for _ in range(1500):
    s = rnd_expr()
    g = check_against_reference(P, s, True)
    check_against_reference(P0, s, False)
    assert g[0] == 'OK', (s, g)
    for _ in range(6):
        i = rnd.randrange(len(s) + 1)
        kind = rnd.choice('idr')
        if kind == 'i':
            t = s[:i] + rnd.choice(MUT) + s[i:]
        elif kind == 'd':
            t = s[:i] + s[i + 1:]
        else:
            t = s[:i] + rnd.choice(MUT) + s[i + 1:]
        g = check_against_reference(P, t, True)
        n_acc += g[0] == 'OK'
        n_rej += g[0] == 'ERR'
print('mutations: %d accepted, %d rejected' % (n_acc, n_rej))
assert n_acc > 500 and n_rej > 500

print('OK')
