import os, sys; sys.path.insert(0, os.getcwd())
"""
Differential demonstration for refactor 6 (nest-level flattening driven by a
table of rules, get_query_result as a conditional expression).

Expected values are computed independently of ScriptRunner: from the raw
`results` of a QueryResult (obtained from DataQuerent directly, or built by
hand) with a recursive flatten written here.

Exits 0 when everything agrees (both on the unpatched and the patched tree).
"""
import pybufrkit.script as script_module
from pybufrkit.script import ScriptRunner
from pybufrkit.decoder import Decoder
from pybufrkit.dataquery import DataQuerent, NodePathParser, QueryResult
from pybufrkit.mdquery import MetadataQuerent, MetadataExprParser

assert script_module.__file__.startswith(os.getcwd()), script_module.__file__


# ---------------------------------------------------------------- independent expectation
def flat(v):
    out = []
    for e in v:
        if isinstance(e, list):
            out.extend(flat(e))
        else:
            out.append(e)
    return out


def expected(raw_by_subset, level):
    """raw_by_subset: the fully nested values, one entry per subset (= level 4)."""
    is_level = lambda k: not isinstance(level, (list, dict, set, tuple, str, type(None))) and level == k
    if is_level(0):
        for subset in raw_by_subset:
            for x in flat(subset):
                return x
        return None
    if is_level(1):
        return [x for subset in raw_by_subset for x in flat(subset)]
    if is_level(2):
        return [flat(subset) for subset in raw_by_subset]
    return list(raw_by_subset)


def make_qr(raw_by_subset, cls=QueryResult):
    qr = cls()
    for i, values in enumerate(raw_by_subset):
        qr.add_subset(i, values)
    return qr


n_checked = 0


def same(a, b):
    """Equality that also insists on the same types all the way down (1 vs 1.0 vs True)."""
    if type(a) is not type(b):
        return False
    if isinstance(a, list):
        return len(a) == len(b) and all(same(x, y) for x, y in zip(a, b))
    return a == b or (a != a and b != b)


# ---------------------------------------------------------------- 1. flatten_data_values on hand-built results
RAW = [
    [],                                         # no subset at all
    [[]],                                       # one subset, nothing found
    [[], []],                                   # two subsets, nothing found
    [[], [5]],                                  # first value lives in the second subset
    [[0]], [[None, 1]], [['']], [[False], [1]],  # falsy first value must not turn into None
    [[1.5], [2]],
    [[94], [95]],
    [[[[[[1], [3]], 21], [[[5], [7], [9]], 22]]], [[[[[12], [10], [8]], 22], [[[6], [4]]], 21]]],
    [[[], [[]], [[[]]]], [[[[7]]]]],            # empty replications
    [[b'abc', 'x'], [None], []],
]
# every value the pragma can take: the four documented ones, and others that must fall into "no flatten"
LEVELS = [0, 1, 2, 4, 3, 5, -1, 10 ** 30, 0.0, 1.0, 2.0, 2.5, True, False, None, '1', '', b'1',
          [1], [], (1,), {1: 2}, {1}, 1 + 0j, float('nan')]

for level in LEVELS:
    for raw in RAW:
        runner = ScriptRunner('pass', data_values_nest_level=level)
        if level is not None:
            assert runner.pragma == {'data_values_nest_level': level}
        else:
            runner.pragma['data_values_nest_level'] = None
        got = runner.flatten_data_values(make_qr(raw))
        exp = expected(raw, level)
        assert same(got, exp), (level, raw, got, exp)
        n_checked += 1

# documented consistency between the levels
for raw in RAW:
    by_level = dict((k, ScriptRunner('pass', data_values_nest_level=k).flatten_data_values(make_qr(raw)))
                    for k in (0, 1, 2, 4))
    assert by_level[4] == raw
    assert by_level[2] == [flat(s) for s in by_level[4]]
    assert by_level[1] == [x for s in by_level[2] for x in s]
    assert by_level[0] is (by_level[1][0] if by_level[1] else None) or by_level[0] == by_level[1][0]


# ---------------------------------------------------------------- 2. how the query result object is used
class RecordingResult(QueryResult):
    def __init__(self, flat_answer, nested_answer):
        super(RecordingResult, self).__init__()
        self.calls = []
        self.flat_answer, self.nested_answer = flat_answer, nested_answer

    def all_values(self, *args, **kwargs):
        self.calls.append((args, kwargs))
        if isinstance(self.flat_answer, Exception):
            raise self.flat_answer
        return self.flat_answer if kwargs.get('flat') else self.nested_answer


for level, exp_calls in [(0, [((), {'flat': True})]), (1, [((), {'flat': True})]), (2, [((), {'flat': True})]),
                         (4, [((), {})]), (7, [((), {})]), ([2], [((), {})])]:
    flat_answer, nested_answer = [[1], [2, 3]], [[[1]], [[2], 3]]
    qr = RecordingResult(flat_answer, nested_answer)
    got = ScriptRunner('pass', data_values_nest_level=level).flatten_data_values(qr)
    assert qr.calls == exp_calls, (level, qr.calls)  # asked exactly once, in the same way
    if level == 2:
        assert got is flat_answer      # handed over untouched
    elif level in (0, 1):
        assert got == ([1, 2, 3] if level else 1) and flat_answer == [[1], [2, 3]]  # inputs not modified
    else:
        assert got is nested_answer
    n_checked += 1

# level 1 of an empty result is a fresh list each time (the reduce initial value is not shared)
r = ScriptRunner('pass', data_values_nest_level=1)
l1, l2 = r.flatten_data_values(make_qr([])), r.flatten_data_values(make_qr([]))
assert l1 == [] and l2 == [] and l1 is not l2
l1.append(1)
assert r.flatten_data_values(make_qr([])) == []

# per-subset values that cannot be concatenated: TypeError at levels 0 and 1 only
for bad in ([[1], (2,)], [[1], 'ab'], [[1], None], [5]):
    for level in (0, 1):
        try:
            ScriptRunner('pass', data_values_nest_level=level).flatten_data_values(RecordingResult(bad, bad))
        except TypeError:
            pass
        else:
            raise AssertionError(('TypeError expected', bad, level))
    assert ScriptRunner('pass', data_values_nest_level=2).flatten_data_values(RecordingResult(bad, bad)) is bad
    assert ScriptRunner('pass', data_values_nest_level=4).flatten_data_values(RecordingResult(bad, bad)) is bad
# list subclasses / objects with their own __add__ / __radd__ go through the same + operator
class Radd(object):
    def __radd__(self, other):
        return other + ['radd']
assert ScriptRunner('pass', data_values_nest_level=1).flatten_data_values(
    RecordingResult([[1], Radd(), [2]], None)) == [1, 'radd', 2]
assert ScriptRunner('pass', data_values_nest_level=0).flatten_data_values(
    RecordingResult([Radd(), [2]], None)) == 'radd'
# an error raised by the result object comes through unchanged
for level in (0, 1, 2, 4):
    boom = KeyError('boom')
    try:
        ScriptRunner('pass', data_values_nest_level=level).flatten_data_values(RecordingResult(boom, None))
    except KeyError as e:
        assert e is boom
    else:
        raise AssertionError('KeyError expected')
# a missing pragma entry: KeyError before the result is touched
r = ScriptRunner('pass')
del r.pragma['data_values_nest_level']
qr = RecordingResult([[1]], [[1]])
try:
    r.flatten_data_values(qr)
except KeyError:
    assert qr.calls == []
else:
    raise AssertionError('KeyError expected')


# the level is compared with 0, 1, 2 in this order, level on the left, and no further than the first hit
class Level(object):
    def __init__(self, equal_to=(), fail_on=None):
        self.equal_to, self.fail_on, self.seen = equal_to, fail_on, []

    def __eq__(self, other):
        self.seen.append(other)
        if other == self.fail_on:
            raise RuntimeError('comparison failed')
        return other in self.equal_to

    __hash__ = None  # unhashable on purpose


for equal_to, exp_seen, exp in [((), [0, 1, 2], [[[1]], [[2], 3]]), ((0,), [0], 1), ((1,), [0, 1], [1, 2, 3]),
                                ((2,), [0, 1, 2], [[1], [2, 3]]), ((0, 1, 2), [0], 1), ((1, 2), [0, 1], [1, 2, 3]),
                                ((4,), [0, 1, 2], [[[1]], [[2], 3]])]:
    level = Level(equal_to)
    qr = RecordingResult([[1], [2, 3]], [[[1]], [[2], 3]])
    got = ScriptRunner('pass', data_values_nest_level=level).flatten_data_values(qr)
    assert level.seen == exp_seen and got == exp and len(qr.calls) == 1, (equal_to, level.seen, got)
    n_checked += 1
for fail_on, exp_seen in [(0, [0]), (1, [0, 1]), (2, [0, 1, 2])]:
    level = Level((), fail_on)
    qr = RecordingResult([[1]], [[1]])
    try:
        ScriptRunner('pass', data_values_nest_level=level).flatten_data_values(qr)
    except RuntimeError:
        assert level.seen == exp_seen and qr.calls == []
    else:
        raise AssertionError('RuntimeError expected')


# ---------------------------------------------------------------- 3. get_query_result: what is flattened and what is not
class StubQuerent(object):
    def __init__(self, answer):
        self.answer, self.calls = answer, []

    def query(self, bufr_message, query_expr):
        self.calls.append((bufr_message, query_expr))
        return self.answer


class SubResult(QueryResult):
    pass


class LooksLikeResult(object):  # not a QueryResult: must come back as it is
    def all_values(self, flat=False):
        raise AssertionError('must not be called')


marker = object()
for answer in (None, 0, 94, 'text', b'bytes', [1, [2]], [], (1,), {'a': 1}, marker, LooksLikeResult(), QueryResult):
    r = ScriptRunner('pass', data_values_nest_level=0)
    r.querent = StubQuerent(answer)
    assert r.get_query_result(marker, ' 001001 ') is answer
    assert r.querent.calls == [(marker, ' 001001 ')]
    n_checked += 1
for cls in (QueryResult, SubResult):
    for level in (0, 1, 2, 4):
        raw = [[[1], 2], [[[3]]]]
        r = ScriptRunner('pass', data_values_nest_level=level)
        r.querent = StubQuerent(make_qr(raw, cls))
        assert same(r.get_query_result(marker, 'q'), expected(raw, level))
        n_checked += 1


# a subclass that overrides flatten_data_values is still the one consulted
class Upper(ScriptRunner):
    def flatten_data_values(self, qr):
        return ('flattened', qr)


r = Upper('pass')
qr = make_qr([[1]])
r.querent = StubQuerent(qr)
assert r.get_query_result(marker, 'q') == ('flattened', qr)
r.querent = StubQuerent(5)
assert r.get_query_result(marker, 'q') == 5


# ---------------------------------------------------------------- 4. end to end on decoded messages
def decode(name):
    with open(os.path.join('tests', 'data', name), 'rb') as ins:
        return Decoder().process(ins.read(), file_path=name)


dq = DataQuerent(NodePathParser())
mq = MetadataQuerent(MetadataExprParser())

MESSAGES = {
    # uncompressed, 2 subsets, nested delayed replications
    'contrived.bufr': ['001001', '008002', '020011', '@[0] > 008002', '@[1:1] > 008002', '/105002/102000/008002',
                       '099099', '@[-1]/301001/001002', '@[::-1] > 031001'],
    # compressed, 7 subsets
    'ISMD01_OKPR.bufr': ['001001', '@[2:5] > 004001', '012101', '099099', '@[6]/307080/301090/301004/001015'],
    # compressed, 128 subsets
    'jaso_214.bufr': ['001007', '@[::16] > 005040', '@[127] > 002048'],
    # uncompressed, one subset, replications and operators
    'IUSK73_AMMC_182300.bufr': ['001001', '007004', '010009'],
}
for name, queries in sorted(MESSAGES.items()):
    message = decode(name)
    for q in queries:
        raw = list(dq.query(message, q).results.values())
        # by argument
        for level in (0, 1, 2, 4, 3, None):
            got = ScriptRunner('${%s}' % q, mode='eval', data_values_nest_level=level).run(message)
            assert same(got, expected(raw, 1 if level is None else level)), (name, q, level)
            n_checked += 1
        # by pragma, and the argument winning over the pragma
        for level in ('0', '1', '2', '4', '3', 'None', '[1]', '"2"', '2.0', 'True'):
            source = '#$ data_values_nest_level = %s\nv = ${%s}\nn = ${%%n_subsets}\n' % (level, q)
            runner = ScriptRunner(source)
            variables = runner.run(message)
            assert same(variables['v'], expected(raw, eval(level))), (name, q, level)
            assert variables['v'] == variables['PBK_0']
            assert variables['n'] == mq.query(message, '%n_subsets') == variables['PBK_1']  # metadata never flattened
            assert variables['PBK_BUFR_MESSAGE'] is message and variables['PBK_FILENAME'] == name
            assert runner.metadata_only is False
            variables = ScriptRunner(source, data_values_nest_level=2).run(message)
            assert same(variables['v'], expected(raw, 2)), (name, q, level)
            n_checked += 2
    # metadata only scripts come back as they are at every level
    for level in (0, 1, 2, 4):
        runner = ScriptRunner('[${%length}, ${%unexpanded_descriptors}, ${%n_subsets}]', mode='eval',
                              data_values_nest_level=level)
        assert runner.metadata_only is True
        assert runner.run(message) == [message.length.value, message.unexpanded_descriptors.value,
                                       message.n_subsets.value]
        n_checked += 1

# an error raised by the query itself comes through run() unchanged at every level
from pybufrkit.errors import QueryError
message = decode('IUSK73_AMMC_182300.bufr')
for level in (0, 1, 2, 4):
    try:
        ScriptRunner('${010009.A}', mode='eval', data_values_nest_level=level).run(message)
    except QueryError:
        pass
    else:
        raise AssertionError('QueryError expected')

# fixed expectations, written down by hand for the nested message
message = decode('contrived.bufr')
HAND = {
    4: [[[[[[1], [3]], 21], [[[5], [7], [9]], 22]]], [[[[[12], [10], [8]], 22], [[[6], [4]], 21]]]],
    2: [[1, 3, 21, 5, 7, 9, 22], [12, 10, 8, 22, 6, 4, 21]],
    1: [1, 3, 21, 5, 7, 9, 22, 12, 10, 8, 22, 6, 4, 21],
    0: 1,
}
for level, exp in HAND.items():
    assert ScriptRunner('${008002}', mode='eval', data_values_nest_level=level).run(message) == exp
for level, exp in {4: [], 2: [], 1: [], 0: None}.items():
    assert ScriptRunner('${@[1:1] > 008002}', mode='eval', data_values_nest_level=level).run(message) == exp
for level, exp in {4: [[], []], 2: [[], []], 1: [], 0: None}.items():
    assert ScriptRunner('${099099}', mode='eval', data_values_nest_level=level).run(message) == exp

print('refactor 6 demo: %d checks OK' % n_checked)
