import os, sys; sys.path.insert(0, os.getcwd())
"""
Differential demonstration for refactor 6 (Decoder.process: start signature, configuration transformers,
walk over the sections).

What the decoder reports is compared with an anatomy of the message worked out here from the octets
(lengths of the sections, presence of section 2, metadata) and with
a stream assembled here, whose pieces are therefore known.
"""
import contextlib
import io

import pybufrkit
from pybufrkit.decoder import Decoder, generate_bufr_message
from pybufrkit.errors import PyBufrKitError

assert os.path.dirname(os.path.abspath(pybufrkit.__file__)) == os.path.join(os.getcwd(), 'pybufrkit')

DATA = os.path.join('tests', 'data')
N_CHECKS = [0]


def check(cond, what):
    N_CHECKS[0] += 1
    if not cond:
        print('FAIL: ' + what)
        sys.exit(1)


def read(name):
    with open(os.path.join(DATA, name), 'rb') as ins:
        return ins.read()


def be(octets):
    return int.from_bytes(octets, 'big')


class Anatomy(object):
    """Of a message of edition 2, 3 or 4 that starts at the first octet of the given string."""

    def __init__(self, s):
        assert s[:4] == b'BUFR'
        self.length = be(s[4:7])
        self.edition = s[7]
        p = 8
        len1 = be(s[p:p + 3])
        if self.edition == 4:
            self.has_section2 = bool(s[p + 9] & 0x80)
            self.data_category = s[p + 10]
        else:
            self.has_section2 = bool(s[p + 7] & 0x80)
            self.data_category = s[p + 8]
        p += len1
        len2 = be(s[p:p + 3]) if self.has_section2 else 0
        p += len2
        len3 = be(s[p:p + 3])
        self.n_subsets = be(s[p + 4:p + 6])
        self.is_compressed = bool(s[p + 6] & 0x40)
        p += len3
        len4 = be(s[p:p + 3])
        p += len4
        self.info_length = p  # everything but section 5
        self.total = p + 4
        self.section_lengths = [8, len1, len2, len3, len4, 4]
        self.indices = [0, 1] + ([2] if self.has_section2 else []) + [3, 4, 5]


def values_of(m):
    return m.template_data.value.decoded_values_all_subsets


def indices_of(m):
    return [section.get_metadata('index') for section in m.sections]


def error_of(f, *args, **kwargs):
    try:
        f(*args, **kwargs)
    except Exception as e:
        return type(e).__name__, str(e)
    return None


decoder = Decoder()

names = ['207003', 'ISMD01_OKPR', 'IUSK73_AMMC_182300', 'amv2_87', 'b002_95', 'b005_89', 'contrived', 'g2nd_208',
         'jaso_214', 'mpco_217', 'profiler_european', 'rado_250', 'uegabe', 'prepbufr']
messages = {}
for name in names:
    s = read(name + '.bufr')
    s = s[s.find(b'BUFR'):]
    messages[name] = s[:Anatomy(s).total]

# an edition 2 message, made from an edition 3 one (same layout; the octet of the sub-centre becomes the high
# octet of the centre, which is zero here)
edition2 = messages['207003'][:7] + b'\x02' + messages['207003'][8:]
check(messages['207003'][8 + 4] == 0, 'sub-centre zero')
messages['edition2'] = edition2
names.append('edition2')

check(sorted(set(Anatomy(m).edition for m in messages.values())) == [2, 3, 4], 'editions 2, 3, 4')
check(set(Anatomy(m).has_section2 for m in messages.values()) == {True, False}, 'with and without section 2')
check(set(Anatomy(m).is_compressed for m in messages.values()) == {True, False}, 'compressed or not')

# ---------------------------------------------------------------------------------------------
# 1. One message: exact bytes, sections walked, metadata, values; every combination of the flags
# ---------------------------------------------------------------------------------------------
JUNK_BEFORE = b'\x01\r\r\n123\r\r\nISMD01 OKPR 231200 BUF\r\r\n'
JUNK_AFTER = b'\r\r\n\x03BUFR7777'

full_values = {}
for name in names:
    msg = messages[name]
    a = Anatomy(msg)
    check(a.total == len(msg), 'anatomy of ' + name)

    for info_only in (False, True):
        for ignore in (False, True):
            for mode in ('default signature', 'no signature', 'own signature'):
                if mode == 'default signature':
                    m = decoder.process(JUNK_BEFORE + msg + JUNK_AFTER, info_only=info_only,
                                        ignore_value_expectation=ignore)
                elif mode == 'no signature':
                    m = decoder.process(msg + JUNK_AFTER, start_signature=None, info_only=info_only,
                                        ignore_value_expectation=ignore)
                else:
                    m = decoder.process(b'BUFR' + JUNK_BEFORE + msg + JUNK_AFTER, start_signature=msg[:8],
                                        info_only=info_only, ignore_value_expectation=ignore)
                what = '{} info_only={} ignore={} {}'.format(name, info_only, ignore, mode)
                check(m.serialized_bytes == (msg[:a.info_length] if info_only else msg), 'bytes: ' + what)
                check(indices_of(m) == (a.indices[:-1] if info_only else a.indices), 'sections: ' + what)
                check((m.length.value, m.edition.value, m.data_category.value, m.n_subsets.value,
                       bool(m.is_compressed.value), bool(m.is_section2_presents.value)) ==
                      (a.length, a.edition, a.data_category, a.n_subsets, a.is_compressed, a.has_section2),
                      'metadata: ' + what)
                for section in m.sections:
                    if 'section_length' in section:
                        check(section.section_length.value == a.section_lengths[section.get_metadata('index')],
                              'section length: ' + what)
                if info_only:
                    check(error_of(lambda: m.template_data) is not None and error_of(lambda: m.template_data)[0] == 'AttributeError', 'no data: ' + what)
                else:
                    check(m.template_data.value._is_wired, 'wired: ' + what)
                    if name in full_values:
                        check(values_of(m) == full_values[name], 'values: ' + what)
                    else:
                        full_values[name] = values_of(m)
                expected = [None if parameter.expected is None else parameter.expected
                            for section in m.sections for parameter in section if parameter.expected is not None]
                check(expected == ([] if ignore else ([b'BUFR'] if info_only else [b'BUFR', b'7777'])),
                      'expectations: ' + what)

    m = decoder.process(msg, wire_template_data=False)
    check(not m.template_data.value._is_wired and values_of(m) == full_values[name], 'not wired: ' + name)
    m = decoder.process(msg, info_only=True, wire_template_data=True)
    check(error_of(lambda: m.template_data) is not None and error_of(lambda: m.template_data)[0] == 'AttributeError', 'info only, wire asked for: ' + name)

# ---------------------------------------------------------------------------------------------
# 2. Configuration and decoding alternate, section by section, and stop with the section that ends the message
# ---------------------------------------------------------------------------------------------
for name in ('contrived', 'b002_95', 'uegabe', '207003', 'edition2'):
    msg = messages[name]
    a = Anatomy(msg)
    for info_only in (False, True):
        d = Decoder()
        trace = []
        configure_section = d.section_configurer.configure_section
        process_section = d.process_section

        def traced_configure(bufr_message, section_index, configuration_transformers=()):
            section = configure_section(bufr_message, section_index, configuration_transformers)
            trace.append(('configure', section_index, section is not None,
                          [t.__name__ for t in configuration_transformers]))
            return section

        def traced_process(bufr_message, bit_reader, section):
            nbits = process_section(bufr_message, bit_reader, section)
            trace.append(('process', section.get_metadata('index'), nbits))
            return nbits

        d.section_configurer.configure_section = traced_configure
        d.process_section = traced_process
        try:
            for ignore in (False, True):
                del trace[:]
                d.process(msg + JUNK_AFTER, info_only=info_only, ignore_value_expectation=ignore)
                transformers = (['info_configuration'] if info_only else []) + (
                    ['ignore_value_expectation'] if ignore else [])
                expected = []
                for index in range(5 if info_only else 6):
                    present = index != 2 or a.has_section2
                    expected.append(('configure', index, present, transformers))
                    if present:
                        expected.append(('process', index, 8 * a.section_lengths[index]))
                check(trace == expected, 'walk of {} info_only={} ignore={}: {}'.format(name, info_only, ignore, trace))
        finally:
            del d.section_configurer.configure_section

# ---------------------------------------------------------------------------------------------
# 3. Errors
# ---------------------------------------------------------------------------------------------
msg = messages['contrived']
SIGNATURE_ERROR = ('PyBufrKitError', "Error: Cannot find start signature: b'BUFR'")
check(error_of(decoder.process, b'') == SIGNATURE_ERROR, 'empty string')
check(error_of(decoder.process, b'BUF' + msg[4:]) == SIGNATURE_ERROR, 'no signature')
check(error_of(decoder.process, JUNK_BEFORE, info_only=True) == SIGNATURE_ERROR, 'no signature, info only')
check(error_of(decoder.process, msg, start_signature=b'XYZ') ==
      ('PyBufrKitError', "Error: Cannot find start signature: b'XYZ'"), 'own signature missing')
# not looked for: the junk is taken for the message
check(error_of(decoder.process, b'\r\r\n\n' + msg, start_signature=None) ==
      ('PyBufrKitError', "Error: Value (b'\\r\\r\\n\\n') not as expected (b'BUFR')"), 'junk taken for the message')
check(error_of(decoder.process, b'\r\r\n\n' + msg, start_signature=None, info_only=True) ==
      ('PyBufrKitError', "Error: Value (b'\\r\\r\\n\\n') not as expected (b'BUFR')"), 'junk taken for the message, info')
# a signature that is found but is not the beginning of a message
check(error_of(decoder.process, b'ZCZC' + msg, start_signature=b'ZC') ==
      ('PyBufrKitError', "Error: Value (b'ZCZC') not as expected (b'BUFR')"), 'found, but no message')
# an empty signature is found at once
check(decoder.process(msg, start_signature=b'').serialized_bytes == msg, 'empty signature')

# the end signature
broken = msg[:-1] + b'8'
check(error_of(decoder.process, broken) == ('PyBufrKitError', "Error: Value (b'7778') not as expected (b'7777')"), 'bad end')
check(decoder.process(broken, ignore_value_expectation=True).serialized_bytes == broken, 'bad end, ignored')
check(decoder.process(broken, info_only=True).serialized_bytes == broken[:-4], 'bad end, not read')
# the start signature, not looked for
broken = b'BUFX' + msg[4:]
for info_only in (False, True):
    check(error_of(decoder.process, broken, start_signature=None, info_only=info_only) ==
          ('PyBufrKitError', "Error: Value (b'BUFX') not as expected (b'BUFR')"), 'bad start')
    m = decoder.process(broken, start_signature=None, info_only=info_only, ignore_value_expectation=True)
    check(m.serialized_bytes == (broken[:-4] if info_only else broken), 'bad start, ignored')

# truncated at every octet: same kind of failure as recorded here from the octets alone
a = Anatomy(msg)
for cut_at in range(len(msg)):
    for info_only in (False, True):
        error = error_of(decoder.process, msg[:cut_at], info_only=info_only)
        if cut_at < 4:
            check(error == SIGNATURE_ERROR, 'cut at {}'.format(cut_at))
        elif info_only and cut_at >= a.info_length:
            check(error is None, 'info only does not need the end section (cut at {})'.format(cut_at))
        else:
            check(error is not None and error[0] in ('BitReadError', 'PyBufrKitError', 'ReadError'),
                  'cut at {}: {}'.format(cut_at, error))

# a section declared shorter than what is read of it
short = msg[:8] + b'\x00\x00\x05' + msg[11:]
check(error_of(decoder.process, short) == error_of(decoder.process, short, info_only=True) and
      error_of(decoder.process, short)[0] == 'PyBufrKitError' and
      'Read exceeds declared section 1 length: 5' in error_of(decoder.process, short)[1], 'short section 1')

# an error while a section is being configured reaches the caller as it is
d = Decoder()
configure_section = d.section_configurer.configure_section
for error in (PyBufrKitError('no such section'), KeyError(3)):
    def failing_configure(bufr_message, section_index, configuration_transformers=()):
        if section_index == 3:
            raise error
        return configure_section(bufr_message, section_index, configuration_transformers)
    d.section_configurer.configure_section = failing_configure
    try:
        d.process(msg)
    except Exception as e:
        check(e is error, 'error of the configuration')
    else:
        check(False, 'error of the configuration swallowed')
    finally:
        del d.section_configurer.configure_section

# an error while a section is decoded reaches the caller as it is, whatever it is
d = Decoder()
for error in (PyBufrKitError('bad section'), ValueError('bad'), StopIteration()):
    def failing_process(bufr_message, bit_reader, section):
        raise error
    d.process_section = failing_process
    try:
        d.process(msg)
    except Exception as e:
        check(e is error, 'error of the decoding of a section')
    else:
        check(False, 'error of the decoding swallowed')

# ---------------------------------------------------------------------------------------------
# 4. A stream: the pieces, with data decoded and with metadata only
# ---------------------------------------------------------------------------------------------
separators = [b'', b'\r\r\n', JUNK_BEFORE, b'BUF', b'\x00\xff7777BU', b'BUFBUF', b'7777']
stream_names = [n for n in names if n != 'prepbufr']
pieces = [messages[n] for n in stream_names]
chunks = [JUNK_BEFORE]
for i, piece in enumerate(pieces):
    chunks.append(piece)
    chunks.append(separators[i % len(separators)])
stream = b''.join(chunks)

got = list(generate_bufr_message(Decoder(), stream))
check([m.serialized_bytes for m in got] == pieces, 'pieces of the stream, data decoded')
check([values_of(m) for m in got] == [full_values[n] for n in stream_names], 'values of the stream')
got = list(generate_bufr_message(Decoder(), stream, info_only=True))
check([m.serialized_bytes for m in got] == pieces, 'pieces of the stream, metadata only')
check(b''.join(m.serialized_bytes for m in got) == b''.join(pieces), 'concatenation')
for compiled in (None, 10):
    got = list(generate_bufr_message(Decoder(compiled_template_cache_max=compiled), stream,
                                     filter_expr='${%edition} == 4 and not ${%is_compressed}'))
    expected = [n for n in stream_names if Anatomy(messages[n]).edition == 4 and not Anatomy(messages[n]).is_compressed]
    check(len(expected) >= 3 and [m.serialized_bytes for m in got] == [messages[n] for n in expected], 'filtered stream')
    check([values_of(m) for m in got] == [full_values[n] for n in expected], 'values of the filtered stream')

# the file with two invalid messages
s = read('multi_invalid_messages.bufr')
err = io.StringIO()
with contextlib.redirect_stderr(err):
    got = list(generate_bufr_message(Decoder(), s, continue_on_error=True))
    got_info = list(generate_bufr_message(Decoder(), s, continue_on_error=True, info_only=True))
# three signatures, at 0, 522 and 616, declared lengths 522, 94 and 119; only the second can be decoded
check([s.find(b'BUFR'), s.find(b'BUFR', 4), s.find(b'BUFR', 526), s.find(b'BUFR', 620), len(s)] == [0, 522, 616, -1, 735],
      'the three signatures')
check([m.serialized_bytes for m in got] == [s[522:616]], 'one good message')
check([m.serialized_bytes for m in got_info] == [s[0:522], s[522:616], s[616:735]], 'three sets of metadata')
check(err.getvalue().count('Continuing on next message and ignoring error') == 2, 'two bad ones')
check(error_of(lambda: list(generate_bufr_message(Decoder(), s)))[0] == 'UnknownDescriptor', 'and an error otherwise')
check(error_of(lambda: list(generate_bufr_message(Decoder(), s[522:])))[0] == 'BitReadError', 'the other error')

print('refactor 6 demo: {} checks passed'.format(N_CHECKS[0]))
