import os, sys; sys.path.insert(0, os.getcwd())

import itertools
import json

from pybufrkit.encoder import Encoder
from pybufrkit.decoder import Decoder
from pybufrkit.errors import PyBufrKitError
from pybufrkit.renderer import NestedJsonRenderer

# --------------------------------------------------------------------------
# Harness: build a message from descriptor ids and values, encode it, decode it
# both by walking the template and through the compiled template, and check
# that the three of them agree on the bitmap links.
ENCODER = Encoder(ignore_declared_length=True)
DECODERS = [Decoder(), Decoder(compiled_template_cache_max=16)]
RENDERER = NestedJsonRenderer()


def make_json(ids, subsets, compressed):
    return [["BUFR", 0, 3],
            [18, 0, 0, 98, 0, False, "0000000", 21, 202, 15, 0, 12, 11, 2, 0, 0, 0],
            [10, "00000000", len(subsets), True, compressed, "000000", list(ids)],
            [0, "00000000", [list(s) for s in subsets]],
            ["7777"]]


def run(ids, subsets, compressed=False):
    """Return (links of all subsets, the decoded message)."""
    if not isinstance(subsets[0], (list, tuple)):
        subsets = [subsets]
    encoded = ENCODER.process(json.dumps(make_json(ids, subsets, compressed)))
    decoded = [d.process(encoded.serialized_bytes) for d in DECODERS]
    links = [m.template_data.value.bitmap_links_all_subsets for m in [encoded] + decoded]
    assert links[0] == links[1] == links[2], links
    values = [m.template_data.value.decoded_values_all_subsets for m in decoded]
    assert values[0] == values[1]
    assert RENDERER.render(decoded[0]) == RENDERER.render(decoded[1])
    assert len(links[1]) == len(subsets)
    return [dict(x) for x in links[1]], decoded[0]


def error_of(ids, subsets, compressed=False):
    """Name of the exception raised for the message, None if there is none."""
    try:
        run(ids, subsets, compressed)
    except Exception as e:
        return type(e).__name__
    return None


def owners(message, idx_subset=0):
    """
    From the hierarchical view: [(owner id, owner value, [attribute, ...]), ...]
    for every element (not marker) node with attributes, in document order, where each attribute is
    (id, description, value, meaning) and meaning is (id, value) or None.
    """
    found = []

    def attr(a):
        meaning = None
        if 'attributes' in a:
            assert len(a['attributes']) == 1
            meaning = (a['attributes'][0]['id'], a['attributes'][0]['value'])
        return a['id'], a['description'], a['value'], meaning

    def walk(nodes):
        for n in nodes:
            if isinstance(n, list):
                walk(n)
                continue
            if 'factor' in n:
                walk([n['factor']])
            if 'attributes' in n and n['id'].isdigit():
                found.append((n['id'], n['value'], [attr(a) for a in n['attributes']]))
            if 'members' in n:
                walk(n['members'])

    walk(RENDERER.render(message)[3][2]['value'][idx_subset])
    return found


def flat(message, idx_subset=0):
    return [str(d) for d in message.template_data.value.decoded_descriptors_all_subsets[idx_subset]]


# --------------------------------------------------------------------------
# Part A: Coder.process_bitmapped_descriptor and the class 33 linkage of
# Coder.process_element_descriptor on their own, with a recording coder.
from pybufrkit.coder import Coder, CoderState, QA_INFO_NA, QA_INFO_WAITING, QA_INFO_PROCESSING
from pybufrkit.descriptors import ElementDescriptor, MarkerDescriptor, OperatorDescriptor


def element(id_, nbits=12, refval=0, scale=1, unit='K'):
    return ElementDescriptor(id_, 'E{}'.format(id_), unit, scale, refval, nbits, 'C', 1, 3)


class RecordingCoder(Coder):
    """Records what would be read or written instead of doing it."""

    def __init__(self):
        self.calls = []

    def process_numeric(self, state, bit_operator, descriptor, nbits, scale_powered, refval):
        self.calls.append(('numeric', descriptor, nbits, scale_powered, refval))
        state.decoded_descriptors.append(descriptor)

    def process_codeflag(self, state, bit_operator, descriptor, nbits):
        self.calls.append(('codeflag', descriptor, nbits))
        state.decoded_descriptors.append(descriptor)

    def process_string(self, state, bit_operator, descriptor, nbytes):
        self.calls.append(('string', descriptor, nbytes))
        state.decoded_descriptors.append(descriptor)


def state_with(elements, bitmap):
    state = CoderState(False, 1)
    state.decoded_descriptors.extend(elements)
    state.mark_back_reference_boundary()
    state.decoded_descriptors.append(OperatorDescriptor(224000))
    state.build_bitmapped_descriptors(bitmap)
    return state


ELEMENTS = [element(12001, nbits=12, refval=0, scale=1),
            element(10004, nbits=14, refval=0, scale=-1),
            element(12101, nbits=16, refval=-5, scale=2),
            element(1015, nbits=160, unit='CCITT IA5'),
            element(20003, nbits=9, unit='CODE TABLE'),
            element(7004, nbits=1, refval=0, scale=0)]

for marker_id, prefix in ((223255, 'T'), (224255, 'F'), (225255, 'D'), (232255, 'R'), (241255, 'M')):
    coder = RecordingCoder()
    state = state_with(ELEMENTS, [0, 1, 0, 0, 0, 0])
    owners_expected = [0, 2, 3, 4, 5]
    for k, idx_owner in enumerate(owners_expected):
        position = len(state.decoded_descriptors)
        assert coder.process_bitmapped_descriptor(state, None, OperatorDescriptor(marker_id)) is None
        # linked, at the position the marker value takes, to the k-th zero bit
        assert state.bitmap_links == dict((7 + j, owners_expected[j]) for j in range(k + 1))
        assert len(state.decoded_descriptors) == position + 1
        md, ed = state.decoded_descriptors[-1], ELEMENTS[idx_owner]
        assert type(md) is MarkerDescriptor and md is not ed
        assert md.marker_id == marker_id and str(md) == '{}{:05d}'.format(prefix, ed.id)
        assert (md.id, md.name, md.unit, md.scale) == (ed.id, ed.name, ed.unit, ed.scale)
        assert (md.crex_unit, md.crex_scale, md.crex_nchars) == (ed.crex_unit, ed.crex_scale, ed.crex_nchars)
        if marker_id == 225255:
            assert md.nbits == ed.nbits + 1 and md.refval == -2 ** ed.nbits
            assert type(md.nbits) is int and type(md.refval) is int
        else:
            assert md.nbits == ed.nbits and md.refval == ed.refval
        # the element itself is never modified
        assert (ed.nbits, ed.refval) == {12001: (12, 0), 10004: (14, 0), 12101: (16, -5), 1015: (160, 0),
                                         20003: (9, 0), 7004: (1, 0)}[ed.id]
    kinds = [c[0] for c in coder.calls]
    assert kinds == ['numeric', 'numeric', 'string', 'codeflag', 'numeric'], kinds
    numeric = [c for c in coder.calls if c[0] == 'numeric']
    if marker_id == 225255:
        assert [(c[2], c[3], c[4]) for c in numeric] == [(13, 10.0, -4096), (17, 100.0, -65536), (2, 1.0, -2)]
    else:
        assert [(c[2], c[3], c[4]) for c in numeric] == [(12, 10.0, 0), (16, 100.0, -5), (1, 1.0, 0)]
    # a string is processed in whole bytes (161 // 8 == 160 // 8), a code table in bits
    assert coder.calls[2][2] == 20
    assert coder.calls[3][2] == (10 if marker_id == 225255 else 9)
    # the sixth value has no zero bit left
    links_before = dict(state.bitmap_links)
    try:
        coder.process_bitmapped_descriptor(state, None, OperatorDescriptor(marker_id))
    except StopIteration:
        assert state.bitmap_links == links_before and len(state.decoded_descriptors) == 12
    else:
        raise AssertionError('expected StopIteration')

# no bitmap at all
state = CoderState(False, 1)
try:
    RecordingCoder().process_bitmapped_descriptor(state, None, OperatorDescriptor(225255))
except TypeError:
    assert state.bitmap_links == {} and state.decoded_descriptors == []
else:
    raise AssertionError('expected TypeError')

# the operators 201, 202, 207 in force apply to the marker value as to any element
coder = RecordingCoder()
state = state_with(ELEMENTS[:1], [0])
state.nbits_offset, state.scale_offset = 3, 1
coder.process_bitmapped_descriptor(state, None, OperatorDescriptor(225255))
assert coder.calls == [('numeric', state.decoded_descriptors[-1], 16, 100.0, -4096)]

# class 33 linkage: table of (status before, class 33?) -> (status after, linked?)
TRANSITIONS = {
    (QA_INFO_NA, True): (QA_INFO_NA, False),
    (QA_INFO_NA, False): (QA_INFO_NA, False),
    (QA_INFO_WAITING, True): (QA_INFO_PROCESSING, True),
    (QA_INFO_WAITING, False): (QA_INFO_WAITING, False),  # e.g. the bits of the bitmap
    (QA_INFO_PROCESSING, True): (QA_INFO_PROCESSING, True),
    (QA_INFO_PROCESSING, False): (QA_INFO_NA, False),
    (7, True): (7, False),
    (7, False): (7, False),
}
QA = element(33007, nbits=7, scale=0, unit='%')
OTHERS = [element(12001), element(31031, nbits=1, scale=0, unit='FLAG TABLE'), element(32001), element(34001),
          MarkerDescriptor.from_element_descriptor(element(12001), 224255)]
for (before, is33), (after, linked) in sorted(TRANSITIONS.items()):
    for descriptor in ([QA, MarkerDescriptor.from_element_descriptor(QA, 223255)] if is33 else OTHERS):
        coder = RecordingCoder()
        state = state_with(ELEMENTS, [1, 1, 0, 1, 1, 0])
        state.status_qa_info_follows = before
        coder.process_element_descriptor(state, None, descriptor)
        assert state.status_qa_info_follows == after, (before, is33, state.status_qa_info_follows)
        assert state.bitmap_links == ({7: 2} if linked else {}), (before, is33, state.bitmap_links)
        assert state.decoded_descriptors[-1] is descriptor and len(coder.calls) == 1
        if linked:  # and the next one goes to the next zero bit
            coder.process_element_descriptor(state, None, descriptor)
            assert state.bitmap_links == {7: 2, 8: 5}
            try:
                coder.process_element_descriptor(state, None, descriptor)
            except StopIteration:
                # nothing is processed for the value that has no owner
                assert state.bitmap_links == {7: 2, 8: 5} and len(coder.calls) == 2
                assert state.status_qa_info_follows == QA_INFO_PROCESSING
            else:
                raise AssertionError('expected StopIteration')

# waiting with no bitmap defined: the state has moved on when the link fails
state = CoderState(False, 1)
state.status_qa_info_follows = QA_INFO_WAITING
try:
    RecordingCoder().process_element_descriptor(state, None, QA)
except TypeError:
    assert state.status_qa_info_follows == QA_INFO_PROCESSING and state.decoded_descriptors == []
else:
    raise AssertionError('expected TypeError')

# --------------------------------------------------------------------------
# Part B: whole messages
B = [12001, 10004, 11001]
BV = [280.5, 101000.0, 120]

# the four kinds of marker values over one reused bitmap; 012001: 12 bits,
# scale 1, reference 0, hence differences of 13 bits and reference -4096, i.e.
# from -409.6 to 409.4; 011001: 9 bits -> 10 bits, -512 .. 510
ids = B + [223000, 236000, 101003, 31031, 223255, 223255,
           224000, 237000, 8023, 224255, 224255,
           225000, 237000, 8024, 225255, 225255,
           232000, 237000, 232255, 232255]
for d1, d2 in ((-409.6, -512), (409.4, 510), (0.0, 0), (-0.1, 1), (None, None)):
    vals = BV + [0, 0, 0, 1, 0, 270.0, 90,
                 0, 0, 4, 281.0, 100,
                 0, 0, 2, d1, d2,
                 0, 0, 279.0, 110]
    for compressed, n in ((False, 1), (False, 2), (True, 1), (True, 2)):
        links, msg = run(ids, [vals] * n, compressed)
        assert links == [{8: 0, 9: 2, 13: 0, 14: 2, 18: 0, 19: 2, 22: 0, 23: 2}] * n, links
        descriptors = msg.template_data.value.decoded_descriptors_all_subsets[n - 1]
        assert [str(descriptors[i]) for i in (8, 9, 13, 14, 18, 19, 22, 23)] == \
            ['T12001', 'T11001', 'F12001', 'F11001', 'D12001', 'D11001', 'R12001', 'R11001']
        assert [(descriptors[i].nbits, descriptors[i].refval) for i in (0, 2)] == [(12, 0), (9, 0)]
        for i in (8, 13, 22):
            assert (descriptors[i].nbits, descriptors[i].refval, descriptors[i].scale) == (12, 0, 1)
            assert (descriptors[i + 1].nbits, descriptors[i + 1].refval, descriptors[i + 1].scale) == (9, 0, 0)
        assert (descriptors[18].nbits, descriptors[18].refval, descriptors[18].scale) == (13, -4096, 1)
        assert (descriptors[19].nbits, descriptors[19].refval, descriptors[19].scale) == (10, -512, 0)
        assert msg.template_data.value.decoded_values_all_subsets[n - 1] == vals
        assert owners(msg, n - 1) == [
            ('012001', 280.5, [('T12001', '223255', 270.0, None),
                               ('F12001', '224255', 281.0, ('008023', 4)),
                               ('D12001', '225255', d1, ('008024', 2)),
                               ('R12001', '232255', 279.0, None)]),
            ('011001', 120, [('T11001', '223255', 90, None),
                             ('F11001', '224255', 100, ('008023', 4)),
                             ('D11001', '225255', d2, ('008024', 2)),
                             ('R11001', '232255', 110, None)])], owners(msg, n - 1)

# a difference that needs the extra bit cannot be written as an ordinary value
assert error_of(B + [224000, 101003, 31031, 8023, 224255], BV + [0, 0, 1, 1, 4, -0.1]) is not None

# class 33 after 222000: the run of class 33 values ends with the first
# descriptor of another class; a class 33 value before the operator is an ordinary
# element (which the bitmap can refer to like any other)
ids = [33007] + B + [222000, 101004, 31031, 33007, 33007, 12001, 10004]
vals = [99] + BV + [0, 1, 0, 1, 0, 60, 70, 285.0, 100500.0]
for compressed, n in ((False, 1), (False, 2), (True, 2)):
    links, msg = run(ids, [vals] * n, compressed)
    assert links == [{9: 1, 10: 3}] * n, links
    assert owners(msg, n - 1) == [('012001', 280.5, [('033007', 'PER CENT CONFIDENCE', 60, None)]),
                                  ('011001', 120, [('033007', 'PER CENT CONFIDENCE', 70, None)])]

# two kinds of quality information share the zero bits in order; one more is an error
ids = B + [222000, 101003, 31031, 33002, 33007]
links, msg = run(ids, BV + [0, 0, 1, 0, 1, 75])
assert links == [{7: 0, 8: 2}]
assert owners(msg) == [('012001', 280.5, [('033002', 'QUALITY INFORMATION', 1, None)]),
                       ('011001', 120, [('033007', 'PER CENT CONFIDENCE', 75, None)])], owners(msg)
assert error_of(ids + [33007], BV + [0, 0, 1, 0, 1, 75, 76]) == 'StopIteration'
assert error_of(B + [222000, 33007], BV + [0, 50]) == 'TypeError'
assert error_of(B + [225255], BV + [1]) == 'TypeError'
assert error_of(B + [225000, 101003, 31031, 8024, 225255, 225255], BV + [0, 1, 0, 1, 2, 1.0, 1.0]) == 'StopIteration'

print('demo 3 OK')
