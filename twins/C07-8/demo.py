import os, sys; sys.path.insert(0, os.getcwd())
"""
Differential demonstration for refactor 8 (TemplateData: how nodes are made, registered under
their index, nested into composite nodes, and how a node gets its attributes).

Part 1 drives ValueDataNode.add_attribute and TemplateData directly (hand made flat lists:
too short, links that point to something that is not registered, a missing replication factor)
and checks the structure that is left and the exception that comes out.

Part 2 builds messages by hand (nested fixed and delayed replications, sequences, all 0/1
patterns of bitmaps of every length over elements inside replications, bitmaps that designate
a delayed replication factor, chains of 222000 / 224000 / 225000 / 223000 / 232000 that share,
recall, cancel and redefine bitmaps, associated fields, compressed and uncompressed) and compares
the flat lists, the links, the nesting of the nodes, the attributes of every node and the rendered
hierarchical view with a small reference model written here (REFERENCE MODEL below) that knows
nothing about the library.
"""
import itertools
import json
import math

from pybufrkit.decoder import Decoder
from pybufrkit.encoder import Encoder
from pybufrkit.renderer import NestedJsonRenderer
from pybufrkit.descriptors import ElementDescriptor, MarkerDescriptor
from pybufrkit.templatedata import (TemplateData, ValueDataNode, NoValueDataNode, SequenceNode, FixedReplicationNode,
                                    DelayedReplicationNode, QualityInfoNode)

N_CHECKS = [0]


def check(cond, what):
    N_CHECKS[0] += 1
    if not cond:
        print('FAILED: {}'.format(what))
        sys.exit(1)


# ---------------------------------------------------------------------------------------
# REFERENCE MODEL
# ---------------------------------------------------------------------------------------
# Table B as far as the demonstration needs it: id -> (nbits, scale, refval, kind)
# kind: N numeric, C code / flag table, S string
TABLE_B = {
    1001: (7, 0, 0, 'N'), 1002: (10, 0, 0, 'N'), 1015: (160, 0, 0, 'S'),
    4001: (12, 0, 0, 'N'), 4002: (4, 0, 0, 'N'), 4003: (6, 0, 0, 'N'),
    4004: (5, 0, 0, 'N'), 4005: (6, 0, 0, 'N'),
    10004: (14, -1, 0, 'N'), 11001: (9, 0, 0, 'N'), 11002: (12, 1, 0, 'N'),
    12001: (12, 1, 0, 'N'),
    8023: (6, 0, 0, 'C'), 8024: (6, 0, 0, 'C'),
    31000: (1, 0, 0, 'N'), 31001: (8, 0, 0, 'N'), 31002: (16, 0, 0, 'N'),
    31021: (6, 0, 0, 'C'), 31031: (1, 0, 0, 'C'),
    33007: (7, 0, 0, 'N'),
}
TABLE_D = {
    301001: [1001, 1002],
    301011: [4001, 4002, 4003],
    301012: [4004, 4005],
}
MARKER_PREFIX = {223255: 'T', 224255: 'F', 225255: 'D', 232255: 'R'}
MARKER_KIND = {223255: 'SUB', 224255: 'FOS', 225255: 'DIF', 232255: 'REP'}


def parse(ids):
    """Unexpanded descriptors -> tree of ('E', id) / ('O', id) / ('S', id, members) /
    ('R', id, n, factor_id or None, members)"""
    ids = list(ids)
    out = []
    while ids:
        i = ids.pop(0)
        f = i // 100000
        if f == 0:
            out.append(('E', i))
        elif f == 2:
            out.append(('O', i))
        elif f == 3:
            out.append(('S', i, parse(TABLE_D[i])))
        else:
            x, y = i // 1000 % 100, i % 1000
            factor = ids.pop(0) if y == 0 else None
            members, ids = ids[:x], ids[x:]
            out.append(('R', i, y, factor, parse(members)))
    return out


class Model(object):
    """
    One subset. `bits` are the values the 031031 take (in order), `counts` the values of the
    delayed replication factors (in order). All other values are invented here.
    """

    def __init__(self, ids, bits, counts, seed):
        self.bits, self.counts, self.seed = list(bits), list(counts), seed
        self.slots = []  # (label, nbits, value, tolerance)
        self.kinds = []  # 'E' exact element, or something else
        self.ids = []
        self.links = {}
        self.attrs = {}  # owner index -> [(kind, attribute index, meaning index)]
        self.marker_facts = {}  # index -> (nbits, refval)
        # operators
        self.d201 = self.d202 = 0
        self.n203 = 0
        self.refvals = {}
        self.assoc = []
        self.n206 = 0
        self.y207 = 0
        self.n208 = 0
        self.n221 = 0
        # 222000: None, 'waiting', 'running'
        self.qa = None
        # bitmaps
        self.pending = None  # None, 'indicator', 'bits'
        self.n_bits = 0
        self.for_reuse = False
        self.boundary = 0
        self.back_refs = None
        self.reusable = None
        self.designated = None  # iterator over the indices the zero bits designate
        # hierarchical view
        self.v_qa = False
        self.v_fos = self.v_dif = False
        self.m_assoc = self.m_fos = self.m_dif = None
        # nesting: index of a value, ('N', id), ('S', id, members), ('R', id, index of the factor, members)
        self.tree = self.out = []
        self.walk(parse(ids))
        assert self.out is self.tree

    # -- values
    def put(self, label, nbits, kind, id_, value=None, scale=0, refval=0, numeric=True):
        j = len(self.slots)
        tolerance = 0
        if value is None:
            if numeric:
                raw = (7 * j + 3 * self.seed + 1) % (2 ** nbits - 1)
                value = raw + refval
                if scale != 0:
                    value = value / 10.0 ** scale
                    tolerance = 0.5 / 10.0 ** scale
            else:
                value = ('%d%d' % (j, self.seed))[-(nbits // 8):].ljust(nbits // 8).encode('ascii')
        self.slots.append((label, nbits, value, tolerance))
        self.kinds.append(kind)
        self.ids.append(id_)
        return j

    # -- bitmaps
    def finish_bitmap(self):
        bitmap = [s[2] for s in self.slots[-self.n_bits:]]
        if self.for_reuse:
            self.reusable = bitmap
        self.designate(bitmap)
        self.pending = None

    def designate(self, bitmap):
        if not self.back_refs:
            exact = [j for j in range(self.boundary) if self.kinds[j] == 'E']
            self.back_refs = exact[len(exact) - len(bitmap):] if len(bitmap) <= len(exact) else exact
        assert len(self.back_refs) == len(bitmap), 'the demonstration only builds well formed messages'
        self.designated = iter([j for j, bit in zip(self.back_refs, bitmap) if bit == 0])

    def link(self):
        owner = next(self.designated)
        self.links[len(self.slots)] = owner
        return owner

    # -- walking
    def walk(self, members):
        for m in members:
            if self.n221:
                self.n221 -= 1
                if m[0] == 'E' and not (1 <= m[1] // 1000 % 100 <= 9 or m[1] // 1000 % 100 == 31):
                    self.out.append(('N', m[1]))
                    continue
            if self.n203 and m[0] == 'E':
                self.refvals[m[1]] = v = -(len(self.slots) + 1)
                self.out.append(self.put('%06d' % m[1], self.n203, 'E', m[1], value=v))
                continue
            if self.n206:
                self.out.append(self.put('S%05d' % m[1], self.n206, 'skipped', m[1]))
                self.n206 = 0
                continue
            if self.pending == 'indicator':
                if m[1] == 237000:
                    self.pending = None
                else:
                    self.for_reuse = m[1] == 236000
                    self.pending, self.n_bits = 'bits', 0
            elif self.pending == 'bits':
                if m[1] == 31031:
                    self.n_bits += 1
                elif self.n_bits:
                    self.finish_bitmap()
            if m[0] == 'E':
                self.out.append(self.element(m[1]))
            elif m[0] == 'O':
                j = self.operator(m[1])
                self.out.append(('N', m[1]) if j is None else j)
            else:
                outer, inner = self.out, []
                self.out = inner
                if m[0] == 'S':
                    node = ('S', m[1], inner)
                    self.walk(m[2])
                else:
                    n, factor = m[2], None
                    if m[3] is not None:
                        n = self.counts.pop(0)
                        factor = self.element(m[3], value=n)
                    node = ('R', m[1], factor, inner)
                    for _ in range(n):
                        self.walk(m[4])
                self.out = outer
                outer.append(node)

    def element(self, id_, value=None, marker=None, owner=None):
        nbits, scale, refval, kind = TABLE_B[id_]
        x = id_ // 1000 % 100
        if id_ == 31031 and marker is None:
            value = self.bits.pop(0)
        has_assoc = bool(self.assoc) and x != 31
        if has_assoc:
            a = self.put('A%05d' % id_, sum(self.assoc), 'assoc', id_)
        if marker is None:
            if x == 33:
                if self.qa == 'waiting':
                    self.qa = 'running'
                if self.qa == 'running':
                    self.link()
            elif self.qa == 'running':
                self.qa = None
        else:
            if self.qa == 'running':
                self.qa = None
            if marker == 225255:
                refval, nbits = -2 ** nbits, nbits + 1
        label = '%06d' % id_ if marker is None else '%s%05d' % (MARKER_PREFIX[marker], id_)
        if kind == 'S':
            j = self.put(label, (self.n208 or nbits // 8) * 8, 'E' if marker is None else 'marker', id_, numeric=False)
        elif kind == 'C':
            j = self.put(label, nbits, 'E' if marker is None else 'marker', id_, value=value)
        else:
            nbits = nbits + self.d201 + (10 * self.y207 + 2) // 3
            scale = scale + self.d202 + self.y207
            refval = self.refvals.get(id_, refval) * 10 ** self.y207
            j = self.put(label, nbits, 'E' if marker is None else 'marker', id_,
                         value=value, scale=scale, refval=refval)
        if marker is not None:
            self.marker_facts[j] = (nbits, refval)
            return j
        # the hierarchical view
        if has_assoc:
            self.attrs.setdefault(j, []).append(('ASSOC', a, self.m_assoc))
        elif x == 33 and self.v_qa:
            if j in self.links:
                self.attrs.setdefault(self.links[j], []).append(('QA', j, None))
            else:
                self.v_qa = False
        elif id_ == 31021 and self.assoc:
            self.m_assoc = j
        elif id_ == 8023 and self.v_fos:
            self.m_fos, self.v_fos = j, False
        elif id_ == 8024 and self.v_dif:
            self.m_dif, self.v_dif = j, False
        return j

    def operator(self, id_):
        code, operand = id_ // 1000, id_ % 1000
        if code == 201:
            self.d201 = operand - 128 if operand else 0
        elif code == 202:
            self.d202 = operand - 128 if operand else 0
        elif code == 203:
            self.n203 = 0 if operand == 255 else operand
            if operand == 0:
                self.refvals = {}
        elif code == 204:
            if operand:
                self.assoc.append(operand)
            else:
                self.assoc.pop()
        elif code == 206:
            self.n206 = operand
        elif code == 207:
            self.y207 = operand
        elif code == 208:
            self.n208 = operand
        elif code == 221:
            self.n221 = operand
        elif code in (222, 223, 224, 225, 232):
            if code != 222:
                self.v_qa = False
            if operand == 0:
                self.pending = 'indicator'
                self.boundary = len(self.slots)
                if code == 222:
                    self.qa = 'waiting'
                    self.v_qa = True
                elif code == 224:
                    self.v_fos = True
                elif code == 225:
                    self.v_dif = True
                return self.put('%06d' % id_, 0, 'op', id_, value=0)
            else:
                assert not self.assoc, 'the demonstration does not put markers under 204YYY'
                owner = self.link()
                j = self.element(self.ids[owner], marker=id_)
                meaning = {224255: self.m_fos, 225255: self.m_dif}.get(id_)
                self.attrs.setdefault(owner, []).append((MARKER_KIND[id_], j, meaning))
                return j
        elif code == 235:
            self.v_qa = False
            self.back_refs = self.reusable = None
        elif code == 236:
            return self.put('%06d' % id_, 0, 'op', id_, value=0)
        elif code == 237:
            if operand == 0:
                assert self.reusable is not None
                self.designate(self.reusable)
            else:
                self.reusable = None
            return self.put('%06d' % id_, 0, 'op', id_, value=0)
        else:
            raise AssertionError(id_)


# ---------------------------------------------------------------------------------------
# Library side
# ---------------------------------------------------------------------------------------
NODE_KIND = {'AssociatedFieldNode': 'ASSOC', 'QualityInfoNode': 'QA', 'SubstitutionNode': 'SUB',
             'FirstOrderStatsNode': 'FOS', 'DifferenceStatsNode': 'DIF', 'ReplacementNode': 'REP'}


def attrs_of_nodes(nodes, out):
    for node in nodes:
        if hasattr(node, 'factor'):
            attrs_of_nodes([node.factor], out)
        if hasattr(node, 'members'):
            attrs_of_nodes(node.members, out)
        # The nodes of the marker operators are met here as well, what they carry is their meaning
        if hasattr(node, 'attributes') and type(node).__name__ not in NODE_KIND:
            out[node.index] = [
                (NODE_KIND[type(a).__name__], a.index,
                 a.attributes[0].index if hasattr(a, 'attributes') else None)
                for a in node.attributes]
            for a in node.attributes:
                check(len(getattr(a, 'attributes', [])) <= 1, 'an attribute has at most its meaning')
    return out


def tree_of_nodes(nodes):
    out = []
    for node in nodes:
        if type(node) is SequenceNode:
            out.append(('S', node.descriptor.id, tree_of_nodes(node.members)))
        elif type(node) is FixedReplicationNode:
            out.append(('R', node.descriptor.id, None, tree_of_nodes(node.members)))
        elif type(node) is DelayedReplicationNode:
            check(type(node.factor) is ValueDataNode, 'the factor is a plain value node')
            out.append(('R', node.descriptor.id, node.factor.index, tree_of_nodes(node.members)))
        elif type(node) is NoValueDataNode:
            out.append(('N', node.descriptor.id))
        else:
            check(isinstance(node, ValueDataNode), 'a value node')
            out.append(node.index)
    return out


def rendered_attributes(rendered, out):
    """Document order list of (id, value, [(id, value, [(id, value)])]) of the rendered nodes with attributes"""
    for x in rendered:
        if isinstance(x, list):
            rendered_attributes(x, out)
            continue
        if 'factor' in x:
            rendered_attributes([x['factor']], out)
        if 'members' in x:
            rendered_attributes(x['members'], out)
        # The nodes of the marker operators are met here as well, what they carry is their meaning
        if 'attributes' in x and x['id'][0].isdigit():
            out.append((x['id'], x['value'], [
                (a['id'], a['value'], [(b['id'], b['value']) for b in a.get('attributes', [])])
                for a in x['attributes']]))
    return out


def same_value(got, slot):
    label, nbits, value, tolerance = slot
    if isinstance(value, bytes) or value is None or got is None:
        return got == value
    return abs(got - value) <= tolerance


def message_json(ids, models, compressed):
    return [["BUFR", 0, 4],
            [22, 0, 89, 0, 0, False, "0000000", 0, 2, 0, 13, 0, 2007, 11, 21, 12, 0, 0],
            [0, "00000000", len(models), True, compressed, "000000", list(ids)],
            [0, "00000000", [[s[2] for s in m.slots] for m in models]],
            ["7777"]]


def run_case(name, ids, per_subset, compressed=False):
    """per_subset: list of (bits, counts)"""
    models = [Model(ids, bits, counts, seed) for seed, (bits, counts) in enumerate(per_subset)]
    js = message_json(ids, models, compressed)
    for cache in (None, 10):
        encoder = Encoder(compiled_template_cache_max=cache)
        decoder = Decoder(compiled_template_cache_max=cache)
        # twice: the second time the compiled template comes out of the cache
        for _ in range(2 if cache else 1):
            encoded = encoder.process(json.loads(json.dumps(js, default=lambda b: b.decode('ascii'))))
            td = encoded.template_data.value
            check(td.bitmap_links_all_subsets == [m.links for m in models],
                  '{}: encoder links {} != {}'.format(name, td.bitmap_links_all_subsets, [m.links for m in models]))
            decoded = decoder.process(encoded.serialized_bytes)
            td = decoded.template_data.value
            check(td.bitmap_links_all_subsets == [m.links for m in models],
                  '{}: decoder links {} != {}'.format(name, td.bitmap_links_all_subsets, [m.links for m in models]))
            check(len(td.decoded_descriptors_all_subsets) == len(models), name + ': number of subsets')
            if not compressed:
                nbits = sum(s[1] for m in models for s in m.slots)
                length = [p.value for p in decoded.sections[-2] if p.name == 'section_length'][0]
                check(length == 4 + int(math.ceil(nbits / 8.0)),
                      '{}: section 4 is {} octets for {} bits'.format(name, length, nbits))
            for k, m in enumerate(models):
                descriptors = td.decoded_descriptors_all_subsets[k]
                values = td.decoded_values_all_subsets[k]
                check([str(d) for d in descriptors] == [s[0] for s in m.slots],
                      '{}: subset {} descriptors {} != {}'.format(name, k, descriptors, [s[0] for s in m.slots]))
                check(len(values) == len(m.slots) and all(same_value(v, s) for v, s in zip(values, m.slots)),
                      '{}: subset {} values {} != {}'.format(name, k, values, [s[2] for s in m.slots]))
                for j, (w, r) in m.marker_facts.items():
                    d = descriptors[j]
                    check(type(d) is MarkerDescriptor and d.id == m.ids[j], name + ': marker descriptor')
                    if str(d).startswith('D'):
                        owner = descriptors[m.links[j]]
                        check((d.nbits, d.refval) == (owner.nbits + 1, -2 ** owner.nbits),
                              name + ': 225255 is coded with width+1 and reference -2^width')
                check(tree_of_nodes(td.decoded_nodes_all_subsets[k]) == m.tree,
                      '{}: subset {} nesting {} != {}'.format(
                          name, k, tree_of_nodes(td.decoded_nodes_all_subsets[k]), m.tree))
                check(attrs_of_nodes(td.decoded_nodes_all_subsets[k], {}) == m.attrs,
                      '{}: subset {} attributes {} != {}'.format(
                          name, k, attrs_of_nodes(td.decoded_nodes_all_subsets[k], {}), m.attrs))
            # The hierarchical view as rendered
            rendered = NestedJsonRenderer().render(decoded)[-2][-1]['value']
            for k, m in enumerate(models):
                expected = []
                for owner in sorted(m.attrs):
                    expected.append((m.slots[owner][0], owner, [
                        (m.slots[a][0], a, [] if mm is None else [(m.slots[mm][0], mm)])
                        for _, a, mm in m.attrs[owner]]))
                got = rendered_attributes(rendered[k], [])
                check(len(got) == len(expected), '{}: rendered subset {}: {} != {}'.format(name, k, got, expected))
                for (gid, gv, gattrs), (eid, ej, eattrs) in zip(got, expected):
                    ok = gid == eid and same_value(gv, m.slots[ej]) and len(gattrs) == len(eattrs)
                    for (aid, av, ameaning), (bid, bj, bmeaning) in zip(gattrs, eattrs):
                        ok = ok and aid == bid and same_value(av, m.slots[bj])
                        ok = ok and [x[0] for x in ameaning] == [x[0] for x in bmeaning]
                        ok = ok and all(same_value(x[1], m.slots[y[1]]) for x, y in zip(ameaning, bmeaning))
                    check(ok, '{}: rendered subset {}: {} != {}'.format(name, k, got, expected))
    return models


# ---------------------------------------------------------------------------------------
# Part 1: ValueDataNode / TemplateData directly
# ---------------------------------------------------------------------------------------
def same_objects(xs, ys):
    return len(xs) == len(ys) and all(x is y for x, y in zip(xs, ys))


def part1():
    # -- a node gets the attributes field only when it gets an attribute
    d = ElementDescriptor(12001, 'T', 'K', 1, 0, 12, 'C', 0, 3)
    node = ValueDataNode(d, 3)
    check(not hasattr(node, 'attributes') and set(vars(node)) == {'descriptor', 'index'}, 'no attributes yet')
    a, b = QualityInfoNode(d, 7), ValueDataNode(d, 9)
    check(node.add_attribute(a) is None, 'add_attribute returns nothing')
    first = node.attributes
    check(type(first) is list and same_objects(first, [a]), 'first attribute')
    check(set(vars(node)) == {'descriptor', 'index', 'attributes'}, 'fields of the node')
    node.add_attribute(b)
    node.add_attribute(a)
    check(node.attributes is first and same_objects(first, [a, b, a]), 'attributes are appended to the same list')
    check(not hasattr(a, 'attributes') and not hasattr(b, 'attributes'), 'attributes of the attributes untouched')
    b.add_attribute(node)
    check(same_objects(b.attributes, [node]) and b.attributes is not first, 'one list per node')

    # -- a message to take the flat lists from
    ids = [301001, 204004, 31021, 12001, 204000, 103000, 31001, 11001, 101002, 11002,
           222000, 101000, 31001, 31031, 101000, 31001, 33007]
    #  exact elements   0  1  2  4  5  6  7  8  9 10 11   (3 is the associated field, 5 the factor)
    pattern = (1, 1, 1, 0, 0, 1, 1, 0, 1, 1, 1)
    model = Model(ids, pattern, [2, 11, 3], 0)
    check(model.links == {26: 4, 27: 5, 28: 8}, 'the model itself: {}'.format(model.links))
    check(model.tree == [('S', 301001, [0, 1]), ('N', 204004), 2, 4, ('N', 204000),
                         ('R', 103000, 5, [6, ('R', 101002, None, [7, 8]), 9, ('R', 101002, None, [10, 11])]),
                         12, ('R', 101000, 13, list(range(14, 25))), ('R', 101000, 25, [26, 27, 28])],
          'the model itself: {}'.format(model.tree))
    check(model.attrs == {4: [('ASSOC', 3, 2), ('QA', 26, None)], 5: [('QA', 27, None)], 8: [('QA', 28, None)]},
          'the model itself: {}'.format(model.attrs))
    decoded = Decoder().process(Encoder().process(message_json(ids, [model], False)).serialized_bytes,
                                wire_template_data=False)
    td = decoded.template_data.value
    template = td.template
    descriptors = td.decoded_descriptors_all_subsets[0]
    values = td.decoded_values_all_subsets[0]
    links = td.bitmap_links_all_subsets[0]
    check(not td._is_wired and td.decoded_nodes_all_subsets == [[]] and td.decoded_nodes is td.decoded_nodes_all_subsets[0],
          'not wired on request')
    check(links == model.links and len(descriptors) == 29, 'links as decoded')

    def make(descriptors=descriptors, values=values, links=links, n=1, compressed=False):
        return TemplateData(template, compressed, [list(descriptors) for _ in range(n)],
                            [list(values) for _ in range(n)], [dict(links) for _ in range(n)])

    # (a) complete: wired once
    for n, compressed in ((1, False), (3, False), (2, True)):
        t = make(n=n, compressed=compressed)
        if compressed:
            check(all(x is t.decoded_nodes_all_subsets[0] for x in t.decoded_nodes_all_subsets), 'one list when compressed')
        t.wire()
        check(t._is_wired and not hasattr(t, 'index_to_node'), 'wired, registry released')
        nodes_before = [list(x) for x in t.decoded_nodes_all_subsets]
        t.wire()
        check(all(same_objects(x, y) for x, y in zip(nodes_before, t.decoded_nodes_all_subsets)), 'not wired twice')
        for k in range(n):
            check(tree_of_nodes(t.decoded_nodes_all_subsets[k]) == model.tree, 'hand made, nesting of subset {}'.format(k))
            check(attrs_of_nodes(t.decoded_nodes_all_subsets[k], {}) == model.attrs, 'hand made, attributes')
        last = 0 if compressed else n - 1
        check(t.decoded_nodes is t.decoded_nodes_all_subsets[last], 'current list is the top level one again')
        factor = t.decoded_nodes[5].factor
        check(type(factor) is ValueDataNode and factor.index == 5 and
              all(x is not factor for x in t.decoded_nodes[5].members), 'the factor is not a member')
        check([type(x).__name__ for x in factor.attributes] == ['QualityInfoNode'] and
              factor.attributes[0] is t.decoded_nodes[8].members[1], 'the attribute of the factor is the node met later')

    # (b) the flat lists end inside the inner replication
    t = make(descriptors=descriptors[:8])
    partial = [('S', 301001, [0, 1]), ('N', 204004), 2, 4, ('N', 204000)]
    for attempt in (1, 2, 3):
        try:
            t.wire()
            check(False, 'wiring lists that are too short')
        except IndexError:
            pass
        check(not t._is_wired, 'a failed wiring does not count')
        # nothing is undone: composite nodes are added when they are complete, the attempts add up
        check(tree_of_nodes(t.decoded_nodes_all_subsets[0]) == partial * attempt,
              'left at the top level: {}'.format(tree_of_nodes(t.decoded_nodes_all_subsets[0])))
        check(t.decoded_nodes is not t.decoded_nodes_all_subsets[0] and tree_of_nodes(t.decoded_nodes) == [7],
              'current list is the innermost one: {}'.format(tree_of_nodes(t.decoded_nodes)))
        check(sorted(t.index_to_node) == [0, 1, 2, 4, 5, 6, 7], 'registered: {}'.format(sorted(t.index_to_node)))
        check(all(t.index_to_node[i].index == i and type(t.index_to_node[i]) is ValueDataNode for i in t.index_to_node),
              'registered under their own index')
        check([x.index for x in t.index_to_node[4].attributes] == [3] and
              [x.index for x in t.index_to_node[4].attributes[0].attributes] == [2], 'associated field and its meaning')

    # (c) a link that points to what is not registered: the associated field, a composite node has no index at all
    for target in (3, 29, -1):
        t = make(links={26: target})
        try:
            t.wire()
            check(False, 'link to something unknown')
        except KeyError as e:
            check(e.args == (target,), 'the key that is missing')
        check(not t._is_wired and tree_of_nodes(t.decoded_nodes) == [26] and type(t.decoded_nodes[0]) is QualityInfoNode,
              'the node has been added before its owner is looked for')
        check(tree_of_nodes(t.decoded_nodes_all_subsets[0]) == model.tree[:-1], 'left at the top level')
        check(sorted(t.index_to_node) == [i for i in range(27) if i != 3], 'registered: {}'.format(sorted(t.index_to_node)))
    # a link to the operator's own value is fine (it is a value node)
    t = make(links={26: 12})
    t.wire()
    check(attrs_of_nodes(t.decoded_nodes, {}) == {4: [('ASSOC', 3, 2)], 12: [('QA', 26, None)]}, 'attribute of 222000')
    # without links the 033007 are ordinary values
    t = make(links={})
    t.wire()
    check(attrs_of_nodes(t.decoded_nodes, {}) == {4: [('ASSOC', 3, 2)]} and tree_of_nodes(t.decoded_nodes) == model.tree and
          all(type(x) is ValueDataNode for x in t.decoded_nodes[8].members), 'no links')

    # (d) a replication factor without value
    for bad, error in ((None, TypeError), ('2', TypeError), (1.0, TypeError)):
        t = make(values=values[:5] + [bad] + values[6:])
        try:
            t.wire()
            check(False, 'factor {!r}'.format(bad))
        except error:
            pass
        check(not t._is_wired and t.decoded_nodes == [] and t.decoded_nodes is not t.decoded_nodes_all_subsets[0],
              'current list is the one of the replication')
        check(tree_of_nodes(t.decoded_nodes_all_subsets[0]) == partial and sorted(t.index_to_node) == [0, 1, 2, 4, 5],
              'the factor is registered before its value is used')
    # a smaller factor than decoded: the rest of the flat list is taken for what follows in the template
    shifted = list(values)
    shifted[5], shifted[7], shifted[10] = 0, 2, 0
    t = make(values=shifted, links={})
    t.wire()
    check(tree_of_nodes(t.decoded_nodes)[5:] == [('R', 103000, 5, []), 6, ('R', 101000, 7, [8, 9]), ('R', 101000, 10, [])],
          'factor 0: {}'.format(tree_of_nodes(t.decoded_nodes)))

    # (e) no subset at all
    t = TemplateData(template, False, [], [], [])
    check(t.decoded_nodes == [] and t.decoded_nodes_all_subsets == [], 'no subset')
    t.wire()
    check(t._is_wired and t.decoded_nodes == [], 'no subset, wired')


# ---------------------------------------------------------------------------------------
# Part 2: messages
# ---------------------------------------------------------------------------------------
def chunks(xs, n):
    xs = list(xs)
    return [xs[i:i + n] for i in range(0, len(xs), n)]


def part2():
    # A. nested fixed replications and sequences before the operator, every pattern of every length
    ids = [301001, 103002, 12001, 101002, 11002, 301011,
           222000, 101000, 31001, 31031, 101000, 31001, 33007]
    patterns = [p for n in range(1, 8) for p in itertools.product((0, 1), repeat=n)]
    patterns += [tuple((i >> k) & 1 for k in range(11)) for i in range(0, 2048, 89)]
    for group in chunks(patterns, 3):
        run_case('nested fixed', ids, [(p, [len(p), p.count(0)]) for p in group])

    # B. delayed replications (the factors are elements the bitmap can designate), chains of operators
    ids = [1001,
           104000, 31001, 12001, 101000, 31001, 11001,
           222000, 236000, 101000, 31002, 31031, 101000, 31001, 33007,
           224000, 237000, 8023, 101000, 31001, 224255,
           225000, 237000, 8024, 101000, 31001, 225255,
           237255, 235000,
           # over the last three elements: a factor, 008024, a factor
           232000, 101003, 31031, 101000, 31001, 232255,
           235000, 1002, 11002,
           223000, 236000, 101002, 31031, 101000, 31001, 223255,
           224000, 237000, 8023, 101000, 31001, 224255]

    def subset_b(c0, inner, p, p3, p2):
        z, z3, z2 = p.count(0), p3.count(0), p2.count(0)
        return p + p3 + p2, [c0] + list(inner) + [len(p), z, z, z, z3, z2, z2]

    p3s = list(itertools.product((0, 1), repeat=3))
    p2s = list(itertools.product((0, 1), repeat=2))
    for c0, inner in ((2, [1, 2]), (1, [0]), (0, []), (3, [2, 0, 1])):
        n = 2 + sum(2 + c for c in inner)
        patterns = [(0,) * n, (1,) * n, tuple(i % 2 for i in range(n)), tuple((i + 1) % 2 for i in range(n))]
        patterns += [tuple(int(i != k) for i in range(n)) for k in range(n)]
        patterns += [p for m in (1, 2) for p in itertools.product((0, 1), repeat=m)]
        subsets = [subset_b(c0, inner, p, p3s[i % 8], p2s[i % 4]) for i, p in enumerate(patterns)]
        for group in chunks(subsets, 4):
            run_case('delayed, chains', ids, group)
        # compressed: one structure for all the subsets
        for one in subsets[2:5]:
            run_case('delayed, chains, compressed', ids, [one] * 3, compressed=True)
    # subsets of different shapes in one message
    run_case('delayed, different shapes', ids, [
        subset_b(2, [1, 2], (0, 1, 1, 0, 1, 1, 0, 1, 0), (0, 1, 0), (0, 0)),
        subset_b(0, [], (0, 0), (1, 1, 1), (1, 0)),
        subset_b(3, [2, 0, 1], (1, 0, 0), (0, 0, 0), (0, 1)),
        subset_b(1, [0], (1, 0, 0, 1), (1, 0, 1), (1, 1))])

    # C. associated fields (nested 204YYY) and bitmap attributes on the same elements
    ids = [204004, 31021, 12001, 11001, 204003, 31021, 11002, 204000, 10004, 204000, 1002,
           222000, 236000, 101000, 31001, 31031, 101000, 31001, 33007,
           224000, 237000, 8023, 101000, 31001, 224255]
    patterns = list(itertools.product((0, 1), repeat=7)) + [(0,), (1, 0), (0, 0, 1), (0, 1, 0, 0, 1)]
    for group in chunks(patterns, 4):
        run_case('associated fields', ids, [(p, [len(p), p.count(0), p.count(0)]) for p in group])
    run_case('associated fields, compressed', ids, [((0, 1, 0, 0, 1, 0, 0), [7, 5, 5])] * 2, compressed=True)


if __name__ == '__main__':
    part1()
    part2()
    print('OK ({} checks)'.format(N_CHECKS[0]))
