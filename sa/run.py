#!/venv/bin/python
"""
Entry point of every check:  run.py <property id> --tier quick|thorough
exit 0 property's rules hold (known findings listed), 1 VIOLATION, 2 ANALYSIS-ERROR.
"""
from __future__ import print_function

import argparse
import importlib
import json
import os
import sys
import traceback

sys.path.insert(0, os.path.dirname(os.path.dirname(os.path.abspath(__file__))))

from sa.model import AnalysisError, Repo  # noqa: E402
from sa.report import Check  # noqa: E402

LEVELS = {'C15': 'model_checking', 'C18': 'model_checking'}


def main(argv=None):
    ap = argparse.ArgumentParser()
    ap.add_argument('prop')
    ap.add_argument('--tier', default=os.environ.get('VERIF_TIER') or 'quick', choices=('quick', 'thorough'))
    ap.add_argument('--repo', default=None)
    ap.add_argument('--replay', default=None)
    ap.add_argument('--no-selftest', action='store_true')
    ns = ap.parse_args(argv)
    prop = ns.prop.upper()
    try:
        seed = int(os.environ.get('VERIF_SEED') or 0)
    except ValueError:
        seed = 0
    try:
        repo = Repo(ns.repo)
        mod = importlib.import_module('sa.rules.' + prop.lower())
        check = Check(prop, ns.tier, LEVELS.get(prop, 'other'), seed)
        check.no_selftest = ns.no_selftest or bool(ns.repo) or bool(os.environ.get('VERIF_NO_SELFTEST'))
        mod.run(repo, check)
        from sa.rules import shared7
        shared7.extra(repo, check, prop)
        if ns.tier == 'thorough' and not check.no_selftest and not ns.replay:
            # self-validation of the rules on scratch copies (reported in the evidence; never changes the verdict on /repo)
            from sa import selftest
            st = selftest.run_for(prop)
            check.coverage_extra = dict(getattr(check, 'coverage_extra', {}) or {})
            check.coverage_extra['self_validation'] = st
            print('self-validation: %d/%d mutants detected, %d/%d twins silent, %d/%d seeded changes detected, %d/%d stored refactors silent%s%s' % (
                st.get('mutants_detected', 0), st.get('mutants', 0), st.get('twins_silent', 0), st.get('twins', 0),
                st.get('seeded_detected', 0), st.get('seeded', 0), st.get('stored_twins_silent', 0), st.get('stored_twins', 0),
                '; survivors %s' % st['survivors'] if st.get('survivors') else '', '; noisy twins %s' % st['noisy_twins'] if st.get('noisy_twins') else ''))
        if ns.replay:
            with open(ns.replay) as f:
                want = json.load(f)['finding']['ident']
            hit = [f for rr in check.results for f in rr.findings if f.ident == want]
            if hit:
                for f in hit:
                    print('%s: rule %s instance %s\n    %s' % (f.where, f.rule, f.key, f.message))
                    if f.witness is not None:
                        print('    witness: %s' % json.dumps(f.witness, default=repr)[:2000])
                print('VIOLATION property=%s replay=%s' % (prop, ns.replay))
                return 1
            print('replay: finding %s no longer present on %s' % (want, repo.root))
            return 0
        return check.finish(repo)
    except AnalysisError as e:
        print('ANALYSIS-ERROR property=%s: %s' % (prop, e))
        return 2
    except Exception:
        print('ANALYSIS-ERROR property=%s: internal error\n%s' % (prop, traceback.format_exc()))
        return 2


if __name__ == '__main__':
    sys.exit(main())
