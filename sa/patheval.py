"""
sa.patheval -- path-sensitive constant propagation with events over `ast`.

A small abstract store is pushed along every path of a function body; resolved
callees are inlined; a branch whose condition the store does not determine
forks.  Forking is implemented by re-evaluating the body under an explicit
choice sequence (an oracle), so a path is always evaluated start to end with
its own fresh store and mutation needs no copying.

This is constant propagation in the tradition of metal/xgcc checkers, not
symbolic execution: no path condition is accumulated and no solver is used.
The code under analysis is never imported or run -- only its syntax tree is
walked, over abstract values (constants, Top, expression DAGs, abstract
strings, objects with abstract fields).
"""
from __future__ import print_function

import ast

from sa.model import AnalysisError, FuncInfo, NOCONST, PKG, STDLIB_CONSTS, norm


# ---------------------------------------------------------------------------
# abstract values
# ---------------------------------------------------------------------------
class Top(object):
    __slots__ = ('kind',)

    def __init__(self, kind='any'):
        self.kind = kind

    def __repr__(self):
        return 'Top(%s)' % self.kind

    def __eq__(self, o):
        return isinstance(o, Top) and o.kind == self.kind

    def __ne__(self, o):
        return not self.__eq__(o)

    def __hash__(self):
        return hash(('Top', self.kind))


TOP = Top()


class Sym(object):
    """Node of an expression DAG (global value numbering style)."""
    __slots__ = ('op', 'args', '_r')

    def __init__(self, op, *args):
        self.op, self.args = op, args
        self._r = None

    def __repr__(self):
        if self._r is None:
            self._r = self.op if not self.args else '%s(%s)' % (self.op, ','.join(map(repr, self.args)))
        return self._r

    def __eq__(self, o):
        return isinstance(o, Sym) and repr(self) == repr(o)

    def __ne__(self, o):
        return not self.__eq__(o)

    def __hash__(self):
        return hash(repr(self))

    def leaves(self):
        if not self.args:
            return {self.op}
        out = set()
        for a in self.args:
            if isinstance(a, Sym):
                out |= a.leaves()
            elif isinstance(a, (list, tuple)):
                for x in a:
                    if isinstance(x, Sym):
                        out |= x.leaves()
        return out

    def ops(self):
        out = set()
        if self.args:
            out.add(self.op)
        for a in self.args:
            if isinstance(a, Sym):
                out |= a.ops()
        return out


class Tok(object):
    """Abstract string: E empty, M '-', D -?digits+, X any other non-empty."""
    __slots__ = ('c',)

    def __init__(self, c):
        self.c = c

    def __repr__(self):
        return 'Tok(%s)' % self.c

    def __eq__(self, o):
        return isinstance(o, Tok) and o.c == self.c

    def __ne__(self, o):
        return not self.__eq__(o)

    def __hash__(self):
        return hash(('Tok', self.c))

    def add_char(self, ch):
        if ch.isdigit():
            return Tok({'E': 'D', 'M': 'D', 'D': 'D', 'X': 'X'}[self.c])
        if ch == '-':
            return Tok({'E': 'M', 'M': 'X', 'D': 'X', 'X': 'X'}[self.c])
        return Tok('X')


class Obj(object):
    """Object of a (repository or synthetic) class with abstract fields."""

    def __init__(self, cls, fields=None):
        self.cls = cls
        self.fields = fields if fields is not None else {}

    def __repr__(self):
        return 'Obj(%s,%r)' % (self.cls, self.fields)

    def key(self):
        return (self.cls, tuple(sorted((k, freeze(v)) for k, v in self.fields.items())))


class _Unbound(object):
    def __repr__(self):
        return '<unbound>'

    def __deepcopy__(self, memo):
        return self

    def __copy__(self):
        return self


UNBOUND = _Unbound()


class Native(object):
    """Rule-provided object: attribute reads and method calls are answered by
    Python code of the analyser (a model of e.g. the bit writer's position)."""

    def get_attr(self, name, interp, frame):
        return Top('attr:' + name)

    def call_method(self, name, args, kwargs, interp, frame, node):
        return Top('call:' + name)

    def truth(self):
        return True


class Regex(Native):
    """A compiled regular expression (re.compile on a concrete pattern): search / match / fullmatch / findall / finditer / sub / split
    on a concrete subject are answered by the real `re`.  A rule-side subject (a scripted stream) takes part by offering
    regex_subject() -> bytes/str and, optionally, regex_searched(interp, method, pos, match)."""

    def __init__(self, pattern, flags=0):
        import re as _re
        self.rx = _re.compile(pattern, flags)

    def __repr__(self):
        return 'Regex(%r)' % (self.rx.pattern,)

    def get_attr(self, name, interp, frame):
        if name == 'pattern':
            return self.rx.pattern
        if name == 'flags':
            return self.rx.flags
        return NativeMethod(self, name)

    def call_method(self, name, args, kwargs, interp, frame, node):
        if not args:
            raise Raise('TypeError', node, interp.where(node, frame))
        subj = args[-1] if name in ('sub', 'subn') and len(args) >= 2 else args[0]
        hook = None
        if isinstance(subj, Native) and hasattr(subj, 'regex_subject'):
            hook = subj
            subj = subj.regex_subject()
        rest = list(args[1:])
        if not isinstance(subj, (str, bytes)) or kwargs or not all(isinstance(a, int) and not isinstance(a, bool) for a in rest if name not in ('sub', 'subn')):
            raise Unsupported('regular expression %s.%s on a subject / arguments that are not concrete' % (self, name))
        if isinstance(subj, str) != isinstance(self.rx.pattern, str):
            raise Raise('TypeError', node, interp.where(node, frame))
        if name in ('search', 'match', 'fullmatch'):
            mo = getattr(self.rx, name)(subj, *rest)
            if hook is not None and hasattr(hook, 'regex_searched'):
                hook.regex_searched(interp, name, rest[0] if rest else 0, mo)
            return None if mo is None else Match(mo)
        if name == 'findall':
            return [list(x) if False else x for x in self.rx.findall(subj, *rest)]
        if name == 'finditer':
            return GenList(Match(mo) for mo in self.rx.finditer(subj, *rest))
        if name == 'split':
            return self.rx.split(subj, *rest)
        if name == 'sub' and len(args) >= 2 and isinstance(args[0], (str, bytes)):
            return self.rx.sub(args[0], subj)
        if name == 'sub' and len(args) == 2 and isinstance(args[0], (FuncRef, NativeMethod, PartialCall)):
            # a replacement function: called for every match, in order, with the match object; its results are spliced in
            out, last = [], 0
            for mo in self.rx.finditer(subj):
                out.append(subj[last:mo.start()])
                rep = interp.apply('<replacement>', args[0], [Match(mo)], {}, node, frame)
                if not isinstance(rep, type(subj)):
                    raise Unsupported('replacement function of %s.sub returns %r' % (self, rep))
                out.append(rep)
                last = mo.end()
            out.append(subj[last:])
            return subj[:0].join(out)
        raise Unsupported('regular expression method %s' % name)


class Match(Native):
    def __init__(self, mo):
        self.mo = mo

    def __repr__(self):
        return 'Match(%r)' % (self.mo.span(),)

    def get_attr(self, name, interp, frame):
        if name in ('pos', 'endpos', 'lastindex', 'lastgroup'):
            return getattr(self.mo, name)
        return NativeMethod(self, name)

    def call_method(self, name, args, kwargs, interp, frame, node):
        if name in ('start', 'end', 'span', 'group', 'groups', 'groupdict', 'expand') and not kwargs and all(isinstance(a, (int, str)) for a in args):
            try:
                v = getattr(self.mo, name)(*args)
            except (IndexError, TypeError) as exc:
                raise Raise(type(exc).__name__, node, interp.where(node, frame))
            return list(v) if False else v
        raise Unsupported('match object method %s' % name)


class Stub(Native):
    """A scripted collaborator: `methods` maps a method name to fn(interp, args, kwargs, node, frame) -> value; `attrs` holds plain
    attribute values.  Rules use it instead of matching call *text* (`decoder.process`), so that the names of the variables that
    hold the collaborator do not matter."""

    def __init__(self, label, methods=None, attrs=None, strict=False, chain=False):
        self.label, self.methods, self.attrs, self.strict, self.chain = label, dict(methods or {}), dict(attrs or {}), strict, chain

    def __repr__(self):
        return 'Stub(%s)' % self.label

    def get_attr(self, name, interp, frame):
        if name in self.attrs:
            return self.attrs[name]
        if name in self.methods:
            return NativeMethod(self, name)
        if self.strict:
            raise Raise('AttributeError', None, 'stub %s has no attribute %s' % (self.label, name))
        return Top('attr:' + name)

    def call_method(self, name, args, kwargs, interp, frame, node):
        if name in ('__enter__',):
            return self
        if name in ('__exit__', 'close', 'flush'):
            return None
        if name in self.methods:
            return self.methods[name](interp, list(args), dict(kwargs), node, frame)
        if self.strict:
            raise Raise('AttributeError', node, interp.where(node, frame))
        interp.event('stub-call', self.label, name)
        if self.chain:
            return self         # builder-style API (argparse): every call hands back an object of the same kind
        return Top('call:' + name)


class Counter(Native):
    """itertools.count(start, step): answers next() and drives a `for` loop until the body leaves it (bounded)."""

    def __init__(self, start=0, step=1):
        self.v, self.step = start, step

    def __repr__(self):
        return 'count(%r)' % (self.v,)

    def next_value(self, interp, frame, node):
        v = self.v
        self.v += self.step
        return v


class LazyIter(Native):
    """A scripted lazy iterator (a generator the rule provides): `items` are handed out one by one by next_value(); an item that is a
    Raise instance is raised at that point (the generator fails after having yielded the earlier items).  `on_next(k)` is called
    before the k-th item is produced, so that a rule sees when the consumer asks for more."""

    def __init__(self, items, on_next=None, label='lazy'):
        self.items, self.k, self.on_next, self.label = list(items), 0, on_next, label

    def __repr__(self):
        return 'LazyIter(%s@%d)' % (self.label, self.k)

    def next_value(self, interp, frame, node):
        if self.on_next is not None:
            self.on_next(self.k)
        if self.k >= len(self.items):
            raise Raise('StopIteration', node, interp.where(node, frame) if node is not None else '?')
        v = self.items[self.k]
        self.k += 1
        if isinstance(v, Raise):
            raise v
        return v


class EnumIter(Native):
    """enumerate() over a lazy iterator."""

    def __init__(self, inner, start=0):
        self.inner, self.i = inner, start

    def __repr__(self):
        return 'enumerate(%r)' % (self.inner,)

    def next_value(self, interp, frame, node):
        v = self.inner.next_value(interp, frame, node)
        i = self.i
        self.i += 1
        return (i, v)


class RepList(list):
    """What a comprehension over an abstract iterable yields: one representative element standing for every repetition (the same
    convention as the body of a `for` over an abstract iterable, evaluated once between loop brackets)."""


class GenList(list):
    """The items of a generator expression, evaluated eagerly (an iterator: next() consumes)."""


class Deque(Native):
    """collections.deque over concrete items."""

    def __init__(self, items=()):
        self.items = list(items)

    def __repr__(self):
        return 'deque(%r)' % (self.items,)

    def truth(self):
        return len(self.items) > 0

    def call_method(self, name, args, kwargs, interp, frame, node):
        it = self.items
        if name == 'append':
            it.append(args[0])
        elif name == 'appendleft':
            it.insert(0, args[0])
        elif name in ('extend', 'extendleft'):
            src = args[0].items if isinstance(args[0], Deque) else args[0]
            if not isinstance(src, (list, tuple)):
                raise Unsupported('deque.%s with a non-concrete iterable' % name)
            if name == 'extend':
                it.extend(src)
            else:
                for x in src:           # one at a time on the left: the argument ends up reversed
                    it.insert(0, x)
        elif name in ('pop', 'popleft'):
            if not it:
                raise Raise('IndexError', node, interp.where(node, frame))
            return it.pop() if name == 'pop' else it.pop(0)
        elif name == 'clear':
            del it[:]
        elif name == 'rotate':
            n = args[0] if args else 1
            if it and isinstance(n, int):
                n %= len(it)
                it[:] = it[-n:] + it[:-n]
        elif name == 'copy':
            return Deque(it)
        elif name == 'reverse':
            it.reverse()
        else:
            return Top('call:deque.' + name)
        return None


class FuncRef(object):
    def __init__(self, fi, bound=None, pre_args=()):
        self.fi, self.bound, self.pre_args = fi, bound, tuple(pre_args)

    def __repr__(self):
        return 'FuncRef(%s)' % self.fi.qualname


class PartialCall(object):
    """functools.partial over a builtin (partial(next, iterator)): calling it applies the builtin to the stored arguments."""

    def __init__(self, target, pre_args):
        self.target, self.pre_args = target, tuple(pre_args)

    def __repr__(self):
        return 'partial(%r, %s)' % (self.target, ', '.join(repr(a) for a in self.pre_args))


class ClassRef(object):
    def __init__(self, name):
        self.name = name

    def __repr__(self):
        return 'ClassRef(%s)' % self.name

    def __eq__(self, o):
        return isinstance(o, ClassRef) and o.name == self.name

    def __ne__(self, o):
        return not self.__eq__(o)

    def __hash__(self):
        return hash(('ClassRef', self.name))


class ModRef(object):
    def __init__(self, name):
        self.name = name

    def __repr__(self):
        return 'ModRef(%s)' % self.name


class NativeMethod(object):
    def __init__(self, recv, name):
        self.recv, self.name = recv, name


class UnknownMethod(object):
    """`recv.attr` where recv is not modelled; calling it yields Top."""

    def __init__(self, recv, name, text):
        self.recv, self.name, self.text = recv, name, text


def freeze(v):
    if isinstance(v, Obj):
        return v.key()
    if isinstance(v, list):
        return ('list',) + tuple(freeze(x) for x in v)
    if isinstance(v, tuple):
        return ('tuple',) + tuple(freeze(x) for x in v)
    if isinstance(v, dict):
        return ('dict',) + tuple(sorted(((repr(k), freeze(x)) for k, x in v.items())))
    if isinstance(v, (FuncRef, Native, NativeMethod, UnknownMethod, ModRef)):
        return repr(v)
    return v


class Raise(Exception):
    def __init__(self, cls, node=None, where=None, value=None):
        Exception.__init__(self, cls)
        self.cls, self.node, self.where, self.value = cls, node, where, value


class Unsupported(AnalysisError):
    pass


class PathLimit(AnalysisError):
    pass


class _Ctrl(object):
    __slots__ = ('kind', 'value')

    def __init__(self, kind, value=None):
        self.kind, self.value = kind, value


BUILTIN_EXC = {'Exception': None, 'ValueError': 'Exception', 'IndexError': 'LookupError', 'KeyError': 'LookupError',
               'LookupError': 'Exception', 'AssertionError': 'Exception', 'StopIteration': 'Exception',
               'NotImplementedError': 'RuntimeError', 'RuntimeError': 'Exception', 'TypeError': 'Exception',
               'AttributeError': 'Exception', 'IOError': 'Exception', 'OSError': 'Exception',
               'SyntaxError': 'Exception', 'BaseException': None, 'ZeroDivisionError': 'ArithmeticError',
               'ArithmeticError': 'Exception', 'UnicodeError': 'ValueError', 'UnicodeDecodeError': 'UnicodeError',
               'UnicodeEncodeError': 'UnicodeError', 'OverflowError': 'ArithmeticError', 'NameError': 'Exception',
               'ImportError': 'Exception', 'EOFError': 'Exception', 'UnboundLocalError': 'NameError',
               'FileNotFoundError': 'OSError', 'RecursionError': 'RuntimeError',
               'bitstring.Error': 'Exception', 'bitstring.ReadError': 'bitstring.Error', 'bitstring.InterpretError': 'bitstring.Error',
               'bitstring.CreationError': 'bitstring.Error', 'bitstring.ByteAlignError': 'bitstring.Error'}

BENIGN_UNKNOWN_METHODS = {'format', 'strip', 'lstrip', 'rstrip', 'find', 'rfind', 'startswith', 'endswith', 'join',
                          'split', 'rsplit', 'splitlines', 'encode', 'decode', 'debug', 'info', 'warning', 'error',
                          'get', 'items', 'keys', 'values', 'count', 'index', 'copy', 'upper', 'lower', 'isdigit'}


class Frame(object):
    __slots__ = ('locals', 'fi', 'module', 'self_class', 'depth')

    def __init__(self, fi, module, self_class, depth=0):
        self.locals = {}
        self.fi, self.module, self.self_class, self.depth = fi, module, self_class, depth


class Path(object):
    """Per-path shared record: events, choices, log, unknown calls."""
    __slots__ = ('events', 'seq', 'pos', 'log', 'unknown', 'steps')

    def __init__(self, seq):
        self.events = []
        self.seq = list(seq)
        self.pos = 0
        self.log = []
        self.unknown = []
        self.steps = 0


class Result(object):
    """Outcome of one path."""

    def __init__(self, frame, path, outcome, value=None, exc=None):
        self.frame, self.path = frame, path
        self.outcome = outcome          # 'return' | 'fallthrough' | 'raise' | 'break' | 'continue'
        self.value, self.exc = value, exc

    @property
    def events(self):
        return self.path.events

    @property
    def locals(self):
        return self.frame.locals

    @property
    def log(self):
        return self.path.log

    @property
    def ok(self):
        return self.outcome != 'raise'

    def describe(self):
        if self.outcome == 'raise':
            return 'raise %s' % self.exc.cls
        return self.outcome


class Interp(object):
    """The evaluator.  Rules subclass it and override the `on_*` hooks."""

    LIST_CAP = 4096
    # generator functions called in expression context hand out the list of what they yield (rules that read `yield` events of the
    # function they fold themselves - the stream scanner - switch this off)
    EAGER_GENERATORS = True
    MAX_DEPTH = 14
    MAX_PATHS = 40000
    MAX_STEPS = 200000
    UNROLL_CAP = 70

    def __init__(self, repo, self_class=None):
        self.repo = repo
        self.self_class = self_class
        self.path = None
        self.n_paths = 0
        self.n_steps = 0
        if not getattr(repo, '_value_classes_done', False):
            repo._value_classes_done = True
            for m in repo.modules.values():
                for name, node in m.const_nodes.items():
                    if isinstance(node, ast.Call) and norm(node.func).split('.')[-1] == 'namedtuple' and node.args and isinstance(node.args[0], ast.Constant):
                        VALUE_CLASSES.add(name)
                        VALUE_CLASSES.add(str(node.args[0].value))
                        fields = None
                        if len(node.args) > 1:
                            a = node.args[1]
                            if isinstance(a, (ast.Tuple, ast.List)) and all(isinstance(x, ast.Constant) and isinstance(x.value, str) for x in a.elts):
                                fields = [x.value for x in a.elts]
                            elif isinstance(a, ast.Constant) and isinstance(a.value, str):
                                fields = a.value.replace(',', ' ').split()
                        if fields:
                            NT_FIELDS[name] = fields

    # ------------------------------------------------------------------ hooks
    NOT_HANDLED = object()

    def on_call(self, text, callee, args, kwargs, node, frame):
        """Intercept a call.  `text` is the normalised callee expression.
        Return NOT_HANDLED to fall through to default handling."""
        return self.NOT_HANDLED

    def on_load_attr(self, base, attr, node, frame):
        return self.NOT_HANDLED

    def on_store_attr(self, base, attr, value, node, frame):
        """Return True when the store was consumed by the rule."""
        return False

    def on_store_subscript(self, base, index, value, node, frame):
        return False

    def on_name(self, name, frame):
        return self.NOT_HANDLED

    def on_subscript(self, base, index, node, frame):
        return self.NOT_HANDLED

    def on_for(self, node, itervalue, frame):
        """Return a list of loop-variable values to unroll over, or None for the
        default 'body once, bracketed by loop events' treatment."""
        return None

    def on_abstract_loop(self, node, itervalue, frame, token):
        """hook around the single bracketed evaluation of a loop body over an abstract iterable (token None: before the body;
        otherwise after it, with what the first call returned)"""
        return None

    def on_while(self, node, frame):
        raise Unsupported('while loop at %s:%d: %s' % (frame.module.relpath, node.lineno, norm(node.test)))

    def on_with(self, node, frame):
        return self.NOT_HANDLED

    def on_refine(self, test, truth, frame):
        pass

    def should_inline(self, fi, frame):
        return True

    def loop_var(self, node, itervalue, frame):
        return Top('loopvar')

    # ------------------------------------------------------------- utilities
    def event(self, *ev):
        self.path.events.append(tuple(ev))

    def choose(self, label, n=2):
        """Fork n ways (n == 2: True first, then False)."""
        p = self.path
        if p.pos < len(p.seq):
            c = p.seq[p.pos]
        else:
            c = 0
            p.seq.append(0)
        p.pos += 1
        p.log.append((label, c, n))
        return c

    def choose_bool(self, label):
        return self.choose(label, 2) == 0

    def where(self, node, frame):
        return '%s:%d' % (frame.module.relpath, getattr(node, 'lineno', 0))

    # -------------------------------------------------------------- truth
    def truth(self, v):
        if isinstance(v, (Top, Sym)):
            return None
        if isinstance(v, Tok):
            return v.c != 'E'
        if isinstance(v, Native):
            return v.truth()
        if isinstance(v, (Obj, FuncRef, ClassRef, ModRef, NativeMethod, UnknownMethod)):
            return True
        if isinstance(v, (list, tuple, dict, set)):
            return len(v) > 0
        return bool(v)

    def cond(self, test, frame):
        # conditions are evaluated structurally so that a fork on one operand
        # of and/or/not fixes the truth of the whole test on that path
        if isinstance(test, ast.BoolOp):
            is_and = isinstance(test.op, ast.And)
            for x in test.values:
                t = self.cond(x, frame)
                if t != is_and:
                    return t
            return is_and
        if isinstance(test, ast.UnaryOp) and isinstance(test.op, ast.Not):
            return not self.cond(test.operand, frame)
        v = self.ev(test, frame)
        t = self.truth(v)
        if t is None:
            t = self.choose_bool(norm(test))
            self.refine(test, t, frame)
            self.on_refine(test, t, frame)
            self.on_decide(v, t, frame)
        return t

    def on_decide(self, value, truth, frame):
        """hook: an undetermined value was decided to be truthy / falsy on this path (value-based refinement)"""
        return None

    def refine(self, test, truth, frame):
        """x == k / x != k / x is k on an undetermined local: bind k on the equal arm."""
        if isinstance(test, ast.UnaryOp) and isinstance(test.op, ast.Not):
            return self.refine(test.operand, not truth, frame)
        if isinstance(test, ast.Compare) and len(test.ops) == 1:
            op = test.ops[0]
            eq = isinstance(op, (ast.Eq, ast.Is))
            ne = isinstance(op, (ast.NotEq, ast.IsNot))
            if not (eq or ne):
                return
            if (eq and truth) or (ne and not truth):
                l, r = test.left, test.comparators[0]
                for a, b in ((l, r), (r, l)):
                    if isinstance(a, ast.Name) and a.id in frame.locals and isinstance(frame.locals[a.id], (Top,)):
                        try:
                            k = self.ev(b, frame)
                        except Raise:
                            return
                        if not isinstance(k, (Top, Sym, Obj, list, dict)):
                            frame.locals[a.id] = k
                        return

    # -------------------------------------------------------- expressions
    def ev(self, e, frame):
        self.path.steps += 1
        if self.path.steps > self.MAX_STEPS:
            raise PathLimit('step budget exceeded in %s' % (frame.fi.qualname if frame.fi else '?'))
        m = getattr(self, 'ev_' + type(e).__name__, None)
        if m is None:
            raise Unsupported('expression %s at %s' % (type(e).__name__, self.where(e, frame)))
        return m(e, frame)

    def ev_Constant(self, e, frame):
        return e.value

    def ev_JoinedStr(self, e, frame):
        parts = []
        abstract = False
        for v in e.values:
            if isinstance(v, ast.Constant):
                parts.append(v.value)
                continue
            val = self.ev(v.value, frame)
            spec = ''
            if v.format_spec is not None:
                spec = self.ev(v.format_spec, frame)
            if isinstance(val, Obj) and self.repo.has_cls(val.cls) and v.conversion in (-1, 115) and not spec:
                m = self.repo.method(val.cls, '__str__', required=False)
                if m is not None and self.should_inline(m, frame):
                    val = self.call_function(m, [val], {}, e, frame)
            if abstract or not isinstance(spec, str) or not (val is None or isinstance(val, (bool, int, float, str, bytes))) and \
                    not (isinstance(val, (list, tuple)) and not _has_abstract(val)):
                abstract = True
                continue
            try:
                if v.conversion == 114:
                    val = repr(val)
                elif v.conversion == 115:
                    val = str(val)
                elif v.conversion == 97:
                    val = ascii(val)
                parts.append(format(val, spec))
            except Exception:
                raise Raise('ValueError', e, self.where(e, frame))
        if abstract:
            return Top('str')
        return ''.join(parts)

    def ev_Name(self, e, frame):
        n = e.id
        if n in frame.locals:
            v = frame.locals[n]
            if v is UNBOUND:
                # the name was bound by `except ... as n` (unbound again when the handler is left) or removed by `del n`
                raise Raise('UnboundLocalError', e, self.where(e, frame))
            return v
        clo = frame.locals.get('__closure__')
        while clo is not None:
            if n in clo:
                return clo[n]
            clo = clo.get('__closure__')
        r = self.on_name(n, frame)
        if r is not self.NOT_HANDLED:
            return r
        return self.global_name(n, frame)

    def global_name(self, n, frame):
        m = frame.module
        if n in ('None', 'True', 'False'):
            return {'None': None, 'True': True, 'False': False}[n]
        if m is not None:
            v = self.repo.const(m.name, n)
            if v is not NOCONST:
                return v
            if n in m.const_nodes:
                return self.module_value(m, n)
            if n in m.funcs:
                return FuncRef(m.funcs[n])
            if n in m.classes:
                return ClassRef(n)
            if n in m.imports:
                mod, orig = m.imports[n]
                if mod.startswith(PKG + '.'):
                    mn = mod.split('.', 1)[1]
                    if mn in self.repo.modules:
                        mm = self.repo.modules[mn]
                        if orig in mm.funcs:
                            return FuncRef(mm.funcs[orig])
                        if orig in mm.classes:
                            return ClassRef(orig)
                        if orig in mm.const_nodes:
                            return self.module_value(mm, orig)
                return Top('import:%s.%s' % (mod, orig))
            if n in m.mod_imports:
                return ModRef(m.mod_imports[n])
        if n in BUILTIN_EXC:
            return ClassRef(n)
        return Top('name:' + n)

    def class_value(self, c, attr):
        """A class-level binding: one object per class attribute and interpreter (a class-level list or dict is shared by all
        instances, as at run time).  Literals are folded; other initialisers (a constructor call, a module constant) are
        evaluated once in the module's scope."""
        cache = self.__dict__.setdefault('_class_values', {})
        key = (c.name, attr)
        if key not in cache:
            try:
                cache[key] = ast.literal_eval(c.class_consts[attr])
            except Exception:
                cache[key] = self.NOT_HANDLED     # cycles
                try:
                    # the class body is the scope: functions defined in it are plain functions there (a table of handlers),
                    # other class-level names are the class attributes
                    fr = Frame(None, c.module, None, 0)
                    for mname, mfi in c.methods.items():
                        fr.locals[mname] = FuncRef(mfi)
                    for other in c.class_consts:
                        if other != attr and any(isinstance(n, ast.Name) and n.id == other for n in ast.walk(c.class_consts[attr])):
                            v = self.class_value(c, other)
                            if v is not self.NOT_HANDLED:
                                fr.locals[other] = v
                    cache[key] = self.ev(c.class_consts[attr], fr)
                except (Raise, AnalysisError):
                    cache[key] = self.NOT_HANDLED
        return cache[key]

    def module_value(self, m, n):
        """A module-level binding that is not a foldable literal (it calls a constructor, say): evaluated once per
        interpreter so that every reader sees the same object, as at run time."""
        cache = self.__dict__.setdefault('_module_values', {})
        key = (m.name, n)
        if key not in cache:
            cache[key] = Top('name:' + n)     # cycles
            try:
                cache[key] = self.ev(m.const_nodes[n], Frame(None, m, None, 0))
                muts = getattr(m, 'mutations', {}).get(n)
                if muts:
                    # the module-level statements that fill / change the object after it has been bound
                    fr = Frame(None, m, None, 0)
                    fr.locals[n] = cache[key]
                    self.block(muts, fr)
                    cache[key] = fr.locals[n]
            except (Raise, AnalysisError):
                cache[key] = Top('name:' + n)
        return cache[key]

    def ev_Tuple(self, e, frame):
        return tuple(self.ev_elts(e.elts, frame))

    def ev_List(self, e, frame):
        return list(self.ev_elts(e.elts, frame))

    def ev_Set(self, e, frame):
        return tuple(self.ev_elts(e.elts, frame))

    def ev_elts(self, elts, frame):
        out = []
        for x in elts:
            if isinstance(x, ast.Starred):
                v = self.ev(x.value, frame)
                if isinstance(v, (list, tuple)):
                    out.extend(v)
                else:
                    out.append(Top('starred'))
            else:
                out.append(self.ev(x, frame))
        return out

    def ev_Dict(self, e, frame):
        d = {}
        for k, v in zip(e.keys, e.values):
            if k is None:
                return Top('dict')
            kk = self.ev(k, frame)
            if isinstance(kk, (Top, Sym, Obj, list, dict)):
                return Top('dict')
            d[kk] = self.ev(v, frame)
        return d

    def ev_Attribute(self, e, frame):
        base = self.ev(e.value, frame)
        r = self.on_load_attr(base, e.attr, e, frame)
        if r is not self.NOT_HANDLED:
            return r
        return self.load_attr(base, e.attr, e, frame)

    def class_may_have(self, cls, attr):
        """Some method of the class or of a base class assigns self.<attr>, or the class body binds it."""
        from sa.model import effects
        for c in self.repo.mro(cls):
            if attr in c.class_consts or attr in c.methods:
                return True
            for fi in c.methods.values():
                if attr in effects(fi).written('self'):
                    return True
        return False

    def load_attr(self, base, attr, node, frame):
        if isinstance(base, ModRef):
            k = (base.name, attr)
            if k in STDLIB_CONSTS:
                return STDLIB_CONSTS[k]
            return UnknownMethod(base, attr, '%s.%s' % (base.name, attr))
        if isinstance(base, Native):
            if type(base).get_attr is Native.get_attr:
                # a native that models no data attributes: what is read off it is one of its methods, as a value (`write = w.write_uint`)
                return NativeMethod(base, attr)
            v = base.get_attr(attr, self, frame)
            if v is Native.get_attr:
                return NativeMethod(base, attr)
            return v
        if isinstance(base, Obj):
            if attr in base.fields:
                return base.fields[attr]
            if attr == '__dict__':
                return base.fields
            if attr == '__class__':
                return ClassRef(base.cls)
            if self.repo.has_cls(base.cls):
                fi = self.repo.method(base.cls, attr, required=False)
                if fi is not None:
                    # (a class-level binding of a more derived class shadows a method of a base class)
                    for c in self.repo.mro(base.cls):
                        if attr in c.methods:
                            break
                        if attr in c.class_consts:
                            v = self.class_value(c, attr)
                            if v is not self.NOT_HANDLED:
                                if isinstance(v, FuncRef) and v.bound is None and not v.fi.is_static:
                                    return FuncRef(v.fi, bound=base, pre_args=v.pre_args)
                                return v
                            break
                if fi is not None:
                    if fi.is_property:
                        return self.call_function(fi, [base], {}, node, frame)
                    if fi.is_static:
                        return FuncRef(fi)
                    if fi.is_classmethod:
                        return FuncRef(fi, bound=ClassRef(base.cls))
                    return FuncRef(fi, bound=base)
                # class-level constant
                for c in self.repo.mro(base.cls):
                    if attr in c.class_consts:
                        v = self.class_value(c, attr)
                        if v is self.NOT_HANDLED:
                            break
                        if isinstance(v, FuncRef) and v.bound is None and not v.fi.is_static:
                            # a function bound in the class body (made by a factory, say) is a method of the instance
                            return FuncRef(v.fi, bound=base, pre_args=v.pre_args)
                        return v
                if base.fields.get('__strict__') and not self.class_may_have(base.cls, attr):
                    raise Raise('AttributeError', node, self.where(node, frame), value='%s object has no attribute %s' % (base.cls, attr))
                if base.fields.get('__exact__'):
                    # an object whose every attribute so far is known (built by folding its constructor): what has not been assigned yet
                    # is not there
                    raise Raise('AttributeError', node, self.where(node, frame), value='%s object has no attribute %s' % (base.cls, attr))
            return Top('attr:' + attr)
        if isinstance(base, ClassRef):
            if self.repo.has_cls(base.name):
                fi = self.repo.method(base.name, attr, required=False)
                if fi is not None:
                    if fi.is_classmethod:
                        return FuncRef(fi, bound=base)      # cls is the class the method is reached through
                    return FuncRef(fi)
                for c in self.repo.mro(base.name):
                    if attr in c.class_consts:
                        v = self.class_value(c, attr)
                        if v is not self.NOT_HANDLED:
                            return v
                        break
            if attr == '__name__':
                return base.name
            return Top('attr:' + attr)
        if isinstance(base, Top) and base.kind == 'str' and not hasattr(str, attr):
            raise Raise('AttributeError', node, self.where(node, frame), value='str object has no attribute %s' % attr)
        if isinstance(base, (Top, Sym)):
            return Top('attr:' + attr)
        if isinstance(base, (str, bytes, list, tuple, dict, int, float)) or base is None:
            if not hasattr(type(base), attr):
                # a concrete built-in value: whether it has the attribute is decided by its type
                raise Raise('AttributeError', node, self.where(node, frame), value='%s object has no attribute %s' % (type(base).__name__, attr))
            return UnknownMethod(base, attr, norm(node))
        if isinstance(base, Tok):
            return UnknownMethod(base, attr, norm(node))
        return Top('attr:' + attr)

    def ev_UnaryOp(self, e, frame):
        v = self.ev(e.operand, frame)
        if isinstance(e.op, ast.Not):
            t = self.truth(v)
            return Top('bool') if t is None else (not t)
        if isinstance(e.op, ast.USub):
            if isinstance(v, (int, float)) and not isinstance(v, bool):
                return -v
            if isinstance(v, Sym):
                return Sym('neg', v)
        return Top('unary')

    BINOPS = {ast.Add: ('add', lambda a, b: a + b), ast.Sub: ('sub', lambda a, b: a - b),
              ast.Mult: ('mul', lambda a, b: a * b), ast.Div: ('div', lambda a, b: a / b),
              ast.FloorDiv: ('floordiv', lambda a, b: a // b), ast.Mod: ('mod', lambda a, b: a % b),
              ast.Pow: ('pow', lambda a, b: a ** b), ast.BitAnd: ('and', lambda a, b: a & b),
              ast.BitOr: ('or', lambda a, b: a | b), ast.BitXor: ('xor', lambda a, b: a ^ b),
              ast.LShift: ('lshift', lambda a, b: a << b), ast.RShift: ('rshift', lambda a, b: a >> b)}

    def ev_BinOp(self, e, frame):
        l, r = self.ev(e.left, frame), self.ev(e.right, frame)
        return self.binop(type(e.op), l, r, e, frame)

    def binop(self, opt, l, r, node, frame):
        name, f = self.BINOPS.get(opt, ('op', None))
        if isinstance(l, Tok) and opt is ast.Add:
            if isinstance(r, str) and len(r) == 1:
                return l.add_char(r)
            if isinstance(r, str) and r == '':
                return l
            return Tok('X')
        if isinstance(l, Sym) or isinstance(r, Sym):
            return self.sym_binop(name, l, r)
        if isinstance(l, Top) or isinstance(r, Top):
            return Top(name)
        concrete = (int, float, str, bytes, list, tuple)
        if isinstance(l, concrete) and isinstance(r, concrete) and f is not None:
            if isinstance(l, bool):
                l = int(l)
            if isinstance(r, bool):
                r = int(r)
            if opt is ast.Pow and (not isinstance(r, (int, float)) or abs(r) > 4096):
                return Top('pow')
            if opt is ast.Mult and isinstance(l, (str, bytes, list, tuple)) and isinstance(r, int) and r > 100000:
                return Top('mul')
            try:
                return f(l, r)
            except ZeroDivisionError:
                raise Raise('ZeroDivisionError', node, self.where(node, frame))
            except Exception:
                return Top(name)
        return Top(name)

    def sym_binop(self, name, l, r):
        # identities that hold for every numeric value
        if name in ('add', 'sub') and isinstance(r, (int, float)) and not isinstance(r, bool) and r == 0:
            return l
        if name == 'add' and isinstance(l, (int, float)) and not isinstance(l, bool) and l == 0:
            return r
        if name in ('mul', 'div', 'floordiv') and isinstance(r, (int, float)) and not isinstance(r, bool) and r == 1:
            return l
        if name == 'mul' and isinstance(l, (int, float)) and not isinstance(l, bool) and l == 1:
            return r
        return Sym(name, l, r)

    def ev_BoolOp(self, e, frame):
        is_and = isinstance(e.op, ast.And)
        last = None
        for i, x in enumerate(e.values):
            v = self.ev(x, frame)
            t = self.truth(v)
            if t is None:
                # undetermined operand: fork on it, keeping short-circuit semantics
                t = self.choose_bool(norm(x))
                self.refine(x, t, frame)
                self.on_refine(x, t, frame)
                self.on_decide(v, t, frame)
                if t != is_and:
                    return v
                last = v
                continue
            if t != is_and:
                return v
            last = v
        return last

    def ev_Compare(self, e, frame):
        left = self.ev(e.left, frame)
        for op, c in zip(e.ops, e.comparators):
            right = self.ev(c, frame)
            r = self.cmp(op, left, right, frame)
            if r is None:
                return Top('bool')
            if not r:
                return False
            left = right
        return True

    def cmp(self, op, l, r, frame=None):
        if isinstance(op, (ast.Eq, ast.NotEq)):
            if isinstance(l, Tok) and isinstance(r, str):
                if r == '':
                    v = l.c == 'E'
                elif l.c == 'E':
                    v = False
                else:
                    return None
            elif isinstance(r, Tok) and isinstance(l, str):
                return self.cmp(op, r, l, frame)
            elif isinstance(l, (Top, Sym, Tok)) or isinstance(r, (Top, Sym, Tok)):
                if isinstance(l, Sym) and isinstance(r, Sym) and l == r:
                    v = True
                else:
                    return None
            elif isinstance(l, (list, tuple)) and isinstance(r, (list, tuple)) and type(l) is type(r) and \
                    (any(isinstance(x, Obj) for x in l) or any(isinstance(x, Obj) for x in r)):
                # sequences holding objects: element by element, as Python does (identity first, then ==)
                if len(l) != len(r):
                    v = False
                else:
                    v = True
                    for a, b in zip(l, r):
                        if a is b:
                            continue
                        e = self.cmp(ast.Eq(), a, b, frame)
                        if e is None:
                            return None
                        if not e:
                            v = False
                            break
            elif isinstance(l, Obj) or isinstance(r, Obj):
                if l is r:
                    v = True
                elif l is None or r is None:
                    v = False
                elif isinstance(l, Obj) and self.repo.has_cls(l.cls) and frame is not None and \
                        self.repo.method(l.cls, '__eq__', required=False) is not None and not isinstance(r, (Top, Sym)):
                    # the class defines equality: fold it
                    m = self.repo.method(l.cls, '__eq__')
                    res = self.call_function(m, [l, r], {}, ast.Compare(left=ast.Constant(value=None), ops=[ast.Eq()], comparators=[]), frame)
                    t = self.truth(res)
                    if t is None:
                        return None
                    v = t
                elif isinstance(l, Obj) and isinstance(r, Obj) and self.repo.has_cls(l.cls) and self.repo.has_cls(r.cls) and \
                        self.repo.method(l.cls, '__eq__', required=False) is None and self.repo.method(r.cls, '__eq__', required=False) is None \
                        and l.cls != 'slice' and r.cls != 'slice':
                    v = False       # two distinct instances of classes without __eq__: identity
                elif isinstance(l, Obj) and isinstance(r, Obj) and (l.cls in VALUE_CLASSES or r.cls in VALUE_CLASSES):
                    # the repository's namedtuples compare by value
                    if l.cls != r.cls:
                        v = False
                    elif _surely_equal(l, r):
                        v = True
                    elif not _may_equal(l, r):
                        v = False
                    else:
                        return None
                elif (isinstance(l, Obj) and l.cls in VALUE_CLASSES and isinstance(r, (bool, int, float, str, bytes, list, dict))) or \
                        (isinstance(r, Obj) and r.cls in VALUE_CLASSES and isinstance(l, (bool, int, float, str, bytes, list, dict))):
                    v = False       # a namedtuple never equals a number, a string, a list or a dict
                elif isinstance(l, Obj) and isinstance(r, Obj) and l.cls == r.cls == 'slice':
                    parts = [(l.fields.get(k), r.fields.get(k)) for k in ('start', 'stop', 'step')]
                    if any(_has_abstract(a) or _has_abstract(b) for a, b in parts):
                        return None
                    v = all(a == b for a, b in parts)
                elif (isinstance(l, Obj) and l.cls == 'slice' and isinstance(r, (int, str, bytes, float, tuple))) or \
                        (isinstance(r, Obj) and r.cls == 'slice' and isinstance(l, (int, str, bytes, float, tuple))):
                    v = False
                else:
                    return None
            elif _has_abstract(l) or _has_abstract(r):
                return None
            else:
                v = l == r
            return v if isinstance(op, ast.Eq) else not v
        if isinstance(op, (ast.In, ast.NotIn)):
            if isinstance(l, (Top, Sym)) or isinstance(r, (Top, Sym)):
                return None
            if isinstance(l, Tok):
                return None
            if isinstance(r, dict):
                if isinstance(l, tuple) and _has_abstract(l) and _ident_key(l):
                    how, _ = dict_find(r, l)
                    if how == 'unknown':
                        return None
                    return (how == 'hit') if isinstance(op, ast.In) else (how != 'hit')
                if isinstance(l, (Obj, list, dict)):
                    return None
                v = l in r
            elif isinstance(r, (tuple, list)):
                if any(isinstance(x, (Top, Sym, Tok)) for x in r):
                    if any((not isinstance(x, (Top, Sym, Tok, Obj))) and x == l for x in r):
                        v = True
                    else:
                        return None
                else:
                    v = any(self.cmp(ast.Eq(), l, x, frame) for x in r)
            elif isinstance(r, (str, bytes)):
                if not isinstance(l, type(r)):
                    return None
                v = l in r
            else:
                return None
            return v if isinstance(op, ast.In) else not v
        if isinstance(op, (ast.Lt, ast.LtE, ast.Gt, ast.GtE)):
            num = (int, float)
            table = {ast.Lt: lambda a, b: a < b, ast.LtE: lambda a, b: a <= b, ast.Gt: lambda a, b: a > b, ast.GtE: lambda a, b: a >= b}
            if isinstance(l, num) and isinstance(r, num):
                return table[type(op)](l, r)
            for t in (str, bytes):
                if isinstance(l, t) and isinstance(r, t):
                    return table[type(op)](l, r)
            if isinstance(l, (list, tuple)) and type(l) is type(r) and not _has_abstract(l) and not _has_abstract(r):
                try:
                    return table[type(op)](l, r)
                except TypeError:
                    raise Raise('TypeError', None, 'ordering of unorderable values')
            concrete = (int, float, str, bytes, type(None))
            if isinstance(l, concrete) and isinstance(r, concrete):
                # None < 1, 'a' < 1, ...: Python 3 refuses to order values of different kinds
                raise Raise('TypeError', None, 'ordering of %s and %s' % (type(l).__name__, type(r).__name__))
            return None
        if isinstance(op, (ast.Is, ast.IsNot)):
            if isinstance(l, (Top, Sym)) or isinstance(r, (Top, Sym)):
                return None
            if isinstance(l, ClassRef) and isinstance(r, ClassRef):
                v = l.name == r.name
            elif l is None or r is None or isinstance(l, bool) or isinstance(r, bool):
                v = l is r
            elif isinstance(l, Obj) or isinstance(r, Obj) or isinstance(l, Tok) or isinstance(r, Tok):
                v = l is r
            else:
                v = l is r or l == r
            return v if isinstance(op, ast.Is) else not v
        return None

    def ev_IfExp(self, e, frame):
        t = self.cond(e.test, frame)
        return self.ev(e.body if t else e.orelse, frame)

    def ev_Subscript(self, e, frame):
        base = self.ev(e.value, frame)
        if isinstance(e.slice, ast.Slice):
            lo = self.ev(e.slice.lower, frame) if e.slice.lower is not None else None
            hi = self.ev(e.slice.upper, frame) if e.slice.upper is not None else None
            st = self.ev(e.slice.step, frame) if e.slice.step is not None else None
            idx = ('slice', lo, hi, st)
        else:
            idx = self.ev(e.slice, frame)
            if isinstance(idx, Obj) and idx.cls == 'slice' and not isinstance(base, (list, tuple, str, bytes)):
                # x[slice(a, b)] on an abstract sequence is x[a:b]
                idx = ('slice', idx.fields.get('start'), idx.fields.get('stop'), idx.fields.get('step'))
        r = self.on_subscript(base, idx, e, frame)
        if r is not self.NOT_HANDLED:
            return r
        return self.subscript(base, idx, e, frame)

    def subscript(self, base, idx, node, frame):
        if isinstance(idx, tuple) and len(idx) == 4 and idx[0] == 'slice':
            _, lo, hi, st = idx
            if isinstance(base, (list, tuple, str, bytes)) and all(x is None or (isinstance(x, int) and not isinstance(x, bool)) for x in (lo, hi, st)):
                return base[slice(lo, hi, st)]
            if isinstance(base, Tok):
                return Tok('X') if base.c != 'E' else Tok('E')
            return Top('slice')
        if isinstance(idx, Obj) and idx.cls == 'slice' and isinstance(base, (list, tuple, str, bytes)):
            parts = [idx.fields.get('start'), idx.fields.get('stop'), idx.fields.get('step')]
            if all(x is None or (isinstance(x, int) and not isinstance(x, bool)) for x in parts):
                if parts[2] == 0:
                    raise Raise('ValueError', node, self.where(node, frame))
                return base[slice(*parts)]
            return Top('slice')
        if isinstance(base, Obj) and base.cls in NT_FIELDS and isinstance(idx, int) and not isinstance(idx, bool) and all(k in base.fields for k in NT_FIELDS[base.cls]):
            base = tuple(base.fields[k] for k in NT_FIELDS[base.cls])
        if isinstance(base, (list, tuple, str, bytes)) and isinstance(idx, int) and not isinstance(idx, bool):
            if -len(base) <= idx < len(base):
                return base[idx]
            raise Raise('IndexError', node, self.where(node, frame))
        if isinstance(base, dict) and not isinstance(idx, (Top, Sym, Obj, list, dict)) and not (isinstance(idx, tuple) and _has_abstract(idx)):
            if idx in base:
                return base[idx]
            raise Raise('KeyError', node, self.where(node, frame))
        if isinstance(base, dict) and isinstance(idx, tuple) and _ident_key(idx):
            how, v = dict_find(base, idx)
            if how == 'hit':
                return v
            if how == 'miss':
                raise Raise('KeyError', node, self.where(node, frame))
        if isinstance(base, Tok) and isinstance(idx, int):
            if base.c == 'E':
                raise Raise('IndexError', node, self.where(node, frame))
            return Top('char')
        return Top('item')

    def ev_Lambda(self, e, frame):
        # a lambda is a nested function `def <lambda>(args): return body` closing over the current frame
        fn = ast.FunctionDef(name='<lambda>', args=e.args, body=[ast.Return(value=e.body)], decorator_list=[], returns=None, type_comment=None)
        ast.copy_location(fn, e)
        ast.fix_missing_locations(fn)
        fi = FuncInfo(frame.module, None, fn)
        fi.closure = frame.locals
        return FuncRef(fi)

    def ev_ListComp(self, e, frame):
        return self.comprehension(e, frame, list)

    def ev_GeneratorExp(self, e, frame):
        r = self.comprehension(e, frame, list)
        return GenList(r) if isinstance(r, list) else r

    def ev_DictComp(self, e, frame):
        pairs = self.comprehension(e, frame, dict)
        if not isinstance(pairs, list):
            return Top('dict')
        out = {}
        for k, v in pairs:
            if isinstance(k, (Top, Sym, Obj, list, dict)):
                return Top('dict')
            out[k] = v
        return out

    def ev_SetComp(self, e, frame):
        items = self.comprehension(e, frame, set)
        if isinstance(items, list) and not _has_abstract(items):
            try:
                return tuple(sorted(set(items), key=repr))
            except TypeError:
                return Top('set')
        return Top('set')

    def concrete_iteration(self, node, it, frame):
        """The items a loop / comprehension visits, when the iterable is concrete (the same hook as `for` statements)."""
        vals = self.on_for(node, it, frame)
        if vals is not None:
            return list(vals)
        if isinstance(it, Deque):
            return list(it.items)
        if isinstance(it, (str, bytes)) and len(it) <= self.UNROLL_CAP:
            return list(it) if isinstance(it, str) else [x for x in it]
        if isinstance(it, dict) and len(it) <= self.UNROLL_CAP:
            return list(it.keys())
        if isinstance(it, (list, tuple)) and len(it) <= self.UNROLL_CAP:
            return list(it)
        return None

    def comprehension(self, e, frame, ctor):
        out = []
        saved = dict(frame.locals)
        try:
            ok = self._comprehension(e, 0, frame, out, ctor)
        finally:
            frame.locals = saved
        if ok:
            return out
        if len(e.generators) == 1 and not e.generators[0].ifs and ctor is not dict:
            # an abstract iterable: the element expression is evaluated once, between loop brackets, so that what it does
            # (reads, writes, emissions) is not lost; the result holds that one representative
            g = e.generators[0]
            saved = dict(frame.locals)
            try:
                self.event('loop_begin', norm(g.iter))
                self.assign(g.target, Top('loopvar'), frame, e)
                elt = self.ev(e.elt, frame)
                self.event('loop_end')
            finally:
                frame.locals = saved
            return RepList([elt])
        return Top('list')

    def _comprehension(self, e, i, frame, out, ctor):
        if i == len(e.generators):
            if ctor is dict:
                out.append((self.ev(e.key, frame), self.ev(e.value, frame)))
            else:
                out.append(self.ev(e.elt, frame))
            return True
        g = e.generators[i]
        it = self.ev(g.iter, frame)
        vals = self.concrete_iteration(g, it, frame)
        if vals is None:
            return False
        for x in vals:
            self.assign(g.target, x, frame, e)
            if all(self.cond(c, frame) for c in g.ifs):
                if not self._comprehension(e, i + 1, frame, out, ctor):
                    return False
        return True

    def ev_Starred(self, e, frame):
        return self.ev(e.value, frame)

    def ev_Yield(self, e, frame):
        v = self.ev(e.value, frame) if e.value is not None else None
        handlers = self.__dict__.get('_yield_handlers')
        if handlers and handlers[-1] is not None:
            # the generator is being driven by a `for` loop of the code under analysis: hand the value to that loop's body
            handlers[-1](v)
            return None
        self.event('yield', v)
        return None

    def ev_YieldFrom(self, e, frame):
        # `yield from it`: every item of the inner iterable is yielded in turn (a call of a generator function evaluates, in
        # expression context, to the values it yields)
        v = self.ev(e.value, frame)
        if isinstance(v, Deque):
            v = list(v.items)
        if isinstance(v, dict):
            v = list(v)
        if not isinstance(v, (list, tuple, str, bytes)):
            raise Unsupported('yield from %r at %s' % (v, self.where(e, frame)))
        items = list(v)
        if isinstance(v, GenList):
            del v[:]
        handlers = self.__dict__.get('_yield_handlers')
        for item in items:
            if handlers and handlers[-1] is not None:
                handlers[-1](item)
            else:
                self.event('yield', item)
        return None

    @staticmethod
    def _is_generator_function(fi):
        cached = getattr(fi, '_is_gen', None)
        if cached is None:
            cached = False
            stack = list(fi.node.body)
            while stack:
                n = stack.pop()
                if isinstance(n, (ast.Yield, ast.YieldFrom)):
                    cached = True
                    break
                for ch in ast.iter_child_nodes(n):
                    if not isinstance(ch, (ast.FunctionDef, ast.Lambda, ast.ClassDef)):
                        stack.append(ch)
            try:
                fi._is_gen = cached
            except AttributeError:
                pass
        return cached

    def for_over_generator(self, s, frame):
        """`for x in gen(...)` where gen is a generator function of the repository: producer and consumer are interleaved as at run
        time - the generator's body runs, and at every `yield` the loop body runs with the yielded value (so what the generator does
        after a yield happens after the consumer has handled that value).  Returns NOT_HANDLED when the loop is of another kind."""
        if not isinstance(s.iter, ast.Call):
            return self.NOT_HANDLED
        if any(isinstance(a, ast.Starred) for a in s.iter.args) or any(k.arg is None for k in s.iter.keywords):
            return self.NOT_HANDLED
        callee = self.ev_callee(s.iter.func, frame)
        if not (isinstance(callee, FuncRef) and self._is_generator_function(callee.fi) and not any('contextmanager' in d for d in callee.fi.decorators)):
            return self.NOT_HANDLED
        text = norm(s.iter.func)
        args = self.ev_elts(s.iter.args, frame)
        kwargs = dict((k.arg, self.ev(k.value, frame)) for k in s.iter.keywords)
        r = self.on_call(text, callee, args, kwargs, s.iter, frame)
        if r is not self.NOT_HANDLED:
            return ('value', r)         # a rule scripts this generator: loop over what it hands out
        handlers = self.__dict__.setdefault('_yield_handlers', [])

        class _Stop(Exception):
            def __init__(self2, ctrl):
                self2.ctrl = ctrl

        def handler(v):
            handlers.append(None)       # yields of the consumer itself are not ours
            try:
                self.assign(s.target, v, frame, s)
                c = self.block(s.body, frame)
            finally:
                handlers.pop()
            if c is not None and c.kind != 'continue':
                raise _Stop(c)
        handlers.append(handler)
        try:
            a = list(callee.pre_args) + ([callee.bound] if callee.bound is not None else []) + list(args)
            self.call_function(callee.fi, a, kwargs, s.iter, frame)
        except _Stop as st:
            return ('ctrl', None if st.ctrl.kind == 'break' else st.ctrl)
        finally:
            handlers.pop()
        if s.orelse:
            return ('ctrl', self.block(s.orelse, frame))
        return ('ctrl', None)

    def ev_NamedExpr(self, e, frame):
        v = self.ev(e.value, frame)
        self.assign(e.target, v, frame, e)
        return v

    # ------------------------------------------------------------- calls
    def ev_Call(self, e, frame):
        text = norm(e.func)
        callee = self.ev_callee(e.func, frame)
        args = self.ev_elts(e.args, frame)
        kwargs = {}
        for k in e.keywords:
            if k.arg is None:
                v = self.ev(k.value, frame)
                if isinstance(v, dict):
                    kwargs.update(v)
                else:
                    kwargs['**'] = v
            else:
                kwargs[k.arg] = self.ev(k.value, frame)
        r = self.on_call(text, callee, args, kwargs, e, frame)
        if r is not self.NOT_HANDLED:
            return r
        return self.apply(text, callee, args, kwargs, e, frame)

    def ev_callee(self, f, frame):
        # super(X, self).m
        if isinstance(f, ast.Attribute) and isinstance(f.value, ast.Call) and isinstance(f.value.func, ast.Name) \
                and f.value.func.id == 'super':
            cls = None
            if f.value.args and isinstance(f.value.args[0], ast.Name):
                cls = f.value.args[0].id
            elif frame.fi is not None and frame.fi.cls is not None:
                cls = frame.fi.cls.name
            selfv = frame.locals.get('self')
            if cls and self.repo.has_cls(cls):
                for c in self.repo.mro(cls)[1:]:
                    if f.attr in c.methods:
                        return FuncRef(c.methods[f.attr], bound=selfv)
            return UnknownMethod(selfv, f.attr, norm(f))
        if isinstance(f, ast.Attribute):
            base = self.ev(f.value, frame)
            r = self.on_load_attr(base, f.attr, f, frame)
            if r is not self.NOT_HANDLED:
                return r
            if isinstance(base, Native):
                return NativeMethod(base, f.attr)
            if isinstance(base, Obj):
                v = self.load_attr(base, f.attr, f, frame)
                if isinstance(v, Top):
                    return UnknownMethod(base, f.attr, norm(f))
                return v
            if isinstance(base, (Top, Sym)):
                return UnknownMethod(base, f.attr, norm(f))
            return self.load_attr(base, f.attr, f, frame)
        if isinstance(f, ast.Name) and f.id not in frame.locals:
            clo = frame.locals.get('__closure__')
            while clo is not None:
                if f.id in clo:
                    return clo[f.id]
                clo = clo.get('__closure__')
            r = self.on_name(f.id, frame)
            if r is not self.NOT_HANDLED:
                return r
            v = self.global_name(f.id, frame)
            if isinstance(v, Top) and v.kind.startswith('name:'):
                return ('builtin', f.id)
            return v
        return self.ev(f, frame)

    PURE_OS_PATH = ('splitext', 'basename', 'dirname', 'join', 'split', 'normpath', 'isabs', 'relpath', 'commonprefix')

    def apply(self, text, callee, args, kwargs, node, frame):
        if text in ('dict.fromkeys', 'collections.OrderedDict.fromkeys', 'OrderedDict.fromkeys') and args and isinstance(args[0], (str, bytes, list, tuple)) \
                and not _has_abstract(list(args[0])):
            dv = args[1] if len(args) > 1 else None
            return dict((k_, dv) for k_ in args[0])
        if text.startswith('os.path.') and text[8:] in self.PURE_OS_PATH and not kwargs and args and all(isinstance(a, str) for a in args) \
                and text[8:] != 'relpath':
            import os as _os
            r = getattr(_os.path, text[8:])(*args)
            return r
        if isinstance(callee, FuncRef) and callee.fi.decorators and not getattr(callee, 'raw', False):
            # a function wrapped by one of the repository's own decorators (a module-level function that takes the function and returns
            # its replacement): what is called is the replacement
            wrapped = self._decorated(callee.fi, node, frame)
            if wrapped is not None:
                a = list(callee.pre_args) + list(args)
                if callee.bound is not None:
                    a = [callee.bound] + a
                return self.apply(text, wrapped, a, kwargs, node, frame)
        if isinstance(callee, FuncRef):
            a = list(callee.pre_args) + list(args)
            if callee.bound is not None:
                a = [callee.bound] + a
            if not self.should_inline(callee.fi, frame):
                self.path.unknown.append(text)
                return Top('call:' + callee.fi.qualname)
            if self.EAGER_GENERATORS and self._is_generator_function(callee.fi) and not any('contextmanager' in d for d in callee.fi.decorators):
                # a generator function called where its values are wanted (a comprehension, enumerate(), list(), next()): the values it
                # yields, collected (a `for` statement over the call is interleaved instead, see for_over_generator)
                handlers = self.__dict__.setdefault('_yield_handlers', [])
                got = GenList()
                handlers.append(got.append)
                try:
                    self.call_function(callee.fi, a, kwargs, node, frame)
                finally:
                    handlers.pop()
                return got
            return self.call_function(callee.fi, a, kwargs, node, frame)
        if isinstance(callee, NativeMethod):
            return callee.recv.call_method(callee.name, args, kwargs, self, frame, node)
        if isinstance(callee, Native) and hasattr(callee, 'call'):
            return callee.call(args, kwargs, self, frame, node)
        if isinstance(callee, PartialCall):
            return self.apply(text, callee.target, list(callee.pre_args) + list(args), kwargs, node, frame)
        nt = text.split('.')[-1]
        if nt in NT_FIELDS and not isinstance(callee, (FuncRef, ClassRef, Native, NativeMethod)) and '**' not in kwargs:
            # construction of one of the repository's namedtuples: a value object with its fields
            fields = NT_FIELDS[nt]
            if len(args) <= len(fields) and all(k in fields for k in kwargs):
                vals = dict(zip(fields, args))
                vals.update(kwargs)
                if len(vals) == len(fields):
                    return Obj(nt, vals)
        if isinstance(callee, ClassRef):
            return self.construct(callee.name, args, kwargs, node, frame)
        if isinstance(callee, tuple) and callee and callee[0] == 'builtin':
            return self.builtin(callee[1], args, kwargs, node, frame)
        if isinstance(callee, UnknownMethod):
            return self.unknown_method(callee, args, kwargs, node, frame)
        if isinstance(callee, Top):
            if callee.kind.startswith('import:'):
                return self.imported_call(callee.kind[7:], args, kwargs, node, frame)
            if callee.kind.startswith('name:') and callee.kind[5:] in ('list', 'dict', 'tuple', 'set', 'frozenset', 'int', 'str', 'bytes', 'float', 'bool', 'len',
                                                                       'sorted', 'min', 'max', 'sum', 'abs', 'next', 'iter', 'range', 'enumerate', 'zip', 'repr'):
                # a builtin that travelled as a value (a parameter `container_type=list`, say) and is called
                return self.builtin(callee.kind[5:], args, kwargs, node, frame)
            self.path.unknown.append(text)
            return Top('call')
        if isinstance(callee, Obj) and self.repo.has_cls(callee.cls):
            # an instance of a class of the repository that defines __call__
            m = self.repo.method(callee.cls, '__call__', required=False)
            if m is not None:
                return self.call_function(m, [callee] + list(args), kwargs, node, frame)
        if callee is None or (isinstance(callee, (bool, int, float, str, bytes, list, dict)) and not isinstance(callee, tuple)):
            # calling a concrete value that is not callable ('NoneType' object is not callable, ...)
            raise Raise('TypeError', node, self.where(node, frame))
        self.path.unknown.append(text)
        return Top('call')

    def _decorated(self, fi, node, frame):
        cache = self.__dict__.setdefault('_decorated_cache', {})
        if fi in cache:
            return cache[fi]
        cache[fi] = None
        decs = []
        for d in fi.decorators:
            name = d.split('(')[0]
            g = fi.module.funcs.get(name) if '.' not in name and '(' not in d else None
            if g is not None:
                decs.append(g)
            elif name in ('staticmethod', 'classmethod', 'property', 'abc.abstractmethod', 'abstractmethod', 'contextlib.contextmanager', 'contextmanager',
                          'functools.wraps', 'wraps', 'functools.lru_cache', 'six.add_metaclass') or name.endswith('.setter') or name.endswith('.getter'):
                continue
            else:
                return None
        if not decs:
            return None
        cur = FuncRef(fi)
        cur.raw = True
        for g in reversed(decs):
            cur = self.call_function(g, [cur], {}, node, frame)
            if isinstance(cur, FuncRef) and cur.fi is fi:
                cur.raw = True
        if not isinstance(cur, (FuncRef, PartialCall, NativeMethod)):
            raise Unsupported('decorator of %s returns %r: not a callable the evaluator can follow' % (fi.qualname, cur))
        cache[fi] = cur
        return cur

    def imported_call(self, qual, args, kwargs, node, frame):
        if qual == 'copy.deepcopy':
            return _deepcopy_data(args[0]) if args else Top('copy')
        if qual == 'copy.copy':
            a = args[0] if args else Top('copy')
            return dict(a) if isinstance(a, dict) else (list(a) if isinstance(a, list) else a)
        if qual == 'functools.partial':
            return self.make_partial(args, kwargs)
        if qual == 'collections.deque':
            a = args[0] if args else []
            if isinstance(a, Deque):
                a = a.items
            if isinstance(a, (list, tuple)):
                ml = kwargs.get('maxlen', args[1] if len(args) > 1 else None)
                if isinstance(ml, int) and not isinstance(ml, bool):
                    a = list(a)[len(a) - ml:] if ml else []
                return Deque(a)
            return Top('deque')
        if qual.startswith('math.') and not kwargs and all(isinstance(a, (int, float)) and not isinstance(a, bool) for a in args):
            import math as _math
            f = getattr(_math, qual[5:], None)
            if callable(f):
                try:
                    return f(*args)
                except (ValueError, OverflowError, ZeroDivisionError, TypeError) as exc:
                    raise Raise(type(exc).__name__, node, self.where(node, frame))
        if qual == 'itertools.count':
            st = args[0] if args else kwargs.get('start', 0)
            step = args[1] if len(args) > 1 else kwargs.get('step', 1)
            if isinstance(st, int) and isinstance(step, int):
                return Counter(st, step)
            return Top('call:' + qual)
        if qual == 'itertools.chain' and all(isinstance(a, (list, tuple)) for a in args):
            return [x for a in args for x in a]
        if qual in ('itertools.takewhile', 'itertools.dropwhile') and len(args) == 2 and isinstance(args[1], (list, tuple)):
            out, taking = [], True
            for x in args[1]:
                if taking:
                    t = self.truth(self.apply(qual, args[0], [x], {}, node, frame))
                    if t is None:
                        t = self.choose_bool('%s:%s' % (qual, norm(node)))
                    if not t:
                        taking = False
                        if qual.endswith('takewhile'):
                            break
                if taking == qual.endswith('takewhile'):
                    out.append(x)
            return GenList(out)
        if qual == 'itertools.islice' and len(args) == 2 and isinstance(args[0], GenList) and isinstance(args[1], int) and not isinstance(args[1], bool) and args[1] >= 0:
            # islice over an iterator takes its items off that iterator (here at once: the slice is the next n items, and the
            # source continues behind them)
            taken = GenList()
            for _ in range(args[1]):
                if not args[0]:
                    break
                taken.append(args[0].pop(0))
            return taken
        if qual == 'itertools.islice' and len(args) >= 2 and isinstance(args[0], (list, tuple)) and all(a is None or (isinstance(a, int) and not isinstance(a, bool)) for a in args[1:]):
            import itertools as _it
            return GenList(_it.islice(list(args[0]), *args[1:]))
        if qual == 'itertools.repeat' and len(args) == 2 and isinstance(args[1], int) and 0 <= args[1] <= self.UNROLL_CAP:
            return [args[0]] * args[1]
        if qual in ('operator.add', 'operator.sub', 'operator.mul') and len(args) == 2:
            return self.binop({'add': ast.Add, 'sub': ast.Sub, 'mul': ast.Mult}[qual.split('.')[1]], args[0], args[1], node, frame)
        if qual == 'itertools.compress' and len(args) == 2 and isinstance(args[0], (list, tuple)) and isinstance(args[1], (list, tuple)) and \
                all(isinstance(x, (bool, int)) or x is None for x in args[1]):
            return GenList(d for d, sel in zip(args[0], args[1]) if sel)
        if qual == 'operator.index' and len(args) == 1:
            a = args[0]
            if isinstance(a, int):
                return int(a)
            if isinstance(a, (float, str, bytes)) or a is None:
                raise Raise('TypeError', node, self.where(node, frame))
            return a        # (a symbolic integer stays what it is)
        if qual in ('operator.iadd', 'operator.concat') and len(args) == 2:
            return self.binop(ast.Add, args[0], args[1], node, frame)
        if qual == 'functools.reduce' and len(args) >= 2 and isinstance(args[1], (list, tuple)):
            items = list(args[1])
            if len(args) > 2:
                acc = args[2]
            elif items:
                acc = items.pop(0)
            else:
                raise Raise('TypeError', node, self.where(node, frame))
            for x in items:
                acc = self.apply('reduce-function', args[0], [acc, x], {}, node, frame)
            return acc
        if qual == 're.escape' and len(args) == 1 and isinstance(args[0], (str, bytes)):
            import re as _re
            return _re.escape(args[0])
        if qual == 're.compile' and args and isinstance(args[0], (str, bytes)):
            flags = args[1] if len(args) > 1 else kwargs.get('flags', 0)
            if isinstance(flags, int):
                import re as _re
                try:
                    return Regex(args[0], flags)
                except _re.error:
                    raise Raise('re.error', node, self.where(node, frame))
        if qual in ('re.search', 're.match', 're.fullmatch', 're.findall', 're.finditer', 're.split') and len(args) >= 2 and isinstance(args[0], (str, bytes)):
            flags = args[2] if len(args) > 2 else kwargs.get('flags', 0)
            if isinstance(flags, int):
                return Regex(args[0], flags).call_method(qual[3:], [args[1]], {}, self, frame, node)
        if qual == 're.sub' and len(args) == 3 and all(isinstance(a, (str, bytes)) for a in args):
            return Regex(args[0]).call_method('sub', [args[1], args[2]], {}, self, frame, node)
        if qual == 'six.indexbytes' and len(args) == 2 and isinstance(args[0], bytes) and isinstance(args[1], int):
            try:
                return args[0][args[1]]
            except IndexError:
                raise Raise('IndexError', node, self.where(node, frame))
        if qual == 'six.byte2int' and len(args) == 1 and isinstance(args[0], bytes):
            if not args[0]:
                raise Raise('IndexError', node, self.where(node, frame))
            return args[0][0]
        if qual == 'six.int2byte' and len(args) == 1 and isinstance(args[0], int) and not isinstance(args[0], bool):
            if not 0 <= args[0] < 256:
                raise Raise('struct.error', node, self.where(node, frame))
            return bytes([args[0]])
        if qual == 'six.iterbytes' and len(args) == 1 and isinstance(args[0], bytes):
            return GenList(args[0])
        if qual.startswith('six.moves.') and qual[10:] in ('range', 'zip', 'map', 'filter'):
            return self.builtin(qual[10:], args, kwargs, node, frame)
        return Top('call:' + qual)

    def make_partial(self, args, kwargs):
        if args and isinstance(args[0], FuncRef) and not kwargs:
            f = args[0]
            return FuncRef(f.fi, bound=f.bound, pre_args=tuple(f.pre_args) + tuple(args[1:]))
        if args and isinstance(args[0], tuple) and len(args[0]) == 2 and args[0][0] == 'builtin' and not kwargs:
            return PartialCall(args[0], args[1:])
        if args and isinstance(args[0], Top) and args[0].kind.startswith('name:') and args[0].kind[5:] in ('next', 'len', 'int', 'str', 'max', 'min') and not kwargs:
            # a builtin named as a value
            return PartialCall(('builtin', args[0].kind[5:]), args[1:])
        return Top('partial')

    def unknown_method(self, um, args, kwargs, node, frame):
        base, name = um.recv, um.name
        if isinstance(base, int) and not isinstance(base, bool) and name == 'bit_length' and not args:
            return base.bit_length()
        if isinstance(base, ModRef):
            if base.name == 'functools' and name == 'partial':
                return self.make_partial(args, kwargs)
            r = self.imported_call('%s.%s' % (base.name, name), args, kwargs, node, frame)
            return r
        if isinstance(base, list):
            if name == 'append':
                if len(base) < self.LIST_CAP:
                    base.append(args[0])
                else:
                    self.event('list_cap', len(base))
                return None
            if name == 'pop':
                if not base:
                    raise Raise('IndexError', node, self.where(node, frame))
                i = args[0] if args else -1
                if isinstance(i, int):
                    return base.pop(i)
                return Top('item')
            if name == 'insert' and isinstance(args[0], int):
                if len(base) < self.LIST_CAP:
                    base.insert(args[0], args[1])
                return None
            if name == 'extend' and isinstance(args[0], (list, tuple)):
                for x in args[0]:
                    if len(base) < self.LIST_CAP:
                        base.append(x)
                return None
            if name == 'clear':
                del base[:]
                return None
            if name == 'reverse' and not args:
                base.reverse()
                return None
            if name == 'remove' and args and not _has_abstract(base) and not _has_abstract(args[0]):
                try:
                    base.remove(args[0])
                except ValueError:
                    raise Raise('ValueError', node, self.where(node, frame))
                return None
            if name == 'sort' and not args and set(kwargs) <= {'key', 'reverse'}:
                r = self.builtin('sorted', [list(base)], kwargs, node, frame)
                if isinstance(r, list) and len(r) == len(base):
                    base[:] = r
                    return None
                raise Unsupported('list.sort on abstract items at %s' % self.where(node, frame))
            if name in ('reverse', 'remove', 'sort', '__setitem__', '__delitem__', '__iadd__'):
                raise Unsupported('list.%s on abstract operands at %s' % (name, self.where(node, frame)))
            if name == 'count':
                if _has_abstract(base) or _has_abstract(args[0]):
                    return Top('int')
                return base.count(args[0])
            if name == 'index' and args and not _has_abstract(base) and not _has_abstract(args[0]):
                try:
                    return base.index(args[0])
                except ValueError:
                    raise Raise('ValueError', node, self.where(node, frame))
            if name == 'copy':
                return list(base)
        if isinstance(base, dict):
            if name == 'get':
                k = args[0]
                if isinstance(k, tuple) and _has_abstract(k) and _ident_key(k):
                    how, v = dict_find(base, k)
                    if how == 'hit':
                        return v
                    if how == 'miss':
                        return args[1] if len(args) > 1 else None
                    return Top('item')
                if isinstance(k, (Top, Sym, Obj, list, dict)):
                    return Top('item')
                return base.get(k, args[1] if len(args) > 1 else None)
            if name == 'items':
                return [(k, v) for k, v in base.items()]
            if name == 'keys':
                return list(base.keys())
            if name == 'values':
                return list(base.values())
            if name == 'update' and (not args or isinstance(args[0], dict) or
                                     (isinstance(args[0], (list, tuple)) and all(isinstance(x, tuple) and len(x) == 2 for x in args[0]))):
                if args:
                    base.update(args[0])
                base.update(kwargs)
                return None
            if name == 'clear':
                base.clear()
                return None
            if name == 'pop':
                k = args[0]
                if not isinstance(k, (Top, Sym, Obj, list, dict)) and k in base:
                    return base.pop(k)
                if not isinstance(k, (Top, Sym, Obj, list, dict)) and len(args) > 1:
                    return args[1]
                return Top('item')
            if name == 'popitem':
                if not base:
                    raise Raise('KeyError', node, self.where(node, frame))
                return base.popitem()
            if name == 'setdefault' and not isinstance(args[0], (Top, Sym, Obj, list, dict)):
                return base.setdefault(args[0], args[1] if len(args) > 1 else None)
        if isinstance(base, (str, bytes)) and name in ('encode', 'decode') and not _has_abstract(list(args)) \
                and set(kwargs) <= {'encoding', 'errors'} and not _has_abstract(kwargs):
            try:
                return getattr(base, name)(*args, **kwargs)
            except (UnicodeError, LookupError):
                raise Raise('UnicodeError', node, self.where(node, frame))
        if isinstance(base, (str, bytes)) and not _has_abstract(list(args)) and not _has_abstract(kwargs) and name not in ('format', 'format_map') \
                and hasattr(base, name) and not name.startswith('_'):
            # strings are immutable: every method is a pure function of concrete operands
            try:
                r = getattr(base, name)(*args, **kwargs)
            except Exception as exc:
                raise Raise(type(exc).__name__ if type(exc).__name__ in BUILTIN_EXC else 'Exception', node, self.where(node, frame))
            return list(r) if isinstance(r, (map, filter, zip)) else r
            if name == 'format':
                try:
                    return base.format(*args)
                except Exception:
                    return Top('str')
        if isinstance(base, str) and name == 'format' and not _has_abstract(list(args)) and not _has_abstract(kwargs):
            try:
                return base.format(*args, **kwargs)
            except Exception:
                return Top('str')
        if isinstance(base, Tok):
            if name in ('strip', 'lstrip', 'rstrip'):
                return base
            if name == 'format':
                return Top('str')
        if name == 'format':
            return Top('str')
        if name not in BENIGN_UNKNOWN_METHODS:
            self.path.unknown.append(um.text)
        return Top('call:' + name)

    def construct(self, cname, args, kwargs, node, frame):
        repo = self.repo
        if cname in BUILTIN_EXC or (repo.has_cls(cname) and self.is_exception_class(cname)):
            o = Obj(cname, {'args': list(args)})
            init = repo.method(cname, '__init__', required=False) if repo.has_cls(cname) else None
            if init is not None:
                # an exception class of the repository with its own constructor: what the constructor does with its arguments
                # (and whether it fails on them) is part of raising it
                self.call_function(init, [o] + list(args), kwargs, node, frame)
            return o
        if repo.has_cls(cname):
            o = Obj(cname, {})
            init = repo.method(cname, '__init__', required=False)
            if init is not None and self.should_inline(init, frame):
                self.call_function(init, [o] + list(args), kwargs, node, frame)
            return o
        return Obj(cname, {'args': list(args), 'kwargs': dict(kwargs)})

    def is_exception_class(self, cname):
        if cname in BUILTIN_EXC:
            return True
        if not self.repo.has_cls(cname):
            return False
        for c in self.repo.mro(cname):
            if any(b in BUILTIN_EXC for b in c.base_names):
                return True
        return False

    def exc_is_subclass(self, cname, base):
        if cname == base:
            return True
        if self.repo.has_cls(cname):
            for c in self.repo.mro(cname):
                if c.name == base:
                    return True
                for b in c.base_names:
                    if b in BUILTIN_EXC and self.exc_is_subclass(b, base):
                        return True
            return False
        cur = cname
        while cur in BUILTIN_EXC:
            cur = BUILTIN_EXC[cur]
            if cur == base:
                return True
        return False

    def builtin(self, name, args, kwargs, node, frame):
        a0 = args[0] if args else None
        if name == 'len':
            if isinstance(a0, RepList):
                return Top('int')
            if isinstance(a0, (list, tuple, str, bytes, dict)):
                return len(a0)
            if isinstance(a0, Deque):
                return len(a0.items)
            if isinstance(a0, Tok):
                return 0 if a0.c == 'E' else Top('posint')
            return Top('int')
        if name == 'int':
            if isinstance(a0, Tok):
                if a0.c == 'D':
                    return Top('int')
                raise Raise('ValueError', node, self.where(node, frame))
            if isinstance(a0, (int, float)) and not isinstance(a0, bool):
                return int(a0)
            if isinstance(a0, str):
                try:
                    return int(a0)
                except ValueError:
                    raise Raise('ValueError', node, self.where(node, frame))
            if isinstance(a0, Sym):
                return Sym('int', a0)
            return Top('int')
        if name in ('round', 'abs', 'float', 'bool', 'str', 'repr'):
            if isinstance(a0, Sym):
                return Sym(name, *args)
            if name in ('str', 'repr') and len(args) == 1 and (a0 is None or isinstance(a0, (bool, int, float, str, bytes))):
                return str(a0) if name == 'str' else repr(a0)
            if isinstance(a0, (int, float)) and not isinstance(a0, bool) and name in ('round', 'abs', 'float') and len(args) == 1:
                return {'round': round, 'abs': abs, 'float': float}[name](a0)
            if name == 'bool':
                t = self.truth(a0)
                return Top('bool') if t is None else t
            return Top(name)
        if name == 'sum' and isinstance(a0, (list, tuple)) and len(a0) == 0:
            return args[1] if len(args) > 1 else kwargs.get('start', 0)
        if name in ('min', 'max', 'sum'):
            vals = a0 if len(args) == 1 else args
            if isinstance(vals, (list, tuple)) and vals and all(isinstance(x, (int, float)) and not isinstance(x, bool) for x in vals):
                return {'min': min, 'max': max, 'sum': sum}[name](vals)
            if isinstance(vals, (list, tuple)) and any(isinstance(x, Sym) for x in vals):
                return Sym(name, *vals)
            if isinstance(vals, Sym):
                return Sym(name, vals)
            return Top(name)
        if name == 'range':
            if all(isinstance(x, int) and not isinstance(x, bool) for x in args) and args:
                r = range(*args)
                if len(r) <= self.UNROLL_CAP:
                    return list(r)
            return Obj('range', {'args': list(args)})
        if name == 'isinstance':
            return self.isinstance_(a0, args[1], node, frame)
        if name == 'issubclass':
            c, b = a0, args[1]
            if isinstance(c, ClassRef) and isinstance(b, ClassRef):
                return self.repo.is_subclass(c.name, b.name) if self.repo.has_cls(c.name) else (c.name == b.name)
            return Top('bool')
        if name == 'type':
            if isinstance(a0, Obj):
                return ClassRef(a0.cls)
            if a0 is None or isinstance(a0, (bool, int, float, str, bytes, list, tuple, dict)):
                return ClassRef(type(a0).__name__)
            return Top('type')
        if name == 'hasattr':
            if isinstance(a0, Obj) and isinstance(args[1], str):
                if args[1] in a0.fields:
                    return True
                if self.repo.has_cls(a0.cls):
                    if self.repo.method(a0.cls, args[1], required=False) is not None:
                        return True
                    # attributes assigned in any constructor of the MRO
                    for c in self.repo.mro(a0.cls):
                        init = c.methods.get('__init__')
                        if init is not None:
                            from sa.model import effects
                            if args[1] in effects(init).written('self'):
                                return True
                    return False
            if isinstance(args[1], str) and (a0 is None or isinstance(a0, (bool, int, float, str, bytes, list, tuple, dict))):
                return hasattr(a0, args[1])
            return Top('bool')
        if name == 'getattr':
            if isinstance(args[1], str):
                fake = ast.Attribute(value=ast.Constant(value=None), attr=args[1], ctx=ast.Load())
                ast.copy_location(fake, node)
                r = self.on_load_attr(a0, args[1], fake, frame)
                if r is not self.NOT_HANDLED:
                    return r
                if isinstance(a0, Native):
                    return NativeMethod(a0, args[1])
                try:
                    v = self.load_attr(a0, args[1], fake, frame)
                except Raise as r:
                    if r.cls == 'AttributeError' and len(args) > 2:
                        return args[2]      # getattr(x, name, default): the default stands in for a missing attribute
                    raise
                if isinstance(v, Top) and len(args) > 2:
                    return args[2] if not (isinstance(a0, Obj) and self.repo.has_cls(a0.cls)) else v
                if isinstance(v, Top) and isinstance(a0, (Obj, Top, Sym)):
                    return UnknownMethod(a0, args[1], 'getattr(%s)' % args[1])
                return v
            return Top('getattr')
        if name == 'setattr':
            if isinstance(args[1], str):
                self.store_attr(a0, args[1], args[2], node, frame)
                return None
            self.event('setattr_dynamic', freeze(a0) if not isinstance(a0, Obj) else a0.cls)
            return None
        if name == 'slice':
            a = list(args)
            if len(a) == 1:
                st, sp, se = None, a[0], None
            elif len(a) == 2:
                st, sp, se = a[0], a[1], None
            elif len(a) == 3:
                st, sp, se = a
            else:
                raise Raise('TypeError', node, self.where(node, frame))
            return Obj('slice', {'start': st, 'stop': sp, 'step': se, 'args': a})
        if name in ('list', 'tuple', 'sorted') and isinstance(a0, (LazyIter, EnumIter)) and len(args) == 1 and not kwargs:
            out = []
            while len(out) <= 64:
                try:
                    out.append(a0.next_value(self, frame, node))
                except Raise as r:
                    if r.cls == 'StopIteration':
                        break
                    raise
            if name == 'sorted':
                return self.builtin('sorted', [out], {}, node, frame)
            return out if name == 'list' else tuple(out)
        if name in ('list', 'tuple'):
            if isinstance(a0, Deque):
                a0 = list(a0.items)
            if isinstance(a0, (list, tuple)):
                return list(a0) if name == 'list' else tuple(a0)
            if isinstance(a0, dict):
                return list(a0) if name == 'list' else tuple(a0)        # the keys, in insertion order
            if isinstance(a0, (str, bytes)):
                return list(a0) if name == 'list' else tuple(a0)
            if not args:
                return [] if name == 'list' else ()
            if isinstance(a0, Sym):
                return Sym(name, a0)
            return Top(name)
        if name == 'dict':
            if not args and not kwargs:
                return {}
            if isinstance(a0, dict):
                d = dict(a0)
                d.update(kwargs)
                return d
            if not args and kwargs:
                return dict(kwargs)
            if isinstance(a0, (list, tuple)) and all(isinstance(x, (tuple, list)) and len(x) == 2 for x in a0):
                try:
                    d = dict((k, v) for k, v in a0)
                except TypeError:
                    return Top('dict')
                if isinstance(a0, GenList):
                    del a0[:]           # (an iterator handed to dict() is used up)
                d.update(kwargs)
                return d
            return Top('dict')
        if name in ('set', 'frozenset'):
            if isinstance(a0, (list, tuple)) and not _has_abstract(a0):
                return tuple(sorted(set(a0), key=repr))
            if not args:
                return ()
            return Top('set')
        if name == 'enumerate' and isinstance(a0, (LazyIter, EnumIter)):
            st = args[1] if len(args) > 1 and isinstance(args[1], int) else kwargs.get('start', 0)
            return EnumIter(a0, st if isinstance(st, int) else 0)
        if name == 'enumerate':
            if isinstance(a0, (list, tuple)) or (isinstance(a0, (str, bytes)) and len(a0) <= 4096):
                st = args[1] if len(args) > 1 and isinstance(args[1], int) else kwargs.get('start', 0)
                # (enumerate is an iterator: a loop over it and next() calls inside the loop draw from the same supply)
                return GenList((i, x) for i, x in enumerate(a0, st if isinstance(st, int) else 0))
            return Obj('enumerate', {'of': a0})
        if name == 'zip':
            if all(isinstance(x, (list, tuple)) for x in args):
                # (an iterator: a loop over it uses it up)
                return GenList(tuple(t) for t in zip(*args))
            return Obj('zip', {'of': list(args)})
        if name in ('sorted', 'reversed'):
            if isinstance(a0, (list, tuple)) and not _has_abstract(a0) and not kwargs:
                return sorted(a0) if name == 'sorted' else list(reversed(a0))
            if name == 'sorted' and isinstance(a0, (list, tuple)) and not kwargs and a0 and all(isinstance(x, tuple) and x and not _has_abstract(x[0]) for x in a0):
                # tuples compare by their first elements when those differ: the rest is never looked at
                firsts = [x[0] for x in a0]
                try:
                    if len(set(firsts)) == len(firsts):
                        order = sorted(range(len(a0)), key=lambda i: firsts[i])
                        return [a0[i] for i in order]
                except TypeError:
                    pass
            if name == 'reversed' and isinstance(a0, (list, tuple)):
                return list(reversed(a0))
            if name == 'sorted' and isinstance(a0, (list, tuple)) and isinstance(kwargs.get('key'), FuncRef) and set(kwargs) <= {'key', 'reverse'}:
                keys = [self.call_function(kwargs['key'].fi, [x], {}, node, frame) for x in a0]
                if not _has_abstract(keys) and isinstance(kwargs.get('reverse', False), bool):
                    try:
                        order = sorted(range(len(a0)), key=lambda i: keys[i], reverse=kwargs.get('reverse', False))
                    except TypeError:
                        return Top('sorted')
                    return [a0[i] for i in order]
            return Top(name)
        if name == 'iter':
            return Obj('iter', {'of': a0})
        if name == 'next':
            if isinstance(a0, Native) and hasattr(a0, 'next_value'):
                return a0.next_value(self, frame, node)
            if isinstance(a0, GenList):
                if a0:
                    return a0.pop(0)
                if len(args) > 1:
                    return args[1]
                raise Raise('StopIteration', node, self.where(node, frame))
            if isinstance(a0, Obj) and a0.cls == 'iter' and isinstance(a0.fields.get('of'), (list, tuple, GenList)):
                seq = a0.fields['of']
                if isinstance(seq, GenList):
                    if seq:
                        return seq.pop(0)
                else:
                    k = a0.fields.get('pos', 0)
                    if k < len(seq):
                        a0.fields['pos'] = k + 1
                        return seq[k]
                if len(args) > 1:
                    return args[1]
                raise Raise('StopIteration', node, self.where(node, frame))
            return Top('next')
        if name == 'super':
            return Top('super')
        if name == 'print':
            return None
        plain = lambda x: isinstance(x, (int, float)) and not isinstance(x, bool)
        if name == 'divmod' and len(args) == 2:
            if plain(a0) and plain(args[1]):
                if args[1] == 0:
                    raise Raise('ZeroDivisionError', node, self.where(node, frame))
                return tuple(divmod(a0, args[1]))
            if isinstance(a0, (Sym, Top)) or isinstance(args[1], (Sym, Top)):
                return (self.binop(ast.FloorDiv, a0, args[1], node, frame), self.binop(ast.Mod, a0, args[1], node, frame))
        if name == 'pow' and len(args) == 2 and plain(a0) and plain(args[1]):
            try:
                return pow(a0, args[1])
            except Exception:
                return Top('pow')
        if name in ('bin', 'hex', 'oct') and len(args) == 1 and isinstance(a0, int) and not isinstance(a0, bool):
            return {'bin': bin, 'hex': hex, 'oct': oct}[name](a0)
        if name == 'chr' and isinstance(a0, int) and not isinstance(a0, bool) and 0 <= a0 < 0x110000:
            return chr(a0)
        if name == 'ord' and isinstance(a0, (str, bytes)) and len(a0) == 1:
            return ord(a0)
        if name in ('any', 'all') and len(args) == 1 and isinstance(a0, (list, tuple)):
            want = name == 'any'
            for x in a0:
                t = self.truth(x)
                if t is None:
                    t = self.choose_bool('%s:%s' % (name, norm(node)))
                    self.on_decide(x, t, frame)
                if t == want:
                    return want
            return not want
        if name == 'vars' and len(args) == 1 and isinstance(a0, Obj):
            return a0.fields          # the instance dictionary itself: changes made through it are changes of the object
        if name in ('map', 'filter') and len(args) == 2 and isinstance(a0, FuncRef) and isinstance(args[1], (list, tuple)):
            out = []
            for x in args[1]:
                try:
                    r = self.apply(norm(node.func), a0, [x], {}, node, frame)
                except Raise as e:
                    if e.cls == 'StopIteration':
                        # a StopIteration raised inside the mapped function leaves map.__next__ as it is and the consumer takes it for
                        # the end of the iterator: the rest is silently dropped (the result is consumed at once in this model)
                        self.event('map-ended-by-StopIteration', norm(node))
                        break
                    raise
                if name == 'map':
                    out.append(r)
                else:
                    t = self.truth(r)
                    if t is None:
                        t = self.choose_bool('filter:' + norm(node))
                    if t:
                        out.append(x)
            return out
        if name == 'callable' and len(args) == 1:
            if isinstance(a0, (FuncRef, ClassRef, NativeMethod)):
                return True
            if a0 is None or isinstance(a0, (bool, int, float, str, bytes, list, tuple, dict)):
                return False
        if name == 'bytes' and len(args) == 1 and isinstance(a0, (bytes, list, tuple)) and not _has_abstract(a0):
            try:
                return bytes(a0)
            except Exception:
                return Top('bytes')
        if name in ('bin', 'hex', 'chr', 'ord', 'any', 'all', 'open', 'compile', 'eval', 'exec', 'id', 'hash', 'format',
                    'divmod', 'pow', 'map', 'filter', 'callable', 'dir', 'bytes', 'bytearray', 'object'):
            if isinstance(a0, Sym):
                return Sym(name, *args)
            return Top(name)
        self.path.unknown.append(name)
        return Top('call:' + name)

    def isinstance_(self, v, t, node, frame):
        names = None
        if isinstance(t, ClassRef):
            names = [t.name]
        elif isinstance(t, tuple) and len(t) == 2 and t[0] == 'builtin':
            names = [t[1]]
        elif isinstance(t, (tuple, list)):
            names = []
            for x in t:
                if isinstance(x, ClassRef):
                    names.append(x.name)
                elif isinstance(x, tuple) and x and x[0] == 'builtin':
                    names.append(x[1])
                else:
                    return Top('bool')
        if names is None and isinstance(t, UnknownMethod) and isinstance(t.recv, ModRef) and t.recv.name == 'six':
            six_types = {'text_type': 'str', 'binary_type': 'bytes', 'string_types': 'str', 'integer_types': 'int'}
            if t.name in six_types:
                names = [six_types[t.name]]
        if names is None and isinstance(t, Top) and t.kind in ('import:numbers.Integral', 'import:numbers.Number', 'import:numbers.Real'):
            names = ['Integral'] if t.kind.endswith('Integral') else None
        if names is None:
            # builtin type names come through global_name as Top('name:int')
            if isinstance(t, Top) and t.kind.startswith('name:'):
                names = [t.kind[5:]]
            else:
                return Top('bool')
        names = [n for n in names]
        if isinstance(v, Obj):
            for n in names:
                if self.repo.has_cls(v.cls) and self.repo.has_cls(n):
                    if self.repo.is_subclass(v.cls, n):
                        return True
                elif v.cls == n:
                    return True
            return False
        py = {'int': int, 'str': str, 'float': float, 'list': list, 'tuple': tuple, 'dict': dict, 'bytes': bytes,
              'bool': bool}
        if isinstance(v, Top):
            if v.kind == 'int' and 'int' in names:
                return True
            return Top('bool')
        if isinstance(v, (Sym, Tok)):
            return Top('bool')
        res = False
        for n in names:
            if n in py:
                if isinstance(v, py[n]):
                    res = True
            elif n in ('Integral',):
                if isinstance(v, int):
                    res = True
            elif n in ('binary_type',):
                if isinstance(v, bytes):
                    res = True
            elif n in ('text_type',):
                if isinstance(v, str):
                    res = True
        return res

    def call_function(self, fi, args, kwargs, node, frame):
        if frame.depth + 1 > self.MAX_DEPTH:
            raise Unsupported('inlining depth exceeded at %s calling %s' % (self.where(node, frame), fi.qualname))
        self_class = frame.self_class
        new = Frame(fi, fi.module, self_class, frame.depth + 1)
        clo = getattr(fi, 'closure', None)
        if clo is not None:
            new.locals['__closure__'] = clo
        self.bind_params(fi, args, kwargs, new, node, frame)
        stack = getattr(self, 'frame_stack', None)
        if stack is None:
            stack = self.frame_stack = []
        stack.append(new)
        try:
            ctrl = self.block(fi.node.body, new)
        finally:
            stack.pop()
        if ctrl is not None and ctrl.kind == 'return':
            return ctrl.value
        return None

    def bind_params(self, fi, args, kwargs, new, node, frame):
        params = fi.params
        args = list(args)
        for p, a in zip(params, args):
            new.locals[p] = a
        if len(args) > len(params):
            if fi.vararg:
                new.locals[fi.vararg] = tuple(args[len(params):])
            else:
                raise Raise('TypeError', node, self.where(node, frame))
        elif fi.vararg:
            new.locals[fi.vararg] = ()
        nd = len(fi.defaults)
        for i, p in enumerate(params[len(args):], start=len(args)):
            if p in kwargs:
                new.locals[p] = kwargs[p]
            else:
                di = i - (len(params) - nd)
                if di >= 0:
                    dframe = Frame(fi, fi.module, new.self_class, new.depth)
                    new.locals[p] = self.ev(fi.defaults[di], dframe)
                else:
                    new.locals[p] = Top('param:' + p)
        extra = dict((k, v) for k, v in kwargs.items() if k not in params)
        for k in fi.kwonly:
            new.locals[k] = extra.pop(k, Top('param:' + k))
        if fi.kwarg:
            new.locals[fi.kwarg] = extra

    # --------------------------------------------------------- statements
    def block(self, stmts, frame):
        for s in stmts:
            c = self.stmt(s, frame)
            if c is not None:
                return c
        return None

    def stmt(self, s, frame):
        self.path.steps += 1
        m = getattr(self, 'st_' + type(s).__name__, None)
        if m is None:
            raise Unsupported('statement %s at %s' % (type(s).__name__, self.where(s, frame)))
        return m(s, frame)

    def st_Expr(self, s, frame):
        if isinstance(s.value, ast.Constant):
            return None
        self.ev(s.value, frame)
        return None

    def st_Pass(self, s, frame):
        return None

    def st_Import(self, s, frame):
        for a in s.names:
            frame.locals[a.asname or a.name.split('.')[0]] = ModRef(a.name)
        return None

    def st_ImportFrom(self, s, frame):
        return None

    def st_Global(self, s, frame):
        return None

    def st_Assign(self, s, frame):
        v = self.ev(s.value, frame)
        for t in s.targets:
            self.assign(t, v, frame, s)
        return None

    def st_AnnAssign(self, s, frame):
        if s.value is not None:
            self.assign(s.target, self.ev(s.value, frame), frame, s)
        return None

    def st_AugAssign(self, s, frame):
        cur = self.ev(_as_load(s.target), frame)
        r = self.ev(s.value, frame)
        if isinstance(cur, Native) and hasattr(cur, 'aug_assign'):
            cur.aug_assign(type(s.op), r, self, frame, s)
            return None
        if isinstance(cur, list) and isinstance(s.op, ast.Add) and isinstance(r, (list, tuple)):
            for x in r:
                if len(cur) < self.LIST_CAP:
                    cur.append(x)
            return None
        v = self.binop(type(s.op), cur, r, s, frame)
        self.assign(s.target, v, frame, s)
        return None

    def st_If(self, s, frame):
        if self.cond(s.test, frame):
            return self.block(s.body, frame)
        return self.block(s.orelse, frame)

    def st_Return(self, s, frame):
        return _Ctrl('return', self.ev(s.value, frame) if s.value is not None else None)

    def st_Break(self, s, frame):
        return _Ctrl('break')

    def st_Continue(self, s, frame):
        return _Ctrl('continue')

    def st_Delete(self, s, frame):
        for t in s.targets:
            if isinstance(t, ast.Attribute):
                b = self.ev(t.value, frame)
                if isinstance(b, Obj):
                    b.fields.pop(t.attr, None)
            elif isinstance(t, ast.Name):
                if t.id in frame.locals:
                    frame.locals[t.id] = UNBOUND
        return None

    def st_Raise(self, s, frame):
        if s.exc is None:
            raise Raise('<re-raise>', s, self.where(s, frame))
        v = self.ev(s.exc, frame)
        if isinstance(v, Obj):
            raise Raise(v.cls, s, self.where(s, frame), v)
        if isinstance(v, ClassRef):
            raise Raise(v.name, s, self.where(s, frame), v)
        raise Raise('<unknown>', s, self.where(s, frame), v)

    def st_Assert(self, s, frame):
        if not self.cond(s.test, frame):
            raise Raise('AssertionError', s, self.where(s, frame))
        return None

    def st_Try(self, s, frame):
        if not s.finalbody:
            return self._try_except(s, frame)
        try:
            c = self._try_except(s, frame)
        except Raise:
            c2 = self.block(s.finalbody, frame)
            if c2 is not None:
                return c2           # return / break in finally swallows the exception
            raise
        c2 = self.block(s.finalbody, frame)
        return c2 if c2 is not None else c

    def _try_except(self, s, frame):
        try:
            c = self.block(s.body, frame)
        except Raise as r:
            for h in s.handlers:
                if self.handler_matches(h, r, frame):
                    if h.name:
                        frame.locals[h.name] = r.value if r.value is not None else Obj(r.cls, {})
                    try:
                        return self.block(h.body, frame)
                    except Raise as r2:
                        if r2.cls == '<re-raise>':
                            raise Raise(r.cls, r2.node, r2.where, r.value)
                        raise
                    finally:
                        if h.name:
                            frame.locals[h.name] = UNBOUND      # Python 3: the name is deleted when the handler is left
            raise
        if c is None and s.orelse:
            return self.block(s.orelse, frame)
        return c

    def handler_class_names(self, t, frame):
        """Exception class names a handler type expression denotes (the expression is evaluated: a local or an attribute that holds
        the class, e.g. `self.bitstring_Error`, counts as the class it holds)."""
        if isinstance(t, ast.Tuple):
            out = []
            for x in t.elts:
                out += self.handler_class_names(x, frame)
            return out
        if isinstance(t, ast.Name) and (t.id in BUILTIN_EXC or self.repo.has_cls(t.id)) and t.id not in frame.locals:
            return [t.id]
        try:
            v = self.ev(t, frame)
        except Raise:
            v = None
        return self._exc_names_of(v, t)

    def _exc_names_of(self, v, t):
        if isinstance(v, ClassRef):
            return [v.name]
        if isinstance(v, UnknownMethod) and isinstance(v.recv, ModRef):
            return ['%s.%s' % (v.recv.name, v.name)]
        if isinstance(v, Top) and ('.' in v.kind) and not v.kind.startswith(('call', 'attr', 'name:', 'import:')):
            return [v.kind]
        if isinstance(v, Top) and v.kind.startswith('import:'):
            return [v.kind[7:]]
        if isinstance(v, Top) and v.kind.startswith('name:'):
            return [v.kind[5:]]
        if isinstance(v, tuple) and v and v[0] == 'builtin':
            return [v[1]]
        if isinstance(v, (tuple, list)):
            out = []
            for x in v:
                out += self._exc_names_of(x, t)
            return out
        # not resolvable: fall back to the spelled name
        if isinstance(t, ast.Name):
            return [t.id]
        if isinstance(t, ast.Attribute):
            return ['bitstring.Error' if t.attr == 'bitstring_Error' else t.attr]
        return []

    def handler_matches(self, h, r, frame):
        if h.type is None:
            return True
        for n in self.handler_class_names(h.type, frame):
            if n == 'bitstring_Error':
                n = 'bitstring.Error'
            if self.exc_is_subclass(r.cls, n):
                return True
        return False

    def st_With(self, s, frame):
        r = self.on_with(s, frame)
        if r is not self.NOT_HANDLED:
            return r
        return self.with_items(list(s.items), s, frame)

    def with_items(self, items, s, frame):
        if not items:
            return self.block(s.body, frame)
        item = items[0]
        ce = item.context_expr
        if isinstance(ce, ast.Call):
            callee = self.ev_callee(ce.func, frame)
            if isinstance(callee, FuncRef) and any('contextmanager' in d for d in callee.fi.decorators):
                return self.with_contextmanager(callee, ce, item, items[1:], s, frame)
        v = self.ev(ce, frame)
        if item.optional_vars is not None:
            self.assign(item.optional_vars, v if not isinstance(v, (int, str)) else Top('ctx'), frame, s)
        return self.with_items(items[1:], s, frame)

    @staticmethod
    def _split_at_yield(body):
        """(statements before the yield, the Yield node, statements after it, statements that run on every exit) of a generator
        written for contextlib.contextmanager: `pre; yield x; post` or `pre; try: pre2; yield x; post2 finally: fin`."""
        for i, st in enumerate(body):
            y = None
            if isinstance(st, ast.Expr) and isinstance(st.value, ast.Yield):
                y = st.value
            elif isinstance(st, ast.Assign) and isinstance(st.value, ast.Yield):
                y = st.value
            if y is not None:
                return list(body[:i]), y, list(body[i + 1:]), []
            if isinstance(st, ast.Try) and not st.handlers and not st.orelse:
                inner = Interp._split_at_yield(st.body)
                if inner is not None:
                    pre, y, post, fin = inner
                    return list(body[:i]) + pre, y, post, fin + list(st.finalbody) + list(body[i + 1:])
        return None

    def with_contextmanager(self, callee, ce, item, rest, s, frame):
        fi = callee.fi
        parts = self._split_at_yield(fi.node.body)
        if parts is None:
            raise Unsupported('context manager %s at %s: the generator is not of the form pre / yield / post' % (fi.qualname, self.where(s, frame)))
        pre, y, post, fin = parts
        args = self.ev_elts(ce.args, frame)
        kwargs = dict((k.arg, self.ev(k.value, frame)) for k in ce.keywords if k.arg is not None)
        if callee.bound is not None:
            args = [callee.bound] + args
        if frame.depth + 1 > self.MAX_DEPTH:
            raise Unsupported('inlining depth exceeded at %s entering %s' % (self.where(s, frame), fi.qualname))
        new = Frame(fi, fi.module, frame.self_class, frame.depth + 1)
        self.bind_params(fi, args, kwargs, new, ce, frame)
        c = self.block(pre, new)
        if c is not None:
            raise Unsupported('context manager %s leaves before its yield' % fi.qualname)
        v = self.ev(y.value, new) if y.value is not None else None
        if item.optional_vars is not None:
            self.assign(item.optional_vars, v, frame, s)
        try:
            c = self.with_items(rest, s, frame)
        except Raise:
            # the exception is thrown into the generator at the yield: only the finally part runs
            self.block(fin, new)
            raise
        self.block(post + fin, new)
        return c

    def st_For(self, s, frame):
        g = self.for_over_generator(s, frame)
        if g is not self.NOT_HANDLED and g[0] == 'ctrl':
            return g[1]
        it = g[1] if g is not self.NOT_HANDLED else self.ev(s.iter, frame)
        vals = self.on_for(s, it, frame)
        if vals is None and isinstance(it, GenList):
            # a generator is consumed by the loop, item by item: what the body takes with next() is not visited again
            n = 0
            while it:
                n += 1
                if n > self.UNROLL_CAP * 8:
                    raise PathLimit('loop over a generator at %s not left after %d iterations' % (self.where(s, frame), n))
                self.assign(s.target, it.pop(0), frame, s)
                c = self.block(s.body, frame)
                if c is not None:
                    if c.kind == 'break':
                        return None
                    if c.kind == 'continue':
                        continue
                    return c
            if s.orelse:
                return self.block(s.orelse, frame)
            return None
        if vals is None and isinstance(it, Native) and hasattr(it, 'next_value'):
            n = 0
            while True:
                n += 1
                if n > 64:
                    raise PathLimit('loop over %r at %s not left after 64 iterations' % (it, self.where(s, frame)))
                try:
                    nxt = it.next_value(self, frame, s)
                except Raise as r:
                    if r.cls == 'StopIteration':
                        if s.orelse:
                            return self.block(s.orelse, frame)
                        return None
                    raise
                self.assign(s.target, nxt, frame, s)
                c = self.block(s.body, frame)
                if c is not None:
                    if c.kind == 'break':
                        return None
                    if c.kind == 'continue':
                        continue
                    return c
        if vals is None and isinstance(it, Obj) and it.cls == 'iter' and isinstance(it.fields.get('of'), (list, tuple)):
            it = list(it.fields['of'])[it.fields.get('pos', 0):]
        if vals is None and not isinstance(it, (str, bytes)):
            vals = self.concrete_iteration(s, it, frame)
        if vals is not None:
            for v in vals:
                self.assign(s.target, v, frame, s)
                c = self.block(s.body, frame)
                if c is not None:
                    if c.kind == 'break':
                        return None
                    if c.kind == 'continue':
                        continue
                    return c
            if s.orelse:
                return self.block(s.orelse, frame)
            return None
        # body once, bracketed
        self.event('loop_begin', norm(s.iter))
        token = self.on_abstract_loop(s, it, frame, None)
        self.assign(s.target, self.loop_var(s, it, frame), frame, s)
        c = self.block(s.body, frame)
        self.on_abstract_loop(s, it, frame, token)
        self.event('loop_end')
        if c is not None and c.kind in ('break', 'continue'):
            c = None
        if c is None and s.orelse:
            # for/else: both "broke out" and "exhausted" are possible; the else arm is taken on exhaustion
            if self.choose_bool('for-else:' + norm(s.iter)):
                return self.block(s.orelse, frame)
        return c

    def st_While(self, s, frame):
        return self.on_while(s, frame)

    def unroll_while(self, s, frame, limit=64):
        """Bounded concrete unrolling of a while loop whose condition the store determines (or forks on)."""
        n = 0
        while True:
            if not self.cond(s.test, frame):
                if s.orelse:
                    return self.block(s.orelse, frame)
                return None
            n += 1
            if n > limit:
                raise PathLimit('while loop at %s:%d not finished after %d iterations' % (frame.module.relpath, s.lineno, limit))
            c = self.block(s.body, frame)
            if c is not None:
                if c.kind == 'break':
                    return None
                if c.kind == 'continue':
                    continue
                return c

    def st_FunctionDef(self, s, frame):
        fi = FuncInfo(frame.module, None, s)
        fi.closure = frame.locals          # free variables resolve in the defining frame
        frame.locals[s.name] = FuncRef(fi)
        return None

    # ------------------------------------------------------------ stores
    def assign(self, t, v, frame, node):
        if isinstance(t, ast.Name):
            frame.locals[t.id] = v
        elif isinstance(t, ast.Attribute):
            base = self.ev(t.value, frame)
            self.store_attr(base, t.attr, v, node, frame)
        elif isinstance(t, (ast.Tuple, ast.List)):
            if isinstance(v, Obj) and v.cls in NT_FIELDS and all(k in v.fields for k in NT_FIELDS[v.cls]):
                v = tuple(v.fields[k] for k in NT_FIELDS[v.cls])        # a namedtuple unpacks like the tuple it is
            if isinstance(v, (tuple, list)) and not any(isinstance(x, ast.Starred) for x in t.elts):
                if len(v) != len(t.elts):
                    raise Raise('ValueError', node, self.where(node, frame))
                for tt, vv in zip(t.elts, v):
                    self.assign(tt, vv, frame, node)
            else:
                for tt in t.elts:
                    self.assign(tt.value if isinstance(tt, ast.Starred) else tt, Top('unpack'), frame, node)
        elif isinstance(t, ast.Subscript):
            base = self.ev(t.value, frame)
            if isinstance(t.slice, ast.Slice):
                idx = ('slice',
                       self.ev(t.slice.lower, frame) if t.slice.lower is not None else None,
                       self.ev(t.slice.upper, frame) if t.slice.upper is not None else None,
                       self.ev(t.slice.step, frame) if t.slice.step is not None else None)
            else:
                idx = self.ev(t.slice, frame)
            if self.on_store_subscript(base, idx, v, node, frame):
                return
            if isinstance(base, dict) and not isinstance(idx, (Top, Sym, Obj, list, dict)) and not (isinstance(idx, tuple) and _has_abstract(idx)):
                base[idx] = v
            elif isinstance(base, dict) and isinstance(idx, tuple) and _ident_key(idx):
                base[idx] = v
            elif isinstance(base, list) and isinstance(idx, int) and -len(base) <= idx < len(base):
                base[idx] = v
            elif isinstance(base, list) and isinstance(idx, tuple) and len(idx) == 4 and idx[0] == 'slice':
                parts = idx[1:]
                if all(p is None or (isinstance(p, int) and not isinstance(p, bool)) for p in parts) and isinstance(v, (list, tuple)):
                    try:
                        base[slice(*parts)] = list(v)
                    except ValueError:
                        raise Raise('ValueError', node, self.where(node, frame))
                else:
                    raise Unsupported('slice assignment with abstract bounds or value at %s' % self.where(node, frame))
        elif isinstance(t, ast.Starred):
            self.assign(t.value, v, frame, node)
        else:
            raise Unsupported('assignment target %s at %s' % (type(t).__name__, self.where(node, frame)))

    def store_attr(self, base, attr, v, node, frame):
        if self.on_store_attr(base, attr, v, node, frame):
            return
        if isinstance(base, Obj):
            base.fields[attr] = v
        elif isinstance(base, Native):
            setattr(base, 'f_' + attr, v)

    # ---------------------------------------------------------- drivers
    def run_paths(self, body, make_frame, label=''):
        """Enumerate every path of `body` (a list of statements).  `make_frame`
        builds a fresh Frame (fresh abstract objects) for each path."""
        results = []
        stack = [[]]
        n_here = 0
        while stack:
            seq = stack.pop()
            self.n_paths += 1
            n_here += 1
            if n_here > self.MAX_PATHS:
                raise PathLimit('more than %d paths (%s)' % (self.MAX_PATHS, label))
            path = Path(seq)
            self.path = path
            frame = make_frame()
            self.frame_stack = [frame]
            try:
                c = self.block(body, frame)
                if c is None:
                    res = Result(frame, path, 'fallthrough')
                else:
                    res = Result(frame, path, c.kind, c.value)
            except Raise as r:
                res = Result(frame, path, 'raise', exc=r)
            self.n_steps += path.steps
            # schedule the untried alternatives of every choice made beyond the prefix
            for i in range(len(seq), len(path.log)):
                label_i, c_i, n_i = path.log[i]
                for alt in range(c_i + 1, n_i):
                    stack.append(path.seq[:i] + [alt])
            results.append(res)
        return results

    def run_function(self, fi, make_locals, self_class=None, label=''):
        sc = self_class or self.self_class

        def mk():
            f = Frame(fi, fi.module, sc, 0)
            f.locals.update(make_locals())
            # parameters the rule did not script take their declared defaults (a parameter added with a default is not a new obligation)
            nd = len(fi.defaults)
            for i, p in enumerate(fi.params):
                if p not in f.locals:
                    di = i - (len(fi.params) - nd)
                    if di >= 0:
                        try:
                            f.locals[p] = self.ev(fi.defaults[di], Frame(fi, fi.module, sc, 0))
                        except Raise:
                            pass
            kwd = getattr(fi.node.args, 'kw_defaults', [])
            for p, d in zip(fi.kwonly, kwd):
                if p not in f.locals and d is not None:
                    try:
                        f.locals[p] = self.ev(d, Frame(fi, fi.module, sc, 0))
                    except Raise:
                        pass
            return f

        body = fi.node.body
        if any(('.' not in d.split('(')[0] and '(' not in d and d.split('(')[0] in fi.module.funcs) for d in fi.decorators) and not fi.node.args.vararg \
                and not fi.node.args.kwarg:
            # the function is wrapped by one of the repository's own decorators: what a caller gets is the wrapper, so that is what is
            # folded (a call of the function by its parameters, which apply() routes through the decorator)
            call = ast.Call(func=ast.Name(id='__decorated_target__', ctx=ast.Load()), args=[ast.Name(id=p_, ctx=ast.Load()) for p_ in fi.params], keywords=[])
            ret = ast.Return(value=call)
            for n_ in ast.walk(ret):
                ast.copy_location(n_, fi.node)
            ast.fix_missing_locations(ret)
            body = [ret]
            mk0 = mk

            def mk():
                f = mk0()
                f.locals['__decorated_target__'] = FuncRef(fi)
                return f
        res = self.run_paths(body, mk, label or fi.qualname)
        if self._is_generator_function(fi) and not any('contextmanager' in d for d in fi.decorators):
            # a generator function folded as an entry point: what its caller gets are the values it yields
            for r in res:
                if r.ok and r.value is None:
                    r.value = GenList(e[1] for e in r.events if e[0] == 'yield')
        return res


def _deepcopy_data(v):
    """copy.deepcopy on plain containers (abstract objects are shared: their identity is what rules track)."""
    if isinstance(v, dict):
        return dict((k, _deepcopy_data(x)) for k, x in v.items())
    if isinstance(v, list):
        return [_deepcopy_data(x) for x in v]
    if isinstance(v, tuple):
        return tuple(_deepcopy_data(x) for x in v)
    return v


def _as_load(t):
    n = ast.parse(ast.unparse(t), mode='eval').body
    ast.copy_location(n, t)
    for x in ast.walk(n):
        ast.copy_location(x, t)
    return n


def _ident_key(k):
    """A dictionary key whose identity the evaluator can follow: constants, symbolic constants (Sym) and objects (by identity),
    possibly nested in tuples; nothing unknown (Top) inside."""
    if isinstance(k, tuple):
        return all(_ident_key(x) for x in k)
    if isinstance(k, (Top, Tok, Native, list, dict)):
        return False
    return True


# classes whose instances compare by value (collections.namedtuple definitions found in the repository; filled by Interp.__init__)
VALUE_CLASSES = set()
# field names of those namedtuples: {binding name or type name: [fields]}
NT_FIELDS = {}


def _surely_equal(a, b):
    if a is b:
        return True
    if isinstance(a, tuple) and isinstance(b, tuple):
        return len(a) == len(b) and all(_surely_equal(x, y) for x, y in zip(a, b))
    if isinstance(a, Obj) and isinstance(b, Obj):
        return a.cls == b.cls and a.cls in VALUE_CLASSES and set(a.fields) == set(b.fields) and \
            all(_surely_equal(a.fields[k], b.fields[k]) for k in a.fields)
    if _has_abstract(a) or _has_abstract(b):
        return isinstance(a, Sym) and isinstance(b, Sym) and a == b
    try:
        return type(a) is type(b) and a == b
    except Exception:
        return False


def _may_equal(a, b):
    if isinstance(a, tuple) and isinstance(b, tuple):
        return len(a) == len(b) and all(_may_equal(x, y) for x, y in zip(a, b))
    if isinstance(a, Obj) and isinstance(b, Obj) and a is not b:
        # two distinct objects: certainly unequal when of different classes, or when some field holds different constants
        # (true both for value-like classes such as namedtuples and for classes compared by identity)
        if a.cls != b.cls:
            return False
        for k in set(a.fields) | set(b.fields):
            x, y = a.fields.get(k), b.fields.get(k)
            if not _has_abstract(x) and not _has_abstract(y) and x != y:
                return False
        return True
    if isinstance(a, (Sym, Obj)) or isinstance(b, (Sym, Obj)):
        return True
    if isinstance(a, tuple) or isinstance(b, tuple):
        return False
    try:
        return a == b
    except Exception:
        return True


def dict_find(base, k):
    """('hit', value) | ('miss', None) | ('unknown', None) for a key that may contain symbolic parts."""
    try:
        if k in base:
            return 'hit', base[k]
    except TypeError:
        return 'unknown', None
    for k2 in base:
        if _surely_equal(k2, k):
            return 'hit', base[k2]
    if any(_may_equal(k2, k) for k2 in base):
        return 'unknown', None
    return 'miss', None


def _has_abstract(v):
    if isinstance(v, (Top, Sym, Tok, Obj, Native)):
        return True
    if isinstance(v, (list, tuple)):
        return any(_has_abstract(x) for x in v)
    if isinstance(v, dict):
        return any(_has_abstract(x) for x in v.values())
    return False
